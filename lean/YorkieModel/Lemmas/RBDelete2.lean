/- The recursive delete of the LLRB core: red-black invariants and the in-order effect,
for any addressing scheme that satisfies `NavSpec`. -/
import YorkieModel.Lemmas.RBDelete
namespace Yorkie.RB
open T

variable {α Q β : Type} {cfg : Cfg α Q} {key : α → β}

/-- What the recursive delete needs to know about the addressing scheme (`cfg.nav`):
`Tgt t q i` says that query `q` addresses in-order position `i` of `t`.  The two
instances are "structural index against exact cached counts" (treelist) and "key of a
binary search tree" (llrb). -/
structure NavSpec (cfg : Cfg α Q) (Tgt : T α → Q → Nat → Prop) : Prop where
  lt_iff : ∀ {l a c r q i}, Tgt (node l a c r) q i → ((cfg.nav l a q).1 = .lt ↔ i < l.size)
  eq_iff : ∀ {l a c r q i}, Tgt (node l a c r) q i → ((cfg.nav l a q).1 = .eq ↔ i = l.size)
  bound : ∀ {t q i}, Tgt t q i → i < t.size
  left : ∀ {l a c r q i}, Tgt (node l a c r) q i → i < l.size → Tgt l q i
  right : ∀ {l a c r q i}, Tgt (node l a c r) q i → l.size < i → Tgt r (cfg.nav l a q).2 (i - l.size - 1)
  recolor : ∀ {l a c r q i} (c' : Bool), Tgt (node l a c r) q i → Tgt (node l a c' r) q i
  flipL : ∀ {l a c r q i}, Tgt (node l a c r) q i → Tgt (node (flipRoot l) a c r) q i
  flipR : ∀ {l a c r q i}, Tgt (node l a c r) q i → Tgt (node l a c (flipRoot r)) q i
  rotL : ∀ {t q i}, Tgt t q i → Tgt (rotateLeft cfg t) q i
  rotR : ∀ {t q i}, Tgt t q i → Tgt (rotateRight cfg t) q i
  rotRchild : ∀ {l a c r q i}, Tgt (node l a c r) q i → Tgt (node l a c (rotateRight cfg r)) q i

variable {Tgt : T α → Q → Nat → Prop}

theorem NavSpec.flipColors (ns : NavSpec cfg Tgt) {t q i} (h : Tgt t q i) : Tgt (flipColors t) q i := by
  cases t with
  | nil => exact h
  | node l a c r => exact ns.flipR (ns.flipL (ns.recolor (!c) h))

theorem NavSpec.moveRedLeft (ns : NavSpec cfg Tgt) {t q i} (h : Tgt t q i) : Tgt (moveRedLeft cfg t) q i := by
  have h1 := ns.flipColors h
  unfold RB.moveRedLeft
  split
  · next l a c r e =>
    rw [e] at h1
    split
    · exact ns.flipColors (ns.rotL (ns.rotRchild h1))
    · exact h1
  · next e => rw [e] at h1; exact h1

theorem NavSpec.moveRedRight (ns : NavSpec cfg Tgt) {t q i} (h : Tgt t q i) : Tgt (moveRedRight cfg t) q i := by
  have h1 := ns.flipColors h
  unfold RB.moveRedRight
  simp only []
  split
  · exact ns.flipColors (ns.rotR h1)
  · exact h1

/-! ### list surgery -/

theorem eraseIdx_left {γ} (L R : List γ) (a : γ) {i : Nat} (h : i < L.length) :
    (L ++ a :: R).eraseIdx i = L.eraseIdx i ++ a :: R := by
  rw [List.eraseIdx_append_of_lt_length h]

theorem eraseIdx_mid {γ} (L R : List γ) (a : γ) : (L ++ a :: R).eraseIdx L.length = L ++ R := by
  rw [List.eraseIdx_append_of_length_le (Nat.le_refl _)]; simp

theorem eraseIdx_right {γ} (L R : List γ) (a : γ) {i : Nat} (h : L.length < i) :
    (L ++ a :: R).eraseIdx i = L ++ a :: R.eraseIdx (i - L.length - 1) := by
  rw [List.eraseIdx_append_of_length_le (by omega)]
  have : i - L.length = (i - L.length - 1) + 1 := by omega
  rw [this, List.eraseIdx_cons_succ]; simp

/-! ### unfolding the recursive delete along one branch -/

theorem del_lt_nomove {f : Nat} {l r : T α} {a : α} {c : Bool} {q : Q}
    (h : (cfg.nav l a q).1 = .lt) (hl : l.isNil = false) (hm : (!l.isRed && !l.left.isRed) = false) :
    del cfg (f + 1) (node l a c r) q = fixUp cfg cfg.strictFix (node (del cfg f l q) a c r) := by
  simp [del, h, hl, hm]

theorem del_lt_move {f : Nat} {l r l1 r1 : T α} {a a1 : α} {c c1 : Bool} {q : Q}
    (h : (cfg.nav l a q).1 = .lt) (hl : l.isNil = false) (hm : (!l.isRed && !l.left.isRed) = true)
    (e : moveRedLeft cfg (node l a c r) = node l1 a1 c1 r1) :
    del cfg (f + 1) (node l a c r) q = fixUp cfg cfg.strictFix (node (del cfg f l1 q) a1 c1 r1) := by
  simp [del, h, hl, hm, e]

theorem del_ge_nil {f : Nat} {l r l1 : T α} {a a1 : α} {c c1 : Bool} {q : Q}
    (h : (cfg.nav l a q).1 ≠ .lt)
    (e1 : (if l.isRed then rotateRight cfg (node l a c r) else node l a c r) = node l1 a1 c1 nil)
    (heq : (cfg.nav l1 a1 q).1 = .eq) :
    del cfg (f + 1) (node l a c r) q = nil := by
  simp [del, h, e1, heq]

theorem del_ge_succ {f : Nat} {l r l1 r1 l2 r2 : T α} {a a1 a2 s : α} {c c1 c2 : Bool} {q : Q}
    (h : (cfg.nav l a q).1 ≠ .lt)
    (e1 : (if l.isRed then rotateRight cfg (node l a c r) else node l a c r) = node l1 a1 c1 r1)
    (hr1 : r1.isNil = false)
    (e2 : (if r1.isRed = false ∧ r1.left.isRed = false then moveRedRight cfg (node l1 a1 c1 r1)
      else node l1 a1 c1 r1) = node l2 a2 c2 r2)
    (heq : (cfg.nav l2 a2 q).1 = .eq) (hs : r2.minP = some s) :
    del cfg (f + 1) (node l a c r) q = fixUp cfg cfg.strictFix (node l2 s c2 (removeMin cfg f r2)) := by
  simp [del, h, e1, hr1, e2, heq, hs]

theorem del_ge_rec {f : Nat} {l r l1 r1 l2 r2 : T α} {a a1 a2 : α} {c c1 c2 : Bool} {q : Q}
    (h : (cfg.nav l a q).1 ≠ .lt)
    (e1 : (if l.isRed then rotateRight cfg (node l a c r) else node l a c r) = node l1 a1 c1 r1)
    (hr1 : r1.isNil = false)
    (e2 : (if r1.isRed = false ∧ r1.left.isRed = false then moveRedRight cfg (node l1 a1 c1 r1)
      else node l1 a1 c1 r1) = node l2 a2 c2 r2)
    (heq : (cfg.nav l2 a2 q).1 ≠ .eq) :
    del cfg (f + 1) (node l a c r) q =
      fixUp cfg cfg.strictFix (node l2 a2 c2 (del cfg f r2 (cfg.nav l2 a2 q).2)) := by
  simp [del, h, e1, hr1, e2, heq]

/-! ### the recursive delete -/

/-- second admissible shape at a recursive call (reached only through moveRedRight's
rotation): black node, black left child, red right child, target not on the left -/
def Pre2 (t : T α) (i : Nat) : Prop :=
  ∃ l a rl b rr, t = node l a false (node rl b true rr) ∧ LL l ∧ l.isRed = false ∧ LL rl ∧ LL rr ∧
    rl.isRed = false ∧ rr.isRed = false ∧ l.size ≤ i

theorem size_lt_of_bal_black {l r : T α} (hb : bhOf l = bhOf r) (hr : r ≠ nil) (hrb : r.isRed = false) :
    l ≠ nil := by
  rintro rfl
  rcases r with _ | ⟨r1, r2, r3, r4⟩
  · exact hr rfl
  · simp at hrb; subst hrb; simp at hb

theorem del_good (hk : KeyOK cfg key) (ns : NavSpec cfg Tgt) : ∀ (f : Nat) (t : T α) (q : Q) (i : Nat),
    t.size < f → Tgt t q i → Bal t →
    ((LL t ∧ (t.isRed = true ∨ t.left.isRed = true)) ∨ Pre2 t i) →
    Post t (del cfg f t q) ∧ klist key (del cfg f t q) = (klist key t).eraseIdx i := by
  intro f
  induction f with
  | zero => intro t q i h; omega
  | succ f ih =>
    intro t q i hs htg hb hpre
    rcases t with _ | ⟨l, a, c, r⟩
    · have := ns.bound htg; simp at this
    have hlen : ∀ s : T α, (klist key s).length = s.size := fun s => length_klist s
    by_cases hlt : (cfg.nav l a q).1 = .lt
    · -- the target is in the left subtree
      have hil : i < l.size := (ns.lt_iff htg).1 hlt
      have hlne : l.isNil = false := by
        cases l with
        | nil => simp at hil
        | node => rfl
      have hP1 : LL (node l a c r) ∧ (c = true ∨ l.isRed = true) := by
        rcases hpre with h | ⟨l', a', rl, b, rr, e, -, -, -, -, -, -, hle⟩
        · simpa using h
        · injection e with e1 e2 e3 e4; subst e1; omega
      obtain ⟨hl, hcl⟩ := hP1
      by_cases hm : (!l.isRed && !l.left.isRed) = false
      · -- descend as it is
        rw [del_lt_nomove hlt hlne hm]
        have hpl : l.isRed = true ∨ l.left.isRed = true := by
          cases h1 : l.isRed <;> cases h2 : l.left.isRed <;> simp_all
        obtain ⟨p1, p3⟩ := ih l q i (by simp at hs; omega) (ns.left htg hil) hb.1 (.inl ⟨hl.1, hpl⟩)
        generalize del cfg f l q = l' at p1 p3
        obtain ⟨q1, q2⟩ := finish_LA (cfg := cfg) cfg.strictFix (L := l) (l' := l') (r := r) (a := a) (a' := a)
          (c := c) p1 hl.2.1 hl.2.2.1 hl.2.2.2 hb
        refine ⟨⟨q1.1, q1.2.1, q1.2.2.1, fun h => q1.2.2.2 (by simpa using h)⟩, ?_⟩
        rw [q2, klist_mkN hk, p3, klist_node, eraseIdx_left _ _ _ (by rw [hlen]; exact hil)]
      · -- moveRedLeft first: the node is red, `l` and `l.left` are black
        have hm' : (!l.isRed && !l.left.isRed) = true := by simpa using hm
        rcases l with _ | ⟨ll, la, lc, lr⟩
        · simp at hlne
        have hlc : lc = false := by cases lc <;> simp_all
        subst hlc
        have hllb : ll.isRed = false := by simpa using hm'
        have hc : c = true := by simpa using hcl
        subst hc
        rcases r with _ | ⟨rl, b, rc, rr⟩
        · simp at hb
        have hrc : rc = false := by simpa using hl.2.2.1
        subst hrc
        have hkl := klist_moveRedLeft (key := key) hk (node (node ll la false lr) a true (node rl b false rr))
        have htm := ns.moveRedLeft htg
        simp only [LL_node, Bal_node, bhOf_node] at hl hb
        by_cases hrl : rl.isRed = true
        · rcases rl with _ | ⟨rll, x, rlc, rlr⟩
          · simp at hrl
          simp at hrl; subst hrl
          obtain ⟨a', x', b', e⟩ := moveRedLeft_rot (cfg := cfg) (l := node ll la false lr) (rll := rll)
            (rlr := rlr) (rr := rr) (a := a) (b := b) (x := x)
          simp only [flipRoot_node, Bool.not_false] at e
          rw [e] at hkl htm
          rw [del_lt_move hlt hlne hm' e]
          simp only [LL_node, Bal_node, bhOf_node] at hl hb
          obtain ⟨p1, p3⟩ := ih (node (node ll la true lr) a' false rll) q i (by simp at hs ⊢; omega)
            (ns.left htm (by simp at hil ⊢; omega)) (by simp_all <;> omega) (.inl ⟨by simp_all, .inr rfl⟩)
          generalize del cfg f (node (node ll la true lr) a' false rll) q = l1' at p1 p3
          obtain ⟨q1, q2⟩ := finish_LA (cfg := cfg) cfg.strictFix (L := node (node ll la true lr) a' false rll)
            (l' := l1') (r := node rlr b' false rr) (a := x') (a' := x') (c := true) p1
            (by simp_all) rfl (by simp) (by simp_all <;> omega)
          refine ⟨⟨q1.1, q1.2.1, by have := q1.2.2.1; simp_all <;> omega, by simp⟩, ?_⟩
          rw [q2, ← hkl, klist_mkN hk,
            klist_node (key := key) (node (node ll la true lr) a' false rll) x' true _, p3,
            eraseIdx_left _ _ _ (by rw [hlen]; simp at hil ⊢; omega)]
        · have hrl' : rl.isRed = false := by simpa using hrl
          have e := moveRedLeft_plain (cfg := cfg) (l := node ll la false lr) (rl := rl) (rr := rr) (a := a)
            (b := b) hrl'
          simp only [flipRoot_node, Bool.not_false] at e
          rw [e] at hkl htm
          rw [del_lt_move hlt hlne hm' e]
          obtain ⟨p1, p3⟩ := ih (node ll la true lr) q i (by simp at hs ⊢; omega)
            (ns.left htm (by simpa using hil)) (by simp_all) (.inl ⟨by simp_all, .inl rfl⟩)
          generalize del cfg f (node ll la true lr) q = l1' at p1 p3
          have q1 := finish_LB (cfg := cfg) cfg.strictFix (L := node ll la true lr) (l' := l1') (rl := rl) (rr := rr)
            (a := a) (a' := a) (b := b) p1 rfl (by simp_all) (by simp_all) hrl' (by simp_all)
            (by simp_all <;> omega)
          refine ⟨⟨q1.1, q1.2.1, by have := q1.2.2.1; simp_all <;> omega, by simp⟩, ?_⟩
          rw [klist_fixUp hk, ← hkl, klist_node (key := key) l1' a false _,
            klist_node (key := key) (node ll la true lr) a false _, p3,
            eraseIdx_left _ _ _ (by rw [hlen]; simpa using hil)]
    · -- the target is this node or in the right subtree
      have hil : ¬ i < l.size := fun h => hlt ((ns.lt_iff htg).2 h)
      by_cases hlr : l.isRed = true
      · -- red left child: rotateRight first, then continue into the (now red) old node
        rcases l with _ | ⟨ll, la, lc, lr⟩
        · simp at hlr
        simp at hlr; subst hlr
        have hl : LL (node (node ll la true lr) a c r) := by
          rcases hpre with h | ⟨l', a', rl, b, rr, e, -, hb', -⟩
          · exact h.1
          · injection e with e1 e2 e3 e4; subst e1; simp at hb'
        have hc : c = false := by cases c <;> simp_all
        subst hc
        obtain ⟨la1, a1, e⟩ : ∃ la1 a1, rotateRight cfg (node (node ll la true lr) a false r) =
            node ll la1 false (node lr a1 true r) := ⟨_, _, rfl⟩
        have hkl := klist_rotateRight (key := key) hk (node (node ll la true lr) a false r)
        have htm := ns.rotR htg
        rw [e] at hkl htm
        have e1 : (if (node ll la true lr).isRed then rotateRight cfg (node (node ll la true lr) a false r)
            else node (node ll la true lr) a false r) = node ll la1 false (node lr a1 true r) := by simp [e]
        have e2 : (if (node lr a1 true r).isRed = false ∧ (node lr a1 true r).left.isRed = false
            then moveRedRight cfg (node ll la1 false (node lr a1 true r))
            else node ll la1 false (node lr a1 true r)) = node ll la1 false (node lr a1 true r) := by simp
        have hgt : ll.size < i := by simp at hil; omega
        have hne : (cfg.nav ll la1 q).1 ≠ .eq := fun h => by
          have := (ns.eq_iff htm).1 h; omega
        rw [del_ge_rec hlt e1 rfl e2 hne]
        simp only [LL_node, Bal_node, bhOf_node] at hl hb
        obtain ⟨p1, p3⟩ := ih (node lr a1 true r) (cfg.nav ll la1 q).2 (i - ll.size - 1) (by simp at hs ⊢; omega)
          (ns.right htm hgt) (by simp_all <;> omega) (.inl ⟨by simp_all, .inl rfl⟩)
        generalize del cfg f (node lr a1 true r) (cfg.nav ll la1 q).2 = r' at p1 p3
        have q1 := finish_RB (cfg := cfg) cfg.strictFix (l := ll) (R := node lr a1 true r) (r' := r') (a := la1)
          (a' := la1) p1 rfl (by simp_all) (by simp_all) (by simp_all <;> omega)
        refine ⟨⟨q1.1, q1.2.1, by have := q1.2.2.1; simp_all <;> omega, fun _ => q1.2.2.2 trivial⟩, ?_⟩
        rw [klist_fixUp hk, ← hkl, klist_node (key := key) ll la1 false r', p3,
          klist_node (key := key) ll la1 false _, eraseIdx_right _ _ _ (by rw [hlen]; exact hgt), hlen]
      · have hlb : l.isRed = false := by simpa using hlr
        have e1 : (if l.isRed then rotateRight cfg (node l a c r) else node l a c r) = node l a c r := by
          simp [hlb]
        have hile : l.size ≤ i := by omega
        rcases r with _ | ⟨rl, b, rc, rr⟩
        · -- no right child: this node is a red leaf and it is the target
          have hl0 : l = nil := nil_of_bh0 (by simpa using hb.2.2) hlb
          subst hl0
          have hi0 : i = 0 := by have := ns.bound htg; simp at this; omega
          subst hi0
          rw [del_ge_nil hlt e1 ((ns.eq_iff htg).2 rfl)]
          have hc : c = true := by
            rcases hpre with h | ⟨l', a', rl, b, rr, e, -⟩
            · simpa using h.2
            · injection e with _ _ _ e4; cases e4
          subst hc
          simp [Post]
        · by_cases hmv : rc = false ∧ rl.isRed = false
          · -- moveRedRight: the node is red, `r` and `r.left` are black
            obtain ⟨hrc, hrlb⟩ := hmv
            subst hrc
            have hl : LL (node l a c (node rl b false rr)) := by
              rcases hpre with h | ⟨l', a', rl', b', rr', e, -⟩
              · exact h.1
              · injection e with _ _ _ e4; injection e4 with _ _ e7 _; cases e7
            have hc : c = true := by
              rcases hpre with h | ⟨l', a', rl', b', rr', e, -⟩
              · simpa [hlb] using h.2
              · injection e with _ _ _ e4; injection e4 with _ _ e7 _; cases e7
            subst hc
            rcases l with _ | ⟨ll, la, lc, lr⟩
            · simp at hb
            simp at hlb; subst hlb
            have hkl := klist_moveRedRight (key := key) hk (node (node ll la false lr) a true (node rl b false rr))
            have htm := ns.moveRedRight htg
            simp only [LL_node, Bal_node, bhOf_node] at hl hb
            by_cases hll : ll.isRed = true
            · -- with rotation: continue into a black node with a red right child (`Pre2`)
              rcases ll with _ | ⟨lll, lla, llc, llr⟩
              · simp at hll
              simp at hll; subst hll
              obtain ⟨la', a', e⟩ := moveRedRight_rot (cfg := cfg) (lll := lll) (llr := llr) (lr := lr)
                (r := node rl b false rr) (a := a) (la := la) (lla := lla)
              simp only [flipRoot_node, Bool.not_false] at e
              rw [e] at hkl htm
              have e2 : (if (node rl b false rr).isRed = false ∧ (node rl b false rr).left.isRed = false
                  then moveRedRight cfg (node (node (node lll lla true llr) la false lr) a true (node rl b false rr))
                  else node (node (node lll lla true llr) la false lr) a true (node rl b false rr)) =
                  node (node lll lla false llr) la' true (node lr a' false (node rl b true rr)) := by
                simp [hrlb, e]
              have hgt : (node lll lla false llr).size < i := by simp at hile ⊢; omega
              have hne : (cfg.nav (node lll lla false llr) la' q).1 ≠ .eq := fun h => by
                have := (ns.eq_iff htm).1 h; omega
              rw [del_ge_rec hlt e1 rfl e2 hne]
              simp only [LL_node, Bal_node, bhOf_node] at hl hb
              obtain ⟨p1, p3⟩ := ih (node lr a' false (node rl b true rr)) (cfg.nav (node lll lla false llr) la' q).2
                (i - (node lll lla false llr).size - 1) (by simp at hs ⊢; omega) (ns.right htm hgt)
                (by simp_all <;> omega)
                (.inr ⟨lr, a', rl, b, rr, rfl, by simp_all, by simp_all, by simp_all, by simp_all, hrlb, by simp_all,
                  by simp at hile ⊢; omega⟩)
              generalize del cfg f (node lr a' false (node rl b true rr)) (cfg.nav (node lll lla false llr) la' q).2 =
                r' at p1 p3
              obtain ⟨q1, q2⟩ := finish_RA (cfg := cfg) cfg.strictFix (l := node lll lla false llr)
                (R := node lr a' false (node rl b true rr)) (r' := r') (a := la') (a' := la') (c := true) p1 rfl
                (by simp_all) (by simp) (by simp_all <;> omega)
              refine ⟨⟨q1.1, q1.2.1, by have := q1.2.2.1; simp_all <;> omega, by simp⟩, ?_⟩
              rw [q2, ← hkl, klist_mkN hk, p3, klist_node (key := key) (node lll lla false llr) la' true _,
                eraseIdx_right _ _ _ (by rw [hlen]; exact hgt), hlen]
            · -- without rotation: both children red below a black node
              have hllb : ll.isRed = false := by simpa using hll
              have e := moveRedRight_plain (cfg := cfg) (ll := ll) (lr := lr) (r := node rl b false rr) (a := a)
                (la := la) hllb
              simp only [flipRoot_node, Bool.not_false] at e
              rw [e] at hkl htm
              have e2 : (if (node rl b false rr).isRed = false ∧ (node rl b false rr).left.isRed = false
                  then moveRedRight cfg (node (node ll la false lr) a true (node rl b false rr))
                  else node (node ll la false lr) a true (node rl b false rr)) =
                  node (node ll la true lr) a false (node rl b true rr) := by
                simp [hrlb, e]
              have hsz : (node ll la true lr).size = (node ll la false lr).size := rfl
              by_cases heq : (cfg.nav (node ll la true lr) a q).1 = .eq
              · -- this node: the successor takes its place
                have hi : i = (node ll la true lr).size := (ns.eq_iff htm).1 heq
                obtain ⟨p1, m, p2, p3⟩ := removeMin_good (key := key) hk f (node rl b true rr)
                  (by simp at hs ⊢; omega) (by simp) (by simp_all) (by simp_all) (.inl rfl)
                rw [del_ge_succ hlt e1 rfl e2 heq p2]
                generalize removeMin cfg f (node rl b true rr) = r' at p1 p3
                have q1 := finish_RC (cfg := cfg) cfg.strictFix (ll := ll) (lr := lr) (R := node rl b true rr) (r' := r')
                  (a := a) (a' := m) (la := la) p1 rfl (by simp_all) (by simp_all) hllb (by simp_all)
                  (by simp_all <;> omega)
                refine ⟨⟨q1.1, q1.2.1, by have := q1.2.2.1; simp_all <;> omega, by simp⟩, ?_⟩
                rw [klist_fixUp hk, ← hkl, klist_node (key := key) (node ll la true lr) m false r',
                  klist_node (key := key) (node ll la true lr) a false _, hi, ← hlen, eraseIdx_mid, p3]
              · have hgt : (node ll la true lr).size < i := by
                  have : i ≠ (node ll la true lr).size := fun h => heq ((ns.eq_iff htm).2 h)
                  rw [hsz]; omega
                rw [del_ge_rec hlt e1 rfl e2 heq]
                obtain ⟨p1, p3⟩ := ih (node rl b true rr) (cfg.nav (node ll la true lr) a q).2
                  (i - (node ll la true lr).size - 1) (by simp at hs ⊢; omega) (ns.right htm hgt)
                  (by simp_all) (.inl ⟨by simp_all, .inl rfl⟩)
                generalize del cfg f (node rl b true rr) (cfg.nav (node ll la true lr) a q).2 = r' at p1 p3
                have q1 := finish_RC (cfg := cfg) cfg.strictFix (ll := ll) (lr := lr) (R := node rl b true rr) (r' := r')
                  (a := a) (a' := a) (la := la) p1 rfl (by simp_all) (by simp_all) hllb (by simp_all)
                  (by simp_all <;> omega)
                refine ⟨⟨q1.1, q1.2.1, by have := q1.2.2.1; simp_all <;> omega, by simp⟩, ?_⟩
                rw [klist_fixUp hk, ← hkl, klist_node (key := key) (node ll la true lr) a false r', p3,
                  klist_node (key := key) (node ll la true lr) a false _,
                  eraseIdx_right _ _ _ (by rw [hlen]; exact hgt), hlen]
          · -- no move: the right child is red, or black with a red left child
            have hrpre : (node rl b rc rr).isRed = true ∨ (node rl b rc rr).left.isRed = true := by
              cases rc <;> cases h : rl.isRed <;> simp_all
            have e2 : (if (node rl b rc rr).isRed = false ∧ (node rl b rc rr).left.isRed = false
                then moveRedRight cfg (node l a c (node rl b rc rr))
                else node l a c (node rl b rc rr)) = node l a c (node rl b rc rr) := by
              simp only [isRed_node, left_node, hmv, if_false]
            -- common facts from either admissible shape
            have hfacts : LL l ∧ LL (node rl b rc rr) ∧ (c = true → l.isRed = false) ∧
                (rc = true → c = false) := by
              rcases hpre with h | ⟨l', a', rl', b', rr', e, h1, h2, h3, h4, h5, h6, h7⟩
              · have h' := h.1
                simp only [LL_node] at h'
                refine ⟨h'.1, by simpa using h'.2.1, h'.2.2.2, fun hrc => ?_⟩
                have := h'.2.2.1; simp at this; simp [this] at hrc
              · injection e with e1 e2 e3 e4; injection e4 with e5 e6 e7 e8
                subst e1 e3 e5 e7 e8
                exact ⟨h1, by simp_all, by simp, fun _ => rfl⟩
            obtain ⟨hll, hlR, hcl, hrcc⟩ := hfacts
            have hfin : ∀ (r' : T α) (a' : α), Post (node rl b rc rr) r' →
                Post (node l a c (node rl b rc rr)) (fixUp cfg cfg.strictFix (node l a' c r')) := by
              intro r' a' p1
              cases hrc : rc with
              | true =>
                have hc := hrcc hrc; subst hc; subst hrc
                have q1 := finish_RB (cfg := cfg) cfg.strictFix (l := l) (R := node rl b true rr) (r' := r') (a := a)
                  (a' := a') p1 rfl hll hlb hb
                exact ⟨q1.1, q1.2.1, q1.2.2.1, fun _ => q1.2.2.2 trivial⟩
              | false =>
                subst hrc
                obtain ⟨q1, -⟩ := finish_RA (cfg := cfg) cfg.strictFix (l := l) (R := node rl b false rr) (r' := r')
                  (a := a) (a' := a') (c := c) p1 rfl hll hcl hb
                exact ⟨q1.1, q1.2.1, q1.2.2.1, fun h => q1.2.2.2 (by simpa using h)⟩
            by_cases heq : (cfg.nav l a q).1 = .eq
            · have hi : i = l.size := (ns.eq_iff htg).1 heq
              obtain ⟨p1, m, p2, p3⟩ := removeMin_good (key := key) hk f (node rl b rc rr)
                (by simp at hs ⊢; omega) (by simp) hlR hb.2.1 hrpre
              rw [del_ge_succ hlt e1 rfl e2 heq p2]
              generalize removeMin cfg f (node rl b rc rr) = r' at p1 p3
              refine ⟨hfin r' m p1, ?_⟩
              rw [klist_fixUp hk, klist_node (key := key) l m c r', klist_node (key := key) l a c _, hi, ← hlen,
                eraseIdx_mid, p3]
            · have hgt : l.size < i := by
                have : i ≠ l.size := fun h => heq ((ns.eq_iff htg).2 h)
                omega
              rw [del_ge_rec hlt e1 rfl e2 heq]
              obtain ⟨p1, p3⟩ := ih (node rl b rc rr) (cfg.nav l a q).2 (i - l.size - 1) (by simp at hs ⊢; omega)
                (ns.right htg hgt) hb.2.1 (.inl ⟨hlR, hrpre⟩)
              generalize del cfg f (node rl b rc rr) (cfg.nav l a q).2 = r' at p1 p3
              refine ⟨hfin r' a p1, ?_⟩
              rw [klist_fixUp hk, klist_node (key := key) l a c r', p3, klist_node (key := key) l a c _,
                eraseIdx_right _ _ _ (by rw [hlen]; exact hgt), hlen]

end Yorkie.RB
