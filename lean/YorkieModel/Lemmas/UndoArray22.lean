/-
Lemmas for C14, part 31: the skip rule after an array element with content came back.  `rootedAvoid d S f t`:
from `t` the parent links lead, within `f` steps and only through live entries outside `S`, to an
entry without parent.  With `S` = the deleted element and what lies below it this says that the array
is attached to a root by a chain that does not pass through its own element (true in every tree), and
then nothing on that chain is touched by the deletion or by the restoring copy.  Redo after the undo
of `delete arr[i]` for elements with content.
-/
import YorkieModel.Lemmas.UndoArray20
namespace Yorkie.Undo
open Yorkie Yorkie.Crdt

def rootedAvoid (d : Doc) (S : List Ticket) : Nat → Ticket → Bool
  | 0, _ => false
  | f + 1, t => !(S.contains t) &&
    match d t with
    | none => false
    | some e => !e.removed &&
      match e.parent with
      | none => true
      | some q => rootedAvoid d S f q

/-- a rooted chain outside `S` is not orphaned in any heap that agrees with `d` on live entries outside `S` -/
theorem orphaned_of_rooted {d d2 : Doc} {S : List Ticket}
    (hag : ∀ s e, s ∉ S → d s = some e → e.removed = false →
      ∃ e2, d2 s = some e2 ∧ e2.removed = false ∧ e2.parent = e.parent) :
    ∀ (f : Nat) (t : Ticket), rootedAvoid d S f t = true → ∀ g, orphaned d2 noTw g t = false
  | 0, _, h, _ => by simp [rootedAvoid] at h
  | f + 1, t, h, g => by
    cases g with
    | zero => rfl
    | succ g =>
      rw [rootedAvoid] at h
      simp only [Bool.and_eq_true, Bool.not_eq_true', List.contains_eq_mem, decide_eq_false_iff_not] at h
      obtain ⟨hS, h⟩ := h
      cases hd : d t with
      | none => rw [hd] at h; cases h
      | some e =>
        rw [hd] at h
        simp only [Bool.and_eq_true, Bool.not_eq_true'] at h
        obtain ⟨hr, hpar⟩ := h
        obtain ⟨e2, he2, hr2, hp2⟩ := hag t e hS hd hr
        rw [orphaned]
        simp only [he2, hr2, Bool.false_or, hp2]
        cases hp : e.parent with
        | none => rfl
        | some q =>
          rw [hp] at hpar
          simp only []
          exact orphaned_of_rooted hag f q hpar g

section
variable {H : Home} {d : Doc} {L : Int} {p x : Ticket} {pe xe : Elem} {nodes : List PosNode}
  {moved : Ticket → Option Ticket}

/-- the restored heap agrees with the heap before the deletion on the live entries outside the subtree -/
theorem restoreC_agree (bd : Bounded d L) (a : ArrAtC d L p x pe xe nodes moved) (nodes2 : List PosNode)
    {t' : Ticket} (ht' : L < t'.lamport) :
    ∀ s e, s ∉ x :: (copyBody d copyFuel x xe.body).2.map (·.1) → d s = some e → e.removed = false →
      ∃ e2, restoreC d p x pe xe nodes2 moved t' s = some e2 ∧ e2.removed = false ∧ e2.parent = e.parent := by
  intro s e hs hd hr
  simp only [List.mem_cons, not_or] at hs
  rw [restoreC_apply a]
  by_cases h1 : s = p
  · subst h1
    rw [a.hd] at hd; injection hd with hd; subst hd
    exact ⟨{ pe with body := .arr nodes2 moved }, by simp, hr, rfl⟩
  · have h2 : s ≠ t' := fun hx => by have := bd.ent _ _ (hx ▸ hd); omega
    simp only [h1, h2, if_false]
    cases hl : lookupSub (copyR d x xe t').2 s with
    | some e' =>
      obtain ⟨_, _, _, hmem⟩ := (copyR_spec a t').2 s e' hl
      exact absurd hmem hs.2
    | none =>
      have : ¬ x = s := fun hx => hs.1 hx.symm
      exact ⟨e, by simp [kill, this, hd], hr, rfl⟩

theorem orphaned_restoreC (bd : Bounded d L) (a : ArrAtC d L p x pe xe nodes moved) (nodes2 : List PosNode)
    {t' : Ticket} (ht' : L < t'.lamport)
    (hrt : rootedAvoid d (x :: (copyBody d copyFuel x xe.body).2.map (·.1)) 63 p = true) :
    orphaned (restoreC d p x pe xe nodes2 moved t') noTw orphanFuel t' = false := by
  have htp : t' ≠ p := fun hx => by have := bd.ent _ _ (hx ▸ a.hd); omega
  have h63 := orphaned_of_rooted (restoreC_agree bd a nodes2 ht') 63 p hrt 63
  have hd2t : restoreC d p x pe xe nodes2 moved t' t' = some ⟨some p, false, xe.body⟩ := by
    rw [restoreC_apply a]; simp [htp]
  rw [show orphanFuel = 63 + 1 from rfl, orphaned_succ_some hd2t rfl, h63]; rfl

end

/-- redo after the undo of the deletion of an array element of any kind whose subtree is a tree of live
    elements -/
theorem redo_undo_do_array_delete_container_lemma {h : Hist} {p x : Ticket} {pe xe : Elem}
    {nodes : List PosNode} {moved : Ticket → Option Ticket} (fr : Fresh h)
    (a : ArrAtC h.doc h.lamport p x pe xe nodes moved) (hroot : x ≠ rootId)
    (hrt : rootedAvoid h.doc (x :: (copyBody h.doc copyFuel x xe.body).2.map (·.1)) 63 p = true) (fuel : Nat) :
    marshal (redo (undo (doChange h [.remove p x h.next]))).doc fuel rootId =
      marshal (doChange h [.remove p x h.next]).doc fuel rootId := by
  obtain ⟨H, w⟩ := fr.wf
  have bd := fr.bd
  obtain ⟨pv1, hfp1, hdo⟩ := doChange_array_delete fr a
  rw [hdo]
  generalize ht' : (⟨h.lamport + 1 + 1, 1, h.actor⟩ : Ticket) = t'
  have ht'l : t'.lamport = h.lamport + 2 := by rw [← ht']; simp only []; omega
  obtain ⟨pv, nodes2, hfp, he2, hh2, hvis⟩ := reinsertC_core w bd a noTw (t' := t') (by omega)
  rw [hfp1] at hfp
  have hpv : pv1 = pv := Option.some.inj hfp
  subst hpv
  rw [undo_add_entry (cv := captured h.doc x xe) (push_eq _ _) (by simp only [Hist.next]; rw [ht']; exact he2)]
  simp only [Hist.next, ht']
  -- the redo removes `t'` again
  have horph2 := orphaned_restoreC bd a nodes2 (t' := t') (by omega) hrt
  generalize hd2 : restoreC h.doc p x pe xe nodes2 moved t' = d2 at he2 hvis horph2
  have htp : t' ≠ p := fun hx => by have := bd.ent _ _ (hx ▸ a.hd); omega
  have hd2p : d2 p = some { pe with body := .arr nodes2 moved } := by rw [← hd2, restoreC_apply a]; simp
  have hd2t : d2 t' = some ⟨some p, false, xe.body⟩ := by rw [← hd2, restoreC_apply a]; simp [htp]
  generalize ht'' : (⟨h.lamport + 1 + 1 + 1, 1, h.actor⟩ : Ticket) = t''
  have hafter2 : t''.after t' = true := after_of_lamport (by rw [← ht'']; simp only []; omega)
  obtain ⟨pv3, cv3, _, _, he3⟩ := uexecute_remove_arr (tw := noTw) (src := .undoRedo) (ts := t'')
    hd2p rfl hd2t rfl hh2 rfl (fun _ => horph2) hafter2
  rw [redo_doc_of_push (r := .remove p t' t') (s := reconcileStack (captured h.doc x xe).id t' []) rfl (by rfl)
    (by simp only [Hist.next, UOp.withTs]; rw [ht'']; exact he3)]
  -- printing up to the renaming x ↦ t'
  have hnot : ∀ c, (live h.doc c = true ∨ c = rootId) → c ≠ t' := by
    intro c hc hx
    subst hx
    rcases hc with hc | hc
    · obtain ⟨e, he, _⟩ := live_elem hc; have := bd.ent _ _ he; omega
    · obtain ⟨e, he, _⟩ := skel_some.1 fr.root; have := bd.ent _ _ (hc ▸ he); omega
  have key := marshal_rename (d1 := kill h.doc (some x)) (d2 := kill d2 (some t')) (ren1 x t') rootId ?_
    fuel rootId (Or.inr rfl)
  · rw [key]; simp [ren1, hroot.symm]
  · intro c hc
    have hc' : live h.doc c = true ∨ c = rootId := by
      rcases hc with hc | hc
      · rw [live_kill] at hc
        by_cases hcu : c = x
        · simp [hcu] at hc
        · simp only [hcu, if_false] at hc; exact Or.inl hc
      · exact Or.inr hc
    have hlc : live h.doc c = true := by
      rcases hc' with hc' | hc'
      · exact hc'
      · exact hc' ▸ live_of_skel fr.root
    rw [vis_kill, vis_kill, hvis c hlc, Vis.drop_map]
    intro y hy
    have hyl := vis_children_live hy
    have hyt : y ≠ t' := hnot y (Or.inl hyl)
    unfold ren1
    by_cases hyu : y = x
    · simp [hyu]
    · simp [hyu, hyt]

/-- non-vacuity on `hR` -/
theorem rooted_hR : rootedAvoid Restored.hR.doc
    (Restored.tX' :: (copyBody Restored.hR.doc copyFuel Restored.tX' Restored.eX'.body).2.map (·.1)) 63 Restored.tA =
    true := by decide

end Yorkie.Undo
