/- Operations keep the GC-on / GC-off simulation, under the per-operation side condition `OpSafe`. -/
import YorkieModel.Lemmas.FDocSim
namespace Yorkie.FDoc
open Yorkie
open Yorkie.Crdt (Op Val Err rootId headId)

/-! ### frame: elements an operation does not touch -/

/-- `BodySim` survives a step that adds elements satisfying `New` (none of them a child of this body), keeps
    every old element present and only tombstones more -/
theorem bodySim_frame {g g' n n' : Root} (New : Ticket → Prop)
    (hp1 : ∀ x, present g x → present g' x) (hp2 : ∀ x, present g' x → present g x ∨ New x)
    (hl : ∀ x, ¬ New x → liveChild n x = false → liveChild n' x = false)
    {bg bn : Body} (hnew : ∀ x ∈ bodyChildren bn, ¬ New x) (hwfn : BodyWF bn) (h : BodySim g n bg bn) :
    BodySim g' n' bg bn := by
  cases bg with
  | obj gn gb =>
    cases bn with
    | obj nn nb =>
      simp only [BodySim] at h ⊢
      have hnn : ∀ c k, alGet nn c = some k → ¬ New c :=
        fun c k hc => hnew c (by simpa [bodyChildren] using alGet_some_mem_keys hc)
      have hnb : ∀ k c, alGet nb k = some c → ¬ New c :=
        fun k c hc => hnn c k (hwfn.2 (k, c) (alGet_some_mem hc))
      refine ⟨?_, h.keysG, h.keysN, ?_, ?_, ?_⟩
      · intro c k
        constructor
        · intro hc; obtain ⟨a1, a2⟩ := (h.nodes c k).mp hc; exact ⟨a1, hp1 c a2⟩
        · intro hc
          rcases hp2 c hc.2 with e | e
          · exact (h.nodes c k).mpr ⟨hc.1, e⟩
          · exact absurd e (hnn c k hc.1)
      · intro k c hc; obtain ⟨a1, a2⟩ := h.occ1 k c hc; exact ⟨a1, hp1 c a2⟩
      · intro k c hc hp
        rcases hp2 c hp with e | e
        · exact h.occ2 k c hc e
        · exact absurd e (hnb k c hc)
      · intro k c hc hp
        exact hl c (hnb k c hc) (h.gone k c hc (fun hp' => hp (hp1 c hp')))
    | arr a b => exact absurd h id
    | prim a => exact absurd h id
    | counter a b => exact absurd h id
    | «opaque» a => exact absurd h id
  | arr gn gm =>
    cases bn with
    | arr nn nm =>
      simp only [BodySim] at h ⊢
      obtain ⟨q, hq, hdrop, hkeep⟩ := h.filt
      refine ⟨⟨q, hq, ?_, fun x hx hqx c hc => hp1 c (hkeep x hx hqx c hc)⟩⟩
      intro x hx hqx c hc
      exact hl c (hnew c (by simpa [bodyChildren] using elems_mem_of_node hx hc)) (hdrop x hx hqx c hc)
    | obj a b => exact absurd h id
    | prim a => exact absurd h id
    | counter a b => exact absurd h id
    | «opaque» a => exact absurd h id
  | prim a => cases bn <;> first | exact h | exact absurd h id
  | counter l v => cases bn <;> first | exact h | exact absurd h id
  | «opaque» a => cases bn <;> first | exact h | exact absurd h id

/-! ### heap lookups after field updates -/

theorem get_removeElem (r : Root) (t a x : Ticket) :
    (removeElem r t a).1.get x =
      if x = t then (r.get t).map (fun e => if canRemove t e.removedAt a then { e with removedAt := some a } else e)
      else r.get x := by
  unfold removeElem
  cases hg : r.get t with
  | none =>
    by_cases hx : x = t
    · subst hx; simp [hg]
    · simp [hx]
  | some e =>
    simp only
    split
    · rename_i hc
      rw [get_put]
      by_cases hx : x = t
      · simp [hx, hc]
      · simp [hx]
    · rename_i hc
      by_cases hx : x = t
      · subst hx; simp [hg, hc]
      · simp [hx]

theorem get_setMovedAt (r : Root) (t m x : Ticket) :
    (setMovedAt r t m).get x = if x = t then (r.get t).map (fun e => { e with movedAt := some m }) else r.get x := by
  unfold setMovedAt
  cases hg : r.get t with
  | none =>
    by_cases hx : x = t
    · subst hx; simp [hg]
    · simp [hx]
  | some e =>
    simp only
    rw [get_put]
    by_cases hx : x = t
    · simp [hx]
    · simp [hx]

theorem present_removeElem (r : Root) (t a x : Ticket) : present (removeElem r t a).1 x ↔ present r x := by
  unfold present
  rw [get_removeElem]
  by_cases hx : x = t
  · subst hx
    cases r.get x <;> simp
  · simp [hx]

theorem present_setMovedAt (r : Root) (t m x : Ticket) : present (setMovedAt r t m) x ↔ present r x := by
  unfold present
  rw [get_setMovedAt]
  by_cases hx : x = t
  · subst hx
    cases r.get x <;> simp
  · simp [hx]

theorem present_put_present (r : Root) (t : Ticket) (e : Elem) (h : present r t) (x : Ticket) :
    present (r.put t e) x ↔ present r x := by
  unfold present at *
  rw [get_put]
  by_cases hx : x = t
  · subst hx; simp [h]
  · simp [hx]

/-- tombstoning never revives anything -/
theorem liveChild_removeElem_mono (r : Root) (t a x : Ticket) (h : liveChild r x = false) :
    liveChild (removeElem r t a).1 x = false := by
  unfold liveChild at *
  rw [get_removeElem]
  by_cases hx : x = t
  · subst hx
    cases hg : r.get x with
    | none => simp
    | some e =>
      rw [hg] at h
      simp only [if_true, Option.map_some]
      split
      · rfl
      · exact h
  · simp only [hx, if_false]; exact h

/-- the simulation after the same tombstone was written on both sides -/
theorem sim_removeElem {g n : Root} (s : Sim g n) (wn : ∀ x e, n.get x = some e → BodyWF e.body) (t a : Ticket) :
    Sim (removeElem g t a).1 (removeElem n t a).1 := by
  refine ⟨fun x eg' hx => ?_⟩
  have frame : ∀ {bg bn : Body}, BodyWF bn → BodySim g n bg bn →
      BodySim (removeElem g t a).1 (removeElem n t a).1 bg bn := by
    intro bg bn hw hb
    exact bodySim_frame (fun _ => False) (fun y hy => (present_removeElem g t a y).mpr hy)
      (fun y hy => Or.inl ((present_removeElem g t a y).mp hy))
      (fun y _ hy => liveChild_removeElem_mono n t a y hy) (fun _ _ => id) hw hb
  rw [get_removeElem] at hx
  by_cases hxt : x = t
  · subst hxt
    simp only [if_true] at hx
    cases hg : g.get x with
    | none => rw [hg] at hx; cases hx
    | some eg =>
      rw [hg] at hx
      simp only [Option.map_some, Option.some.injEq] at hx
      obtain ⟨en, a1, a2, a3, a4, a5⟩ := s.sub x eg hg
      have hwb : BodyWF en.body := wn x en a1
      refine ⟨if canRemove x en.removedAt a then { en with removedAt := some a } else en, ?_, ?_⟩
      · rw [get_removeElem]; simp [a1]
      · subst hx
        rw [a4]
        split
        · exact ⟨a2, a3, rfl, frame hwb a5⟩
        · exact ⟨a2, a3, a4, frame hwb a5⟩
  · simp only [hxt, if_false] at hx
    obtain ⟨en, a1, a2, a3, a4, a5⟩ := s.sub x eg' hx
    refine ⟨en, ?_, a2, a3, a4, frame (wn x en a1) a5⟩
    rw [get_removeElem]; simp [hxt, a1]

/-- `BodySim` reads `g` through presence and `n` through liveness only -/
theorem bodySim_congr {g g' n n' : Root} (hp : ∀ x, present g' x ↔ present g x) (hl : ∀ x, liveChild n' x = liveChild n x)
    {bg bn : Body} (h : BodySim g n bg bn) : BodySim g' n' bg bn := by
  cases bg with
  | obj gn gb =>
    cases bn with
    | obj nn nb =>
      simp only [BodySim] at h ⊢
      exact ⟨fun c k => by rw [hp]; exact h.nodes c k, h.keysG, h.keysN,
        fun k c hc => by rw [hp]; exact h.occ1 k c hc,
        fun k c hc hpc => h.occ2 k c hc ((hp c).mp hpc),
        fun k c hc hpc => by rw [hl]; exact h.gone k c hc (fun hp' => hpc ((hp c).mpr hp'))⟩
    | arr a b => exact absurd h id
    | prim a => exact absurd h id
    | counter a b => exact absurd h id
    | «opaque» a => exact absurd h id
  | arr gn gm =>
    cases bn with
    | arr nn nm =>
      simp only [BodySim] at h ⊢
      obtain ⟨q, hq, hdrop, hkeep⟩ := h.filt
      exact ⟨⟨q, hq, fun x hx hqx c hc => by rw [hl]; exact hdrop x hx hqx c hc,
        fun x hx hqx c hc => (hp c).mpr (hkeep x hx hqx c hc)⟩⟩
    | obj a b => exact absurd h id
    | prim a => exact absurd h id
    | counter a b => exact absurd h id
    | «opaque» a => exact absurd h id
  | prim a => cases bn <;> first | exact h | exact absurd h id
  | counter l v => cases bn <;> first | exact h | exact absurd h id
  | «opaque» a => cases bn <;> first | exact h | exact absurd h id

/-- registries are not part of the simulation -/
theorem sim_same_heaps {g g' n n' : Root} (hg : ∀ t, g'.get t = g.get t) (hn : ∀ t, n'.get t = n.get t) (s : Sim g n) :
    Sim g' n' := by
  refine ⟨fun t eg h => ?_⟩
  rw [hg] at h
  obtain ⟨en, a1, a2, a3, a4, a5⟩ := s.sub t eg h
  refine ⟨en, by rw [hn]; exact a1, a2, a3, a4, ?_⟩
  exact bodySim_congr (fun x => by unfold present; rw [hg]) (fun x => by unfold liveChild; rw [hn]) a5

theorem wf_bodies {r : Root} (w : WF r) : ∀ x e, r.get x = some e → BodyWF e.body :=
  fun x e h => w.body x _ _ (skel_of_get h)

theorem liveChild_setMovedAt' (r : Root) (v m x : Ticket) : liveChild (setMovedAt r v m) x = liveChild r x :=
  liveChild_setMovedAt r v m x

/-- the same `movedAt` written on both sides -/
theorem sim_setMovedAt {g n : Root} (s : Sim g n) (t m : Ticket) : Sim (setMovedAt g t m) (setMovedAt n t m) := by
  refine ⟨fun x eg' hx => ?_⟩
  have frame : ∀ {bg bn : Body}, BodySim g n bg bn → BodySim (setMovedAt g t m) (setMovedAt n t m) bg bn :=
    fun hb => bodySim_congr (present_setMovedAt g t m) (liveChild_setMovedAt n t m) hb
  rw [get_setMovedAt] at hx
  by_cases hxt : x = t
  · subst hxt
    simp only [if_true] at hx
    cases hg : g.get x with
    | none => rw [hg] at hx; cases hx
    | some eg =>
      rw [hg] at hx
      simp only [Option.map_some, Option.some.injEq] at hx
      obtain ⟨en, a1, a2, a3, a4, a5⟩ := s.sub x eg hg
      refine ⟨{ en with movedAt := some m }, ?_, ?_⟩
      · rw [get_setMovedAt]; simp [a1]
      · subst hx
        exact ⟨a2, rfl, a4, frame a5⟩
  · simp only [hxt, if_false] at hx
    obtain ⟨en, a1, a2, a3, a4, a5⟩ := s.sub x eg' hx
    refine ⟨en, ?_, a2, a3, a4, frame a5⟩
    rw [get_setMovedAt]; simp [hxt, a1]

/-- the body of one container replaced on both sides -/
theorem sim_put_both {g n : Root} (s : Sim g n) {p : Ticket} {pg pn : Elem} (hg : g.get p = some pg) (hn : n.get p = some pn)
    (bg bn : Body)
    (hb : BodySim (g.put p { pg with body := bg }) (n.put p { pn with body := bn }) bg bn) :
    Sim (g.put p { pg with body := bg }) (n.put p { pn with body := bn }) := by
  obtain ⟨en0, b1, b2, b3, b4, _⟩ := s.sub p pg hg
  rw [hn] at b1
  injection b1 with b1
  subst b1
  have hpres : ∀ x, present (g.put p { pg with body := bg }) x ↔ present g x :=
    present_put_present g p _ (present_of_get hg)
  have hlive : ∀ x, liveChild (n.put p { pn with body := bn }) x = liveChild n x :=
    fun x => liveChild_put_fields n p pn { pn with body := bn } hn rfl x
  refine ⟨fun x eg' hx => ?_⟩
  rw [get_put] at hx
  by_cases hxp : x = p
  · subst hxp
    simp only [if_true, Option.some.injEq] at hx
    subst hx
    exact ⟨{ pn with body := bn }, get_put_same _ _ _, b2, b3, b4, hb⟩
  · simp only [hxp, if_false] at hx
    obtain ⟨en, a1, a2, a3, a4, a5⟩ := s.sub x eg' hx
    refine ⟨en, ?_, a2, a3, a4, bodySim_congr hpres hlive a5⟩
    rw [get_put]; simp [hxp, a1]

theorem sim_parent_body {g n : Root} (s : Sim g n) {p : Ticket} {pg : Elem} (hg : g.get p = some pg) :
    ∃ pn, n.get p = some pn ∧ BodySim g n pg.body pn.body := by
  obtain ⟨en, a1, _, _, _, a5⟩ := s.sub p pg hg
  exact ⟨en, a1, a5⟩

/-- a fresh element added on both sides -/
theorem sim_put_new {g n : Root} (s : Sim g n) (wn : WF n) {ts : Ticket} (hf : n.get ts = none) (parent : Ticket) (v : Val) :
    Sim (g.put ts (newElem parent v)) (n.put ts (newElem parent v)) := by
  have hfg : g.get ts = none := by
    cases hg : g.get ts with
    | none => rfl
    | some eg => obtain ⟨en, a1, _⟩ := s.sub ts eg hg; rw [hf] at a1; cases a1
  have hp1 : ∀ x, present g x → present (g.put ts (newElem parent v)) x := by
    intro x hx
    unfold present at *
    rw [get_put]
    by_cases h : x = ts
    · simp [h]
    · simp [h, hx]
  have hp2 : ∀ x, present (g.put ts (newElem parent v)) x → present g x ∨ x = ts := by
    intro x hx
    by_cases h : x = ts
    · exact Or.inr h
    · unfold present at *
      rw [get_put] at hx
      simp only [h, if_false] at hx
      exact Or.inl hx
  have hl : ∀ x, ¬ x = ts → liveChild n x = false → liveChild (n.put ts (newElem parent v)) x = false := by
    intro x hx h
    unfold liveChild at *
    rw [get_put]
    simp only [hx, if_false]
    exact h
  refine ⟨fun x eg' hx => ?_⟩
  rw [get_put] at hx
  by_cases hxt : x = ts
  · subst hxt
    simp only [if_true, Option.some.injEq] at hx
    subst hx
    refine ⟨newElem parent v, get_put_same _ _ _, rfl, rfl, rfl, ?_⟩
    cases v with
    | prim s => rfl
    | newObj =>
      simp only [newElem, Val.body, emptyObj, BodySim]
      exact ⟨fun c k => by simp [alGet], by simp, by simp, fun k c h => by simp [alGet] at h,
        fun k c h => by simp [alGet] at h, fun k c h => by simp [alGet] at h⟩
    | newArr =>
      simp only [newElem, Val.body, BodySim]
      refine ⟨⟨fun _ => true, rfl, ?_, ?_⟩⟩
      · intro x hx; cases hx
      · intro x hx; cases hx
    | newCounter l x => exact ⟨rfl, rfl⟩
    | newOpaque s => rfl
  · simp only [hxt, if_false] at hx
    obtain ⟨en, a1, a2, a3, a4, a5⟩ := s.sub x eg' hx
    refine ⟨en, ?_, a2, a3, a4, ?_⟩
    · rw [get_put]; simp [hxt, a1]
    · apply bodySim_frame (fun y => y = ts) hp1 hp2 hl _ (wf_bodies wn x en a1) a5
      intro y hy e
      subst e
      exact fresh_not_child wn hf (skel_of_get a1) hy

/-! ### operations that need no side condition -/

theorem applyRemove_heap {r r' : Root} {p t a : Ticket} (h : applyRemove r p t a = .ok r') :
    ∀ x, r'.get x = (removeElem r t a).1.get x := by
  unfold applyRemove at h
  cases hgp : r.get p with
  | none => simp [hgp] at h
  | some pe =>
    simp only [hgp] at h
    cases hb : pe.body
    case obj nodes byKey =>
      simp only [hb] at h
      split at h
      · cases h
      · injection h with h
        subst h
        intro x
        split <;> rfl
    case arr nodes moved =>
      simp only [hb] at h
      split at h
      · cases h
      · injection h with h
        subst h
        intro x; rfl
    all_goals simp [hb] at h

theorem sim_applyRemove {g n g' n' : Root} (s : Sim g n) (wn : WF n) {p t a : Ticket}
    (hg : applyRemove g p t a = .ok g') (hn : applyRemove n p t a = .ok n') : Sim g' n' :=
  sim_same_heaps (applyRemove_heap hg) (applyRemove_heap hn) (sim_removeElem s (wf_bodies wn) t a)

theorem sim_applyIncrease {g n g' n' : Root} (s : Sim g n) {p : Ticket} {d : Int}
    (hg : applyIncrease g p d = .ok g') (hn : applyIncrease n p d = .ok n') : Sim g' n' := by
  unfold applyIncrease at hg hn
  cases hgp : g.get p with
  | none => simp [hgp] at hg
  | some pg =>
    obtain ⟨pn, hnp, hb⟩ := sim_parent_body s hgp
    simp only [hgp] at hg
    simp only [hnp] at hn
    cases hbg : pg.body
    case counter l v =>
      cases hbn : pn.body
      case counter l' v' =>
        rw [hbg, hbn] at hb
        simp only [BodySim] at hb
        simp only [hbg] at hg
        simp only [hbn] at hn
        injection hg with hg
        injection hn with hn
        subst hg; subst hn
        apply sim_put_both s hgp hnp
        rw [hb.1, hb.2]
        exact ⟨rfl, rfl⟩
      all_goals (rw [hbg, hbn] at hb; exact absurd hb id)
    all_goals simp [hbg] at hg

/-! ### array operations on an array nothing was purged from -/

/-- the container has literally the same body on both sides (for an array: no slot purged, same `posMovedAt`) -/
def Untouched (g n : Root) (p : Ticket) : Prop :=
  match g.get p, n.get p with
  | some eg, some en => eg.body = en.body
  | _, _ => True

instance (g n : Root) (p : Ticket) : Decidable (Untouched g n p) := by
  unfold Untouched
  cases g.get p <;> cases n.get p <;> infer_instance

theorem untouched_body {g n : Root} {p : Ticket} {pg pn : Elem} (h : Untouched g n p) (hg : g.get p = some pg)
    (hn : n.get p = some pn) : pn.body = pg.body := by
  unfold Untouched at h
  rw [hg, hn] at h
  exact h.symm

/-- a full array body simulates itself when all its elements are present -/
theorem arrSim_full {g n : Root} {ns : List PosNode} (h : ∀ x ∈ ns, ∀ c, x.elem = some c → present g c) : ArrSim g n ns ns := by
  refine ⟨⟨fun _ => true, (List.filter_eq_self.mpr (fun _ _ => rfl)).symm, ?_, ?_⟩⟩
  · intro _ _ hq; cases hq
  · intro x hx _ c hc; exact h x hx c hc

theorem present_put_mono (r : Root) (t : Ticket) (e : Elem) {x : Ticket} (h : present r x) : present (r.put t e) x := by
  unfold present at *
  rw [get_put]
  by_cases hx : x = t
  · simp [hx]
  · simp [hx, h]

theorem sim_applyAdd {g n g' n' : Root} (s : Sim g n) (wg : WF g) (wn : WF n) {p prev : Ticket} {v : Val} {ts : Ticket}
    (hf : n.get ts = none) (hu : Untouched g n p)
    (hg : applyAdd g p prev v ts = .ok g') (hn : applyAdd n p prev v ts = .ok n') : Sim g' n' := by
  unfold applyAdd at hg hn
  cases hgp : g.get p with
  | none => simp [hgp] at hg
  | some pg =>
    obtain ⟨pn, hnp, _⟩ := sim_parent_body s hgp
    have hbody := untouched_body hu hgp hnp
    simp only [hgp] at hg
    simp only [hnp, hbody] at hn
    cases hb : pg.body
    case arr nodes moved =>
      simp only [hb] at hg hn
      cases hi : insertAfter moved prev ts ⟨ts, some ts, none⟩ nodes with
      | none => simp [hi] at hg
      | some ns =>
        simp only [hi] at hg hn
        injection hg with hg
        injection hn with hn
        subst hg; subst hn
        have hne : p ≠ ts := by intro e; subst e; rw [hf] at hnp; cases hnp
        have s0 := sim_put_new s wn hf p v
        have hg0 : (g.put ts (newElem p v)).get p = some pg := by rw [get_put_other _ _ _ _ hne]; exact hgp
        have hn0 : (n.put ts (newElem p v)).get p = some pn := by rw [get_put_other _ _ _ _ hne]; exact hnp
        apply sim_put_both s0 hg0 hn0
        simp only [BodySim]
        apply arrSim_full
        intro x hx c hc
        apply present_put_mono
        rcases mem_insertAfter hi hx with e | e
        · subst e
          simp at hc
          subst hc
          exact present_of_get (get_put_same _ _ _)
        · apply present_put_mono
          apply wf_child_present wg hgp
          rw [hb]; simpa [bodyChildren] using elems_mem_of_node e hc
    all_goals simp [hb] at hg

theorem sim_applyArraySet {g n g' n' : Root} (s : Sim g n) (wg : WF g) (wn : WF n) {p target : Ticket} {v : Val}
    {ts : Ticket} (hf : n.get ts = none) (hu : Untouched g n p)
    (hg : applyArraySet g p target v ts = .ok g') (hn : applyArraySet n p target v ts = .ok n') : Sim g' n' := by
  unfold applyArraySet at hg hn
  cases hgp : g.get p with
  | none => simp [hgp] at hg
  | some pg =>
    obtain ⟨pn, hnp, _⟩ := sim_parent_body s hgp
    have hbody := untouched_body hu hgp hnp
    simp only [hgp] at hg
    simp only [hnp, hbody] at hn
    cases hb : pg.body
    case arr nodes moved =>
      simp only [hb] at hg hn
      cases hi : insertAfter moved target ts ⟨ts, some ts, none⟩ nodes with
      | none => simp [hi] at hg
      | some ns =>
        simp only [hi] at hg hn
        split at hg
        · cases hg
        · rename_i hh
          simp only [hh, if_false] at hn
          injection hg with hg
          injection hn with hn
          subst hg; subst hn
          have hne : p ≠ ts := by intro e; subst e; rw [hf] at hnp; cases hnp
          have s0 := sim_put_new s wn hf p v
          have hg0 : (g.put ts (newElem p v)).get p = some pg := by rw [get_put_other _ _ _ _ hne]; exact hgp
          have hn0 : (n.put ts (newElem p v)).get p = some pn := by rw [get_put_other _ _ _ _ hne]; exact hnp
          have s1 : Sim ((g.put ts (newElem p v)).put p { pg with body := .arr ns moved })
              ((n.put ts (newElem p v)).put p { pn with body := .arr ns moved }) := by
            apply sim_put_both s0 hg0 hn0
            simp only [BodySim]
            apply arrSim_full
            intro x hx c hc
            apply present_put_mono
            rcases mem_insertAfter hi hx with e | e
            · subst e
              simp at hc
              subst hc
              exact present_of_get (get_put_same _ _ _)
            · apply present_put_mono
              apply wf_child_present wg hgp
              rw [hb]; simpa [bodyChildren] using elems_mem_of_node e hc
          apply sim_removeElem s1
          intro x e hx
          rw [get_put] at hx
          by_cases hxp : x = p
          · simp only [hxp, if_true, Option.some.injEq] at hx
            rw [← hx]; trivial
          · simp only [hxp, if_false] at hx
            rw [get_put] at hx
            by_cases hxt : x = ts
            · simp only [hxt, if_true, Option.some.injEq] at hx
              rw [← hx]; exact val_body_wf v
            · simp only [hxt, if_false] at hx
              exact wf_bodies wn x e hx
    all_goals simp [hb] at hg

/-- the list part of `RGATreeList.MoveAfter`, a function of the array body only -/
inductive MoveRes
  | same
  | loser (ns : List PosNode)
  | winner (ns : List PosNode) (oldPos : Ticket)

def moveBody (nodes : List PosNode) (moved : List (Ticket × Ticket)) (prev target ts : Ticket) : Except Err MoveRes :=
  if !(prev = headId || hasPos nodes prev) then .error .childNotFound
  else match posOf nodes target with
  | none => .error .childNotFound
  | some oldPos =>
    if movedLoses moved target ts then
      if hasPos nodes ts then .ok .same
      else match insertPosAfter moved prev ts ⟨ts, none, some ts⟩ nodes with
        | some ns => .ok (.loser ns)
        | none => .error .childNotFound
    else
      match insertPosAfter moved prev ts ⟨ts, none, none⟩ nodes with
      | some ns => .ok (.winner ns oldPos)
      | none => .error .childNotFound

theorem applyMove_eq {r : Root} {p : Ticket} {pe : Elem} {nodes : List PosNode} {moved : List (Ticket × Ticket)}
    (hg : r.get p = some pe) (hb : pe.body = .arr nodes moved) (prev target ts : Ticket) :
    applyMove r p prev target ts =
      match moveBody nodes moved prev target ts with
      | .error e => .error e
      | .ok .same => .ok r
      | .ok (.loser ns) => .ok (regGcNode (r.put p { pe with body := .arr ns moved }) ⟨p, ts, ts⟩)
      | .ok (.winner ns oldPos) =>
        .ok (regGcNode (setMovedAt (r.put p { pe with body := .arr (ns.map (relink target ts)) (alSet moved target ts) })
          target ts) ⟨p, oldPos, ts⟩) := by
  unfold applyMove moveBody
  simp only [hg, hb]
  split
  · rfl
  · cases posOf nodes target with
    | none => rfl
    | some oldPos =>
      simp only
      split
      · split
        · rfl
        · cases insertPosAfter moved prev ts ⟨ts, none, some ts⟩ nodes <;> rfl
      · cases insertPosAfter moved prev ts ⟨ts, none, none⟩ nodes <;> rfl

theorem moveBody_children {nodes : List PosNode} {moved : List (Ticket × Ticket)} {prev target ts : Ticket} {res : MoveRes}
    (h : moveBody nodes moved prev target ts = .ok res) :
    match res with
    | .same => True
    | .loser ns => ∀ x ∈ ns, ∀ c, x.elem = some c → c ∈ nodes.filterMap (·.elem)
    | .winner ns _ => ∀ x ∈ ns.map (relink target ts), ∀ c, x.elem = some c → c ∈ nodes.filterMap (·.elem) := by
  unfold moveBody at h
  split at h
  · cases h
  · cases hpo : posOf nodes target with
    | none => simp [hpo] at h
    | some oldPos =>
      simp only [hpo] at h
      split at h
      · split at h
        · injection h with h; subst h; trivial
        · cases hi : insertPosAfter moved prev ts ⟨ts, none, some ts⟩ nodes with
          | none => simp [hi] at h
          | some ns =>
            simp only [hi] at h
            injection h with h
            subst h
            intro x hx c hc
            rcases mem_insertPosAfter hi hx with e | e
            · subst e; simp at hc
            · exact elems_mem_of_node e hc
      · cases hi : insertPosAfter moved prev ts ⟨ts, none, none⟩ nodes with
        | none => simp [hi] at h
        | some ns =>
          simp only [hi] at h
          injection h with h
          subst h
          intro x' hx' c hc
          obtain ⟨x, hx, rfl⟩ := List.mem_map.mp hx'
          rcases relink_elem hc with e | e
          · subst e; exact posOf_some hpo
          · rcases mem_insertPosAfter hi hx with e2 | e2
            · subst e2; simp at e
            · exact elems_mem_of_node e2 e

theorem sim_applyMove {g n g' n' : Root} (s : Sim g n) (wg : WF g) {p prev target ts : Ticket}
    (hu : Untouched g n p)
    (hg : applyMove g p prev target ts = .ok g') (hn : applyMove n p prev target ts = .ok n') : Sim g' n' := by
  cases hgp : g.get p with
  | none => unfold applyMove at hg; simp [hgp] at hg
  | some pg =>
    obtain ⟨pn, hnp, _⟩ := sim_parent_body s hgp
    have hbody := untouched_body hu hgp hnp
    cases hb : pg.body
    case arr nodes moved =>
      rw [applyMove_eq hgp hb] at hg
      rw [applyMove_eq hnp (hbody.trans hb)] at hn
      have hchildren : ∀ c, c ∈ nodes.filterMap (·.elem) → present g c := by
        intro c hc
        apply wf_child_present wg hgp
        rw [hb]; simpa [bodyChildren] using hc
      cases hm : moveBody nodes moved prev target ts with
      | error e => simp [hm] at hg
      | ok res =>
        have hch := moveBody_children hm
        simp only [hm] at hg hn
        cases res with
        | same =>
          simp only at hg hn
          injection hg with hg; injection hn with hn
          subst hg; subst hn
          exact s
        | loser ns =>
          simp only at hg hn hch
          injection hg with hg; injection hn with hn
          subst hg; subst hn
          apply sim_same_heaps (g := g.put p { pg with body := .arr ns moved }) (n := n.put p { pn with body := .arr ns moved })
          · intro t; unfold regGcNode; split <;> rfl
          · intro t; unfold regGcNode; split <;> rfl
          · apply sim_put_both s hgp hnp
            simp only [BodySim]
            apply arrSim_full
            intro x hx c hc
            exact present_put_mono _ _ _ (hchildren c (hch x hx c hc))
        | winner ns oldPos =>
          simp only at hg hn hch
          injection hg with hg; injection hn with hn
          subst hg; subst hn
          apply sim_same_heaps
            (g := setMovedAt (g.put p { pg with body := .arr (ns.map (relink target ts)) (alSet moved target ts) }) target ts)
            (n := setMovedAt (n.put p { pn with body := .arr (ns.map (relink target ts)) (alSet moved target ts) }) target ts)
          · intro t; unfold regGcNode; split <;> rfl
          · intro t; unfold regGcNode; split <;> rfl
          · apply sim_setMovedAt
            apply sim_put_both s hgp hnp
            simp only [BodySim]
            apply arrSim_full
            intro x hx c hc
            exact present_put_mono _ _ _ (hchildren c (hch x hx c hc))
    all_goals (unfold applyMove at hg; simp [hgp, hb] at hg)

/-! ### `Set` -/

/-- replace the maps of object `o`, keeping its fields -/
def putObj (r : Root) (o : Ticket) (nodes : List (Ticket × String)) (byKey : List (String × Ticket)) : Root :=
  match r.get o with
  | some oe => r.put o { oe with body := .obj nodes byKey }
  | none => r

/-- which way `SetWithExecutedAt` goes -/
inductive SetOut
  | take (evict : Bool)
  | lose (tomb : Bool)
deriving DecidableEq

/-- the state `SetWithExecutedAt` produces, given the way it goes -/
def rhtSetRes (r : Root) (o : Ticket) (k : String) (v exec : Ticket) (nodes : List (Ticket × String))
    (byKey : List (String × Ticket)) (occ : Option Ticket) : SetOut → Root
  | .take evict =>
    let r1 := match evict, occ with
      | true, some c => (removeElem r c exec).1
      | _, _ => r
    setMovedAt (putObj r1 o (alSet nodes v k) (alSet byKey k v)) v exec
  | .lose tomb =>
    let r1 := putObj r o (alSet nodes v k) byKey
    match tomb, occ with
    | true, some c => (removeElem r1 v (positionedAt r1 c)).1
    | _, _ => r1

def rhtSetOut (r : Root) (o : Ticket) (k : String) (v exec : Ticket) (nodes : List (Ticket × String))
    (byKey : List (String × Ticket)) : SetOut :=
  match alGet byKey k with
  | none => .take false
  | some occ =>
    if exec.after (positionedAt r occ) then .take (!isRemoved r occ)
    else .lose (!isRemoved (putObj r o (alSet nodes v k) byKey) occ)

theorem get_removeElem_body {r : Root} {p : Ticket} {e : Elem} (h : r.get p = some e) (c a : Ticket) :
    ∃ e', (removeElem r c a).1.get p = some e' ∧ e'.body = e.body ∧ e'.parent = e.parent := by
  rw [get_removeElem]
  by_cases hp : p = c
  · subst hp
    simp only [if_true, h, Option.map_some]
    split
    · exact ⟨_, rfl, rfl, rfl⟩
    · exact ⟨_, rfl, rfl, rfl⟩
  · simp only [hp, if_false]
    exact ⟨e, h, rfl, rfl⟩

theorem rhtSet_eq {r : Root} {o : Ticket} {oe : Elem} {nodes : List (Ticket × String)} {byKey : List (String × Ticket)}
    (hg : r.get o = some oe) (hb : oe.body = .obj nodes byKey) (k : String) (v exec : Ticket) :
    (rhtSet r o k v exec).1 = rhtSetRes r o k v exec nodes byKey (alGet byKey k) (rhtSetOut r o k v exec nodes byKey) := by
  unfold rhtSet rhtSetOut
  simp only [hg, hb]
  cases hocc : alGet byKey k with
  | none =>
    simp only [rhtSetRes, putObj, hg]
  | some occ =>
    simp only
    split
    · -- wins
      by_cases hrem : isRemoved r occ = true
      · simp only [hrem, Bool.not_true, Bool.false_eq_true, if_false, rhtSetRes, putObj, hg]
      · have hrem' : isRemoved r occ = false := by simpa using hrem
        simp only [hrem', Bool.not_false, if_true, rhtSetRes, putObj]
        obtain ⟨e', he', _, _⟩ := get_removeElem_body hg occ exec
        simp only [he']
    · -- loses
      simp only [rhtSetRes, putObj, hg]
      split
      · rename_i hl
        simp only [hl]
      · rename_i hl
        have : (!isRemoved (r.put o { oe with body := .obj (alSet nodes v k) byKey }) occ) = false := by simpa using hl
        simp only [this]

theorem Sim.positionedAt {g n : Root} (s : Sim g n) {c : Ticket} (hc : present g c) : positionedAt g c = positionedAt n c := by
  unfold present at hc
  cases hg : g.get c with
  | none => exact absurd hg hc
  | some eg =>
    obtain ⟨en, hn, _, hm, _, _⟩ := s.sub c eg hg
    unfold FDoc.positionedAt
    simp only [hg, hn, hm]

theorem Sim.isRemoved {g n : Root} (s : Sim g n) {c : Ticket} (hc : present g c) : isRemoved g c = isRemoved n c := by
  rw [isRemoved_eq, isRemoved_eq, s.live hc]

theorem objSim_take {g n : Root} {gn nn : List (Ticket × String)} {gb nb : List (String × Ticket)}
    (h : ObjSim g n gn gb nn nb) {ts : Ticket} (hts : present g ts) (k : String) :
    ObjSim g n (alSet gn ts k) (alSet gb k ts) (alSet nn ts k) (alSet nb k ts) := by
  refine ⟨?_, nodup_keys_alSet k ts h.keysG, nodup_keys_alSet k ts h.keysN, ?_, ?_, ?_⟩
  · intro c k'
    by_cases hc : c = ts
    · subst hc
      rw [alGet_alSet_same, alGet_alSet_same]
      exact ⟨fun e => ⟨e, hts⟩, fun e => e.1⟩
    · rw [alGet_alSet_other _ _ _ _ hc, alGet_alSet_other _ _ _ _ hc]
      exact h.nodes c k'
  · intro k' c hc
    by_cases hk : k' = k
    · subst hk
      rw [alGet_alSet_same] at hc ⊢
      injection hc with hc
      subst hc
      exact ⟨rfl, hts⟩
    · rw [alGet_alSet_other _ _ _ _ hk] at hc ⊢
      exact h.occ1 k' c hc
  · intro k' c hc hp
    by_cases hk : k' = k
    · subst hk
      rw [alGet_alSet_same] at hc ⊢
      exact hc
    · rw [alGet_alSet_other _ _ _ _ hk] at hc ⊢
      exact h.occ2 k' c hc hp
  · intro k' c hc hp
    by_cases hk : k' = k
    · subst hk
      rw [alGet_alSet_same] at hc
      injection hc with hc
      subst hc
      exact absurd hts hp
    · rw [alGet_alSet_other _ _ _ _ hk] at hc
      exact h.gone k' c hc hp

theorem objSim_lose {g n : Root} {gn nn : List (Ticket × String)} {gb nb : List (String × Ticket)}
    (h : ObjSim g n gn gb nn nb) {ts : Ticket} (hts : present g ts) (k : String) :
    ObjSim g n (alSet gn ts k) gb (alSet nn ts k) nb := by
  refine ⟨?_, h.keysG, h.keysN, h.occ1, h.occ2, h.gone⟩
  intro c k'
  by_cases hc : c = ts
  · subst hc
    rw [alGet_alSet_same, alGet_alSet_same]
    exact ⟨fun e => ⟨e, hts⟩, fun e => e.1⟩
  · rw [alGet_alSet_other _ _ _ _ hc, alGet_alSet_other _ _ _ _ hc]
    exact h.nodes c k'

/-- the maps of object `p` replaced on both sides by maps that simulate each other -/
theorem sim_putObj {g n : Root} (s : Sim g n) {p : Ticket} {pg pn : Elem} (hg : g.get p = some pg) (hn : n.get p = some pn)
    {gn' nn' : List (Ticket × String)} {gb' nb' : List (String × Ticket)} (h : ObjSim g n gn' gb' nn' nb') :
    Sim (putObj g p gn' gb') (putObj n p nn' nb') := by
  unfold putObj
  simp only [hg, hn]
  apply sim_put_both s hg hn
  simp only [BodySim]
  have hpres := present_put_present g p { pg with body := Body.obj gn' gb' } (present_of_get hg)
  have hlive : ∀ x, liveChild (n.put p { pn with body := Body.obj nn' nb' }) x = liveChild n x :=
    fun x => liveChild_put_fields n p pn { pn with body := Body.obj nn' nb' } hn rfl x
  have := bodySim_congr (bg := .obj gn' gb') (bn := .obj nn' nb') hpres hlive (by simpa only [BodySim] using h)
  simpa only [BodySim] using this

theorem sim_obj_at {g n : Root} (s : Sim g n) {p : Ticket} {pg pn : Elem} (hg : g.get p = some pg) (hn : n.get p = some pn)
    {gn nn : List (Ticket × String)} {gb nb : List (String × Ticket)} (hbg : pg.body = .obj gn gb) (hbn : pn.body = .obj nn nb) :
    ObjSim g n gn gb nn nb := by
  obtain ⟨en, a1, _, _, _, a5⟩ := s.sub p pg hg
  rw [hn] at a1
  injection a1 with a1
  subst a1
  rw [hbg, hbn] at a5
  exact a5

theorem sim_rhtSetRes_take {g n : Root} (s : Sim g n) (wnb : ∀ x e, n.get x = some e → BodyWF e.body)
    {p : Ticket} {pg pn : Elem} (hg : g.get p = some pg) (hn : n.get p = some pn)
    {gn nn : List (Ticket × String)} {gb nb : List (String × Ticket)} (hbg : pg.body = .obj gn gb) (hbn : pn.body = .obj nn nb)
    {ts : Ticket} (hts : present g ts) (k : String) (exec : Ticket) (evict : Bool) (occ : Option Ticket) :
    Sim (rhtSetRes g p k ts exec gn gb occ (.take evict)) (rhtSetRes n p k ts exec nn nb occ (.take evict)) := by
  simp only [rhtSetRes]
  apply sim_setMovedAt
  -- the state after the optional eviction
  have key : ∀ (g1 n1 : Root), Sim g1 n1 → (∀ x, present g1 x ↔ present g x) →
      (∃ e', g1.get p = some e' ∧ e'.body = pg.body) → (∃ e', n1.get p = some e' ∧ e'.body = pn.body) →
      Sim (putObj g1 p (alSet gn ts k) (alSet gb k ts)) (putObj n1 p (alSet nn ts k) (alSet nb k ts)) := by
    intro g1 n1 s1 hp1 ⟨eg, heg, hbeg⟩ ⟨en, hen, hben⟩
    have ho := sim_obj_at s1 heg hen (hbeg.trans hbg) (hben.trans hbn)
    exact sim_putObj s1 heg hen (objSim_take ho ((hp1 ts).mpr hts) k)
  cases evict with
  | false => exact key g n s (fun _ => Iff.rfl) ⟨pg, hg, rfl⟩ ⟨pn, hn, rfl⟩
  | true =>
    cases occ with
    | none => exact key g n s (fun _ => Iff.rfl) ⟨pg, hg, rfl⟩ ⟨pn, hn, rfl⟩
    | some c =>
      simp only
      obtain ⟨eg, h1, h2, _⟩ := get_removeElem_body hg c exec
      obtain ⟨en, h3, h4, _⟩ := get_removeElem_body hn c exec
      exact key _ _ (sim_removeElem s wnb c exec) (present_removeElem g c exec) ⟨eg, h1, h2⟩ ⟨en, h3, h4⟩

theorem present_putObj (r : Root) (o : Ticket) (ns : List (Ticket × String)) (bk : List (String × Ticket)) (x : Ticket) :
    present (putObj r o ns bk) x ↔ present r x := by
  unfold putObj
  cases hg : r.get o with
  | none => exact Iff.rfl
  | some oe => exact present_put_present r o _ (present_of_get hg) x

theorem sim_rhtSetRes_lose {g n : Root} (s : Sim g n) (wnb : ∀ x e, n.get x = some e → BodyWF e.body)
    {p : Ticket} {pg pn : Elem} (hg : g.get p = some pg) (hn : n.get p = some pn)
    {gn nn : List (Ticket × String)} {gb nb : List (String × Ticket)} (hbg : pg.body = .obj gn gb) (hbn : pn.body = .obj nn nb)
    {ts : Ticket} (hts : present g ts) (k : String) (exec : Ticket) (tomb : Bool) (occ : Option Ticket)
    (hocc : ∀ c, occ = some c → present g c) (hfresh : ∀ q ∈ nb, q.2 ≠ ts) :
    Sim (rhtSetRes g p k ts exec gn gb occ (.lose tomb)) (rhtSetRes n p k ts exec nn nb occ (.lose tomb)) := by
  simp only [rhtSetRes]
  have ho := sim_obj_at s hg hn hbg hbn
  have s1 : Sim (putObj g p (alSet gn ts k) gb) (putObj n p (alSet nn ts k) nb) :=
    sim_putObj s hg hn (objSim_lose ho hts k)
  cases tomb with
  | false => exact s1
  | true =>
    cases occ with
    | none => exact s1
    | some c =>
      simp only
      have hc1 : present (putObj g p (alSet gn ts k) gb) c := (present_putObj g p _ _ c).mpr (hocc c rfl)
      rw [s1.positionedAt hc1]
      apply sim_removeElem s1
      -- bodies of the `n` side after the put are well-formed
      intro x e hx
      unfold putObj at hx
      simp only [hn] at hx
      rw [get_put] at hx
      by_cases hxp : x = p
      · simp only [hxp, if_true, Option.some.injEq] at hx
        subst hx
        have hw : ObjWF nn nb := by have := wnb p pn hn; rw [hbn] at this; exact this
        show ObjWF (alSet nn ts k) nb
        refine ⟨hw.1, ?_⟩
        intro q hq
        have hqt : q.2 ≠ ts := hfresh q hq
        rw [alGet_alSet_other _ _ _ _ hqt]; exact hw.2 q hq
      · simp only [hxp, if_false] at hx
        exact wnb x e hx

/-- the `Set` does not lose against an occupant that the GC-on side has purged: either the occupant of the
    key in the GC-off root still exists in the GC-on root, or the new value is positioned after it anyway -/
def SetSafe (g n : Root) (p : Ticket) (k : String) (exec : Ticket) : Prop :=
  match n.get p with
  | some pn =>
    match pn.body with
    | .obj _ nb =>
      match alGet nb k with
      | some occ => present g occ ∨ exec.after (positionedAt n occ) = true
      | none => True
    | _ => True
  | none => True

instance (g n : Root) (p : Ticket) (k : String) (exec : Ticket) : Decidable (SetSafe g n p k exec) := by
  unfold SetSafe
  cases n.get p with
  | none => exact isTrue trivial
  | some pn =>
    simp only
    cases pn.body with
    | obj nn nb =>
      simp only
      cases alGet nb k <;> simp only <;> infer_instance
    | arr a b => exact isTrue trivial
    | prim a => exact isTrue trivial
    | counter a b => exact isTrue trivial
    | «opaque» a => exact isTrue trivial

theorem applySetAt_heap {r r' : Root} {p : Ticket} {k : String} {v : Val} {c e : Ticket}
    (h : applySetAt r p k v c e = .ok r') :
    ∃ pe nodes bk, r.get p = some pe ∧ pe.body = .obj nodes bk ∧
      ∀ x, r'.get x = (rhtSet (r.put c (newElem p v)) p k c e).1.get x := by
  unfold applySetAt at h
  cases hgp : r.get p with
  | none => simp [hgp] at h
  | some pe =>
    simp only [hgp] at h
    cases hb : pe.body
    case obj nodes bk =>
      simp only [hb] at h
      injection h with h
      subst h
      refine ⟨pe, nodes, bk, rfl, hb, ?_⟩
      intro x
      generalize rhtSet (r.put c (newElem p v)) p k c e = res
      obtain ⟨r1, removed⟩ := res
      simp only
      cases removed <;> (simp only; split <;> rfl)
    all_goals simp [hb] at h

theorem isRemoved_putObj (r : Root) (o : Ticket) (ns : List (Ticket × String)) (bk : List (String × Ticket)) (x : Ticket) :
    isRemoved (putObj r o ns bk) x = isRemoved r x := by
  rw [isRemoved_eq, isRemoved_eq]
  unfold putObj
  cases hg : r.get o with
  | none => rfl
  | some oe => simp only; rw [liveChild_put_fields r o oe { oe with body := .obj ns bk } hg rfl]

theorem sim_applySetAt {g n g' n' : Root} (s : Sim g n) (wn : WF n) {p : Ticket} {k : String} {v : Val}
    {created exec : Ticket} (hf : n.get created = none) (safe : SetSafe g n p k exec)
    (hg : applySetAt g p k v created exec = .ok g') (hn : applySetAt n p k v created exec = .ok n') : Sim g' n' := by
  obtain ⟨pg, gn, gb, hgp, hbg, hgx⟩ := applySetAt_heap hg
  obtain ⟨pn, nn, nb, hnp, hbn, hnx⟩ := applySetAt_heap hn
  apply sim_same_heaps hgx hnx
  have hne : p ≠ created := by intro e; subst e; rw [hf] at hnp; cases hnp
  have s0 : Sim (g.put created (newElem p v)) (n.put created (newElem p v)) := sim_put_new s wn hf p v
  have hg0 : (g.put created (newElem p v)).get p = some pg := by rw [get_put_other _ _ _ _ hne]; exact hgp
  have hn0 : (n.put created (newElem p v)).get p = some pn := by rw [get_put_other _ _ _ _ hne]; exact hnp
  have hts : present (g.put created (newElem p v)) created := present_of_get (get_put_same _ _ _)
  have wnb0 : ∀ x e, (n.put created (newElem p v)).get x = some e → BodyWF e.body := by
    intro x e hx
    rw [get_put] at hx
    by_cases hxc : x = created
    · simp only [hxc, if_true, Option.some.injEq] at hx
      rw [← hx]; exact val_body_wf v
    · simp only [hxc, if_false] at hx
      exact wf_bodies wn x e hx
  have ho := sim_obj_at s0 hg0 hn0 hbg hbn
  have hwfn : ObjWF nn nb := by have := wf_bodies wn p pn hnp; rw [hbn] at this; exact this
  -- the new ticket is not an occupant
  have hfreshnb : ∀ q ∈ nb, q.2 ≠ created := by
    intro q hq e
    have h1 := hwfn.2 q hq
    rw [e] at h1
    have : created ∈ bodyChildren pn.body := by rw [hbn]; simpa [bodyChildren] using alGet_some_mem_keys h1
    exact fresh_not_child wn hf (skel_of_get hnp) this
  rw [rhtSet_eq hg0 hbg, rhtSet_eq hn0 hbn]
  unfold rhtSetOut
  cases hN : alGet nb k with
  | none =>
    have hG : alGet gb k = none := by
      cases hG : alGet gb k with
      | none => rfl
      | some c => have := (ho.occ1 k c hG).1; rw [hN] at this; cases this
    rw [hG]
    exact sim_rhtSetRes_take s0 wnb0 hg0 hn0 hbg hbn hts k exec false none
  | some occ =>
    have hoccNode : alGet nn occ = some k := hwfn.2 (k, occ) (alGet_some_mem hN)
    have hoccNe : occ ≠ created := fun e => hfreshnb (k, occ) (alGet_some_mem hN) e
    by_cases hp : present (g.put created (newElem p v)) occ
    · -- the occupant still exists on the GC-on side: both sides decide alike
      have hG : alGet gb k = some occ := ho.occ2 k occ hN hp
      rw [hG]
      simp only
      rw [s0.positionedAt hp, s0.isRemoved hp, isRemoved_putObj, isRemoved_putObj, s0.isRemoved hp]
      split
      · exact sim_rhtSetRes_take s0 wnb0 hg0 hn0 hbg hbn hts k exec _ (some occ)
      · exact sim_rhtSetRes_lose s0 wnb0 hg0 hn0 hbg hbn hts k exec _ (some occ)
          (fun c hc => by injection hc with hc; subst hc; exact hp) hfreshnb
    · -- the occupant was purged on the GC-on side: `SetSafe` makes the GC-off side take the key as well
      have hG : alGet gb k = none := by
        cases hG : alGet gb k with
        | none => rfl
        | some c =>
          obtain ⟨a1, a2⟩ := ho.occ1 k c hG
          rw [hN] at a1
          injection a1 with a1
          subst a1
          exact absurd a2 hp
      rw [hG]
      have hpg : ¬ present g occ := fun h => hp (present_put_mono _ _ _ h)
      have hafter : exec.after (positionedAt n occ) = true := by
        unfold SetSafe at safe
        simp only [hnp, hbn, hN] at safe
        rcases safe with h | h
        · exact absurd h hpg
        · exact h
      have hpos : positionedAt (n.put created (newElem p v)) occ = positionedAt n occ := by
        unfold positionedAt
        rw [get_put_other _ _ _ _ hoccNe]
      have hdead : isRemoved (n.put created (newElem p v)) occ = true := by
        rw [isRemoved_eq, ho.gone k occ hN hp]
        rfl
      simp only [hpos, hafter, if_true, hdead, Bool.not_true]
      -- with `evict = false` the occupant argument is not read
      have e1 : rhtSetRes (n.put created (newElem p v)) p k created exec nn nb (some occ) (.take false) =
          rhtSetRes (n.put created (newElem p v)) p k created exec nn nb none (.take false) := rfl
      rw [e1]
      exact sim_rhtSetRes_take s0 wnb0 hg0 hn0 hbg hbn hts k exec false none

/-! ### all operations -/

/-- the per-operation side condition of the GC-on / GC-off equivalence -/
def OpSafe (g n : Root) : Op → Prop
  | .set p k _ t => SetSafe g n p k t
  | .add p _ _ _ => Untouched g n p
  | .move p _ _ _ => Untouched g n p
  | .arraySet p _ _ _ => Untouched g n p
  | .remove _ _ _ => True
  | .increase _ _ _ => True

instance (g n : Root) (op : Op) : Decidable (OpSafe g n op) := by
  cases op <;> simp only [OpSafe] <;> infer_instance

/-- **an operation that executes on both sides keeps the simulation** -/
theorem sim_fexecute {g n g' n' : Root} {op : Op} (s : Sim g n) (wg : WF g) (wn : WF n) (hf : Fresh n op)
    (safe : OpSafe g n op) (hg : fexecute g op = .ok g') (hn : fexecute n op = .ok n') : Sim g' n' := by
  cases op with
  | set p k v t => exact sim_applySetAt s wn hf safe hg hn
  | add p prev v t => exact sim_applyAdd s wg wn hf safe hg hn
  | move p prev target t => exact sim_applyMove s wg safe hg hn
  | remove p target t => exact sim_applyRemove s wn hg hn
  | arraySet p target v t => exact sim_applyArraySet s wg wn hf safe hg hn
  | increase p d t => exact sim_applyIncrease s hg hn

end Yorkie.FDoc
