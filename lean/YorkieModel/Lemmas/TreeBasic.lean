/-
Basic facts about the arena of Model/Tree.lean: `get`/`modify`/`alloc`, and the *view* of a tree - what
`ToXML()` and `Marshal()` read. Two trees with the same view render identically (`toXMLCodes_congr`,
`marshalCodes_congr`); `Tree.DeepCopy` (`deepCopy`: re-registration + `rebuildMergeState`) keeps the view, so
a clone made by `DeepCopy` renders exactly like its original, for EVERY tree (no well-formedness needed).
-/
import YorkieModel.Model.TreeDoc
namespace Yorkie.Tree
open Yorkie

/-! ### lists -/

theorem length_modifyNth {α} (f : α → α) : ∀ (l : List α) (n : Nat), (modifyNth f l n).length = l.length
  | [], _ => rfl
  | _ :: _, 0 => rfl
  | _ :: r, n + 1 => by simp [modifyNth, length_modifyNth f r n]

theorem getD_modifyNth_same {α} (f : α → α) (d : α) : ∀ (l : List α) (n : Nat), n < l.length →
    (modifyNth f l n).getD n d = f (l.getD n d)
  | [], _, h => by simp at h
  | _ :: _, 0, _ => rfl
  | _ :: r, n + 1, h => by
    simp only [modifyNth, List.getD_cons_succ]
    exact getD_modifyNth_same f d r n (by simpa using h)

theorem getD_modifyNth_ne {α} (f : α → α) (d : α) : ∀ (l : List α) (n m : Nat), m ≠ n →
    (modifyNth f l n).getD m d = l.getD m d
  | [], _, _, _ => rfl
  | _ :: _, 0, 0, h => absurd rfl h
  | _ :: _, 0, m + 1, _ => rfl
  | _ :: _, n + 1, 0, _ => rfl
  | _ :: r, n + 1, m + 1, h => by
    simp only [modifyNth, List.getD_cons_succ]
    exact getD_modifyNth_ne f d r n m (by omega)

theorem modifyNth_of_ge {α} (f : α → α) : ∀ (l : List α) (n : Nat), l.length ≤ n → modifyNth f l n = l
  | [], _, _ => rfl
  | _ :: _, 0, h => by simp at h
  | a :: r, n + 1, h => by simp [modifyNth, modifyNth_of_ge f r n (by simpa using h)]

theorem map_modifyNth {α β} (g : α → β) (f : α → α) (hf : ∀ a, g (f a) = g a) :
    ∀ (l : List α) (n : Nat), (modifyNth f l n).map g = l.map g
  | [], _ => rfl
  | a :: r, 0 => by simp [modifyNth, hf]
  | a :: r, n + 1 => by simp [modifyNth, map_modifyNth g f hf r n]

/-! ### arena -/

@[simp] theorem size_modify (t : Tree) (p : Ptr) (f : TNode → TNode) : (t.modify p f).size = t.size := rfl
@[simp] theorem root_modify (t : Tree) (p : Ptr) (f : TNode → TNode) : (t.modify p f).root = t.root := rfl
@[simp] theorem idmap_modify (t : Tree) (p : Ptr) (f : TNode → TNode) : (t.modify p f).idmap = t.idmap := rfl
@[simp] theorem fuel_modify (t : Tree) (p : Ptr) (f : TNode → TNode) : (t.modify p f).fuel = t.fuel := rfl
@[simp] theorem length_nodes_modify (t : Tree) (p : Ptr) (f : TNode → TNode) :
    (t.modify p f).nodes.length = t.nodes.length := length_modifyNth f _ _

theorem get_modify_same (t : Tree) (p : Ptr) (f : TNode → TNode) (h : p < t.nodes.length) :
    (t.modify p f).get p = f (t.get p) := getD_modifyNth_same f default _ _ h

theorem get_modify_ne (t : Tree) (p q : Ptr) (f : TNode → TNode) (h : q ≠ p) :
    (t.modify p f).get q = t.get q := getD_modifyNth_ne f default _ _ _ h

theorem modify_of_ge (t : Tree) (p : Ptr) (f : TNode → TNode) (h : t.nodes.length ≤ p) : t.modify p f = t := by
  unfold Tree.modify; rw [modifyNth_of_ge f _ _ h]

/-- `get` after `modify`, without a bound: outside the arena `modify` is the identity -/
theorem get_modify (t : Tree) (p q : Ptr) (f : TNode → TNode) :
    (t.modify p f).get q = if q = p ∧ p < t.nodes.length then f (t.get q) else t.get q := by
  by_cases hq : q = p
  · subst hq
    by_cases hp : q < t.nodes.length
    · simp [hp, get_modify_same t q f hp]
    · simp [hp, modify_of_ge t q f (Nat.le_of_not_lt hp)]
  · simp [hq, get_modify_ne t p q f hq]

/-! ### the view: what `ToXML`/`Marshal` read -/

/-- the fields of a node that `ToXML()`/`Marshal()` read -/
structure NView where
  type : Str
  isText : Bool
  value : List Nat
  removed : Bool
  attrs : List Attr
  children : List Ptr
deriving DecidableEq

def TNode.view (n : TNode) : NView := ⟨n.type, n.isText, n.value, n.removedAt.isSome, n.attrs, n.children⟩

/-- the view of a tree: size (the traversal fuel), root, and the view of every node -/
def Tree.view (t : Tree) : Nat × Ptr × List NView := (t.size, t.root, t.nodes.map TNode.view)

theorem view_get {a b : Tree} (h : a.nodes.map TNode.view = b.nodes.map TNode.view) (p : Ptr) :
    (a.get p).view = (b.get p).view := by
  have : (a.nodes.map TNode.view).getD p (default : TNode).view = (b.nodes.map TNode.view).getD p (default : TNode).view := by rw [h]
  simpa [Tree.get, List.getD_eq_getElem?_getD, List.getElem?_map, Option.getD_map] using this

theorem kids_congr {a b : Tree} (h : a.nodes.map TNode.view = b.nodes.map TNode.view) (p : Ptr) (incl : Bool) :
    a.kids p incl = b.kids p incl := by
  unfold Tree.kids Tree.removed
  have hp := view_get h p
  have hc : (a.get p).children = (b.get p).children := congrArg NView.children hp
  rw [hc]
  apply List.filter_congr
  intro c _
  have := congrArg NView.removed (view_get h c)
  simp only [TNode.view] at this
  rw [this]

theorem xmlGo_congr {a b : Tree} (h : a.nodes.map TNode.view = b.nodes.map TNode.view) :
    ∀ (f : Nat) (p : Ptr) (acc : Str), xmlGo f a p acc = xmlGo f b p acc
  | 0, _, _ => rfl
  | f + 1, p, acc => by
    have hp := view_get h p
    have h1 : (a.get p).isText = (b.get p).isText := congrArg NView.isText hp
    have h2 : (a.get p).value = (b.get p).value := congrArg NView.value hp
    have h3 : (a.get p).type = (b.get p).type := congrArg NView.type hp
    have h4 : (a.get p).attrs = (b.get p).attrs := congrArg NView.attrs hp
    simp only [xmlGo, h1, h2, h3, h4, kids_congr h p false]
    have : (fun c a_1 => xmlGo f a c a_1) = (fun c a_1 => xmlGo f b c a_1) := by
      funext c x; exact xmlGo_congr h f c x
    rw [this]

/-- trees with the same view have the same `ToXML()` -/
theorem toXMLCodes_congr {a b : Tree} (h : a.view = b.view) : a.toXMLCodes = b.toXMLCodes := by
  unfold Tree.view at h
  have hs : a.size = b.size := congrArg Prod.fst h
  have hr : a.root = b.root := congrArg (fun x => x.2.1) h
  have hn : a.nodes.map TNode.view = b.nodes.map TNode.view := congrArg (fun x => x.2.2) h
  unfold Tree.toXMLCodes Tree.fuel
  rw [hs, hr]
  exact xmlGo_congr hn _ _ _

theorem marshalGo_congr {a b : Tree} (h : a.nodes.map TNode.view = b.nodes.map TNode.view) :
    ∀ (f : Nat) (p : Ptr), marshalGo f a p = marshalGo f b p
  | 0, _ => rfl
  | f + 1, p => by
    have hp := view_get h p
    have h1 : (a.get p).isText = (b.get p).isText := congrArg NView.isText hp
    have h2 : (a.get p).value = (b.get p).value := congrArg NView.value hp
    have h3 : (a.get p).type = (b.get p).type := congrArg NView.type hp
    have h4 : (a.get p).attrs = (b.get p).attrs := congrArg NView.attrs hp
    simp only [marshalGo, h1, h2, h3, h4, kids_congr h p false]
    have : marshalGo f a = marshalGo f b := by funext c; exact marshalGo_congr h f c
    rw [this]

/-- trees with the same view have the same `Marshal()` -/
theorem marshalCodes_congr {a b : Tree} (h : a.view = b.view) : a.marshalCodes = b.marshalCodes := by
  unfold Tree.view at h
  have hs : a.size = b.size := congrArg Prod.fst h
  have hr : a.root = b.root := congrArg (fun x => x.2.1) h
  have hn : a.nodes.map TNode.view = b.nodes.map TNode.view := congrArg (fun x => x.2.2) h
  unfold Tree.marshalCodes Tree.fuel
  rw [hs, hr]
  exact marshalGo_congr hn _ _

/-- a `modify` that keeps the node's view keeps the tree's view -/
theorem view_modify (t : Tree) (p : Ptr) (f : TNode → TNode) (hf : ∀ n, (f n).view = n.view) :
    (t.modify p f).view = t.view := by
  unfold Tree.view
  simp only [Tree.modify]
  rw [map_modifyNth TNode.view f hf]

/-! ### `DeepCopy` keeps the view -/

theorem view_put (t : Tree) (p : Ptr) : (t.put p).view = t.view := rfl

theorem view_putNode (t : Tree) (p : Ptr) : (t.putNode p).view = t.view := by
  unfold Tree.putNode
  split
  · split <;> rfl
  · rfl

theorem view_foldl {α} (g : Tree → α → Tree) (hg : ∀ t a, (g t a).view = t.view) :
    ∀ (l : List α) (t : Tree), (l.foldl g t).view = t.view
  | [], _ => rfl
  | a :: r, t => by rw [List.foldl_cons, view_foldl g hg r, hg]

theorem view_register (t : Tree) : t.register.view = t.view := by
  unfold Tree.register
  simp only
  split
  · rw [view_foldl _ (fun t a => view_putNode t a), view_foldl _ (fun t a => view_put t a)]; rfl
  · rw [view_foldl _ (fun t a => view_put t a)]; rfl

theorem view_ite_modify (x : Tree) (cnd : Bool) (p : Ptr) (f : TNode → TNode) (hf : ∀ n, (f n).view = n.view) :
    (if cnd = true then x.modify p f else x).view = x.view := by
  split
  · exact view_modify _ _ _ hf
  · rfl

theorem view_rebuildMergeState (t : Tree) : t.rebuildMergeState.view = t.view := by
  unfold Tree.rebuildMergeState
  apply view_foldl
  intro a c
  split
  · split
    · rfl
    · simp only []
      rw [view_ite_modify]
      · split
        · exact view_modify _ _ _ (fun n => rfl)
        · rfl
      · intro n; rfl
  · rfl

/-- `Tree.DeepCopy` keeps the view -/
theorem view_deepCopy (t : Tree) : t.deepCopy.view = t.view := by
  unfold Tree.deepCopy Tree.newTree
  rw [view_rebuildMergeState, view_register]

end Yorkie.Tree
