/-
Lemmas for C14, part 5: the leaf alphabet on objects and counters (`GoodOp`), and what one executed
operation guarantees (`step_good`): invariants, abstract effect, and an executable reverse that is
abstractly the exact inverse.
-/
import YorkieModel.Lemmas.UndoStepRI
namespace Yorkie.Undo
open Yorkie Yorkie.Crdt

/-! ### the leaf alphabet on objects and counters -/

theorem orphaned_of_skel {H : Home} {d d' : Doc} (w : WF H d) (w' : WF H d') (hs : ∀ t, skel d t = skel d' t)
    (tw : Ticket → Bool) : ∀ (f : Nat) (t : Ticket), isContainer d t = true →
    orphaned d tw f t = orphaned d' tw f t
  | 0, _, _ => rfl
  | f + 1, t, ht => by
    obtain ⟨e, hd, hb⟩ := isContainer_iff.1 ht
    have : skel d' t = some e.removed := by rw [← hs]; exact skel_some.2 ⟨e, hd, hb, rfl⟩
    obtain ⟨e', hd', _, hr⟩ := skel_some.1 this
    simp only [orphaned, hd, hd', hr, w.par t e hd, w'.par t e' hd']
    cases hp : H.par t with
    | none => rfl
    | some q =>
      simp only []
      rw [orphaned_of_skel w w' hs tw f q (w.parCont t e q hd hp)]

/-- operations of the leaf alphabet that are executable on `d` -/
def GoodOp (H : Home) (tw : Ticket → Bool) (d : Doc) : UOp → Prop
  | .set p k val _ => ∃ f, GoodSet H tw d p k val f
  | .remove p u _ => ∃ f, GoodRemove H tw d p u f
  | .increase c delta _ => ∃ l v, absNode d c = some (.cnt l v) ∧ wrap l delta = delta ∧ wrap l v = v
  | _ => False

def aexec (H : Home) (A : AHeap) : UOp → AHeap
  | .set p k val _ => aset A p k val.id (absLeaf val.body)
  | .remove p u _ => aremove A p (H.key u) u
  | .increase c delta _ => ainc A c delta
  | _ => A

/-- identities carried by the operation are at most `L` -/
def UOp.idBound : UOp → Int → Prop
  | .set _ _ val _, L => val.id.lamport ≤ L
  | _, _ => True

theorem UOp.idBound_mono {op : UOp} {L L' : Int} (h : op.idBound L) (hl : L ≤ L') : op.idBound L' := by
  cases op <;> simp only [UOp.idBound] at h ⊢
  omega

theorem GoodOp_withTs {H : Home} {tw : Ticket → Bool} {d : Doc} {op : UOp} (t : Ticket) :
    GoodOp H tw (d) (op.withTs t) ↔ GoodOp H tw d op := by
  cases op <;> simp [UOp.withTs, GoodOp]

theorem absNode_isContainer {d : Doc} {p : Ticket} {f : String → Option Ticket}
    (h : absNode d p = some (.obj f)) : isContainer d p = true := by
  obtain ⟨pe, keys, member, hd, _, hb, _⟩ := absNode_obj h
  simp [isContainer, hd, hb]

/-- executability transfers along equality of the observable parts -/
theorem GoodOp_transfer {H : Home} {tw : Ticket → Bool} {d d' : Doc} (w : WF H d) (w' : WF H d')
    (hs : ∀ t, skel d t = skel d' t) (hn : absNode d = absNode d') {op : UOp} (g : GoodOp H tw d op) :
    GoodOp H tw d' op := by
  cases op with
  | set p k val ts =>
    obtain ⟨f, g⟩ := g
    refine ⟨f, ⟨hn ▸ g.hp, ?_, g.hleaf, g.hsub, g.hrem, g.hkey, g.hpar, g.htw, hn ▸ g.hdead, (hs _) ▸ g.hnc, ?_⟩⟩
    · rw [← orphaned_of_skel w w' hs tw _ _ (absNode_isContainer g.hp)]; exact g.horph
    · intro c hc; rw [← hn]; exact g.hold c hc
  | remove p u ts =>
    obtain ⟨f, g⟩ := g
    refine ⟨f, ⟨hn ▸ g.hp, ?_, g.hk, hn ▸ g.hleaf, g.htw⟩⟩
    rw [← orphaned_of_skel w w' hs tw _ _ (absNode_isContainer g.hp)]; exact g.horph
  | increase c delta ts =>
    obtain ⟨l, v, h1, h2, h3⟩ := g
    exact ⟨l, v, hn ▸ h1, h2, h3⟩
  | add => exact g
  | move => exact g
  | arraySet => exact g


theorem wrap_idem (l : Bool) (x : Int) : wrap l (wrap l x) = wrap l x := by
  unfold wrap; split <;> simp [Int.bmod_bmod]

theorem wrap_cancel (l : Bool) (v delta : Int) (h : wrap l v = v) :
    wrap l (wrap l (v + delta) + wrap l (-delta)) = v := by
  unfold wrap at h ⊢
  split at h <;> simp only [↓reduceIte, *, Bool.false_eq_true] <;>
  · rw [Int.bmod_add_bmod, Int.add_bmod_bmod]
    rw [show v + delta + -delta = v by omega]; exact h

/-- not an `Add`/`ArraySet` (no re-identification, no twins) -/
def UOp.plain : UOp → Bool
  | .add _ _ _ _ => false
  | .arraySet _ _ _ _ => false
  | _ => true

/-- what one executed operation of the alphabet guarantees -/
structure StepRes (H : Home) (tw : Ticket → Bool) (d : Doc) (op : UOp) (L : Int) (d' : Doc) (rev : UOp) : Prop where
  wf : WF H d'
  bd : Bounded d' L
  skel : ∀ t, skel d' t = skel d t
  node : absNode d' = aexec H (absNode d) op
  good : GoodOp H tw d' rev
  back : aexec H (absNode d') rev = absNode d
  idb : rev.idBound L
  plain : rev.plain = true

theorem step_set {H : Home} {tw : Ticket → Bool} {d : Doc} {L : Int} {src : Source}
    {p : Ticket} {k : String} {val : UVal} {ts0 ts : Ticket}
    (w : WF H d) (bd : Bounded d L) (hL : L < ts.lamport) (hid : val.id.lamport ≤ ts.lamport)
    (g : GoodOp H tw d (.set p k val ts0)) (hsrc : src.needsReverse = true) :
    ∃ d' rev, uexecute d tw src (.set p k val ts) = .ok (d', some rev) ∧
      StepRes H tw d (.set p k val ts0) ts.lamport d' rev := by
  obtain ⟨f, g⟩ := g
  obtain ⟨pe, keys, member, hd, hr, hb, hf⟩ := absNode_obj g.hp
  refine ⟨_, _, uexecute_set bd hL g hsrc hd hb hf, ?_⟩
  have hnode := absNode_setRes (ts := ts) w g hd hr hb hf
  have hskel := skel_setRes (ts := ts) g hd hb hf
  have hwf := WF_setRes (ts := ts) w g hd hr hb hf
  have hpid : p ≠ val.id := by
    intro h
    have := skel_none_iff.1 g.hnc pe (h ▸ hd)
    simp [hb, leafBody] at this
  have hp' : absNode (setRes d p pe keys member k val ts) p =
      some (.obj (fun k' => if k' = k then some val.id else f k')) := by
    rw [hnode]; simp [aset, g.hp, hpid]
  have hid' : absNode (setRes d p pe keys member k val ts) val.id = some (absLeaf val.body) := by
    rw [hnode]; simp [aset, g.hp]
  have horph : orphaned (setRes d p pe keys member k val ts) tw orphanFuel p = false := by
    rw [← orphaned_of_skel w hwf (fun t => (hskel t).symm) tw _ _ (absNode_isContainer g.hp)]; exact g.horph
  refine ⟨hwf, Bounded_setRes g bd hL hid hd hb, hskel, hnode, ?_, ?_, ?_, ?_⟩
  · -- the reverse is executable on the result
    unfold setRev
    cases hfk : f k with
    | none =>
      exact ⟨_, ⟨hp', horph, by simp [g.hkey], ⟨_, hid', absLeaf_isLeaf g.hleaf⟩, g.htw⟩⟩
    | some c =>
      obtain ⟨⟨b, hb', hbl⟩, htwc⟩ := g.hold c hfk
      obtain ⟨ce, hce, hcr, hcl, hbeq⟩ := absNode_leaf hb' hbl
      obtain ⟨hkc, hpc, hlc⟩ := fk_home w hd hr hb hf hfk
      have hcid : c ≠ val.id := by
        intro h; subst h
        have := absNode_none_iff.1 g.hdead; rw [hlc] at this; cases this
      have hcp : c ≠ p := by
        intro h; subst h; rw [hd] at hce; injection hce with hce; subst hce; simp [hb, leafBody] at hcl
      simp only [hce]
      refine ⟨_, ⟨hp', horph, hcl, rfl, rfl, hkc, hpc, htwc, ?_, ?_, ?_⟩⟩
      · rw [hnode]; simp [aset, g.hp, hcid, hcp, hfk]
      · rw [hskel]; exact skel_none_iff.2 (fun e he => by rw [hce] at he; injection he with he; subst he; exact hcl)
      · intro c' hc'
        simp only [if_true, Option.some.injEq] at hc'
        subst hc'
        exact ⟨⟨_, hid', absLeaf_isLeaf g.hleaf⟩, g.htw⟩
  · -- abstractly the reverse undoes the operation
    rw [hnode]
    unfold setRev
    cases hfk : f k with
    | none =>
      simp only [aexec, g.hkey]
      exact aremove_aset g.hp hfk g.hdead
    | some c =>
      obtain ⟨⟨b, hb', hbl⟩, htwc⟩ := g.hold c hfk
      obtain ⟨ce, hce, hcr, hcl, hbeq⟩ := absNode_leaf hb' hbl
      simp only [hce, aexec]
      have hcp : p ≠ c := by
        intro h; subst h; rw [hd] at hce; injection hce with hce; subst hce; simp [hb, leafBody] at hcl
      exact aset_aset g.hp hfk (hbeq ▸ hb') g.hdead hcp
  · unfold setRev
    cases hfk : f k with
    | none => trivial
    | some c =>
      obtain ⟨⟨b, hb', hbl⟩, _⟩ := g.hold c hfk
      obtain ⟨ce, hce, _⟩ := absNode_leaf hb' hbl
      simp only [hce, UOp.idBound]
      have := bd.ent _ _ hce; omega
  · unfold setRev
    cases hfk : f k with
    | none => rfl
    | some c =>
      obtain ⟨⟨b, hb', hbl⟩, _⟩ := g.hold c hfk
      obtain ⟨ce, hce, _⟩ := absNode_leaf hb' hbl
      simp only [hce]; rfl


theorem step_remove {H : Home} {tw : Ticket → Bool} {d : Doc} {L : Int} {src : Source}
    {p u ts0 ts : Ticket}
    (w : WF H d) (bd : Bounded d L) (hL : L < ts.lamport)
    (g : GoodOp H tw d (.remove p u ts0)) (hsrc : src.needsReverse = true) :
    ∃ d' rev, uexecute d tw src (.remove p u ts) = .ok (d', some rev) ∧
      StepRes H tw d (.remove p u ts0) ts.lamport d' rev := by
  obtain ⟨f, g⟩ := g
  obtain ⟨pe, keys, member, hd, hr, hb, hf⟩ := absNode_obj g.hp
  refine ⟨_, _, uexecute_remove w bd hL g hsrc hd hr hb hf, ?_⟩
  obtain ⟨b, hbu, hbl⟩ := g.hleaf
  obtain ⟨ce, hce, hcr, hcl, hbeq⟩ := absNode_leaf hbu hbl
  obtain ⟨_, hparu, _⟩ := fk_home w hd hr hb hf g.hk
  have hpu : p ≠ u := by
    intro h; subst h; rw [hd] at hce; injection hce with hce; subst hce; simp [hb, leafBody] at hcl
  have hnc : skel d u = none :=
    skel_none_iff.2 (fun e he => by rw [hce] at he; injection he with he; subst he; exact hcl)
  have hnode := absNode_kill w g hd hr hb hf
  have hskel := skel_kill_leaf hnc
  have hwf := WF_kill w (some u)
  have hp' : absNode (kill d (some u)) p = some (.obj (fun k' => if k' = H.key u then none else f k')) := by
    rw [hnode]; simp [aremove, g.hp, hpu]
  have hu' : absNode (kill d (some u)) u = none := by
    rw [hnode]; simp [aremove, g.hp]
  refine ⟨hwf, (Bounded_kill bd _).mono (by omega), hskel, hnode, ?_, ?_, ?_, ?_⟩
  · unfold removeRev
    simp only [hce]
    refine ⟨_, ⟨hp', ?_, hcl, rfl, rfl, rfl, hparu, g.htw, hu', ?_, ?_⟩⟩
    · rw [← orphaned_of_skel w hwf (fun t => (hskel t).symm) tw _ _ (absNode_isContainer g.hp)]; exact g.horph
    · rw [hskel]; exact hnc
    · intro c hc; simp at hc
  · rw [hnode]
    unfold removeRev
    simp only [hce, aexec]
    exact aset_aremove g.hp g.hk (hbeq ▸ hbu) hpu
  · unfold removeRev
    simp only [hce, UOp.idBound]
    have := bd.ent _ _ hce; omega
  · unfold removeRev; simp only [hce]; rfl

theorem step_increase {H : Home} {tw : Ticket → Bool} {d : Doc} {L : Int} {src : Source}
    {c : Ticket} {delta : Int} {ts0 ts : Ticket}
    (w : WF H d) (bd : Bounded d L) (hL : L < ts.lamport)
    (g : GoodOp H tw d (.increase c delta ts0)) (hsrc : src.needsReverse = true) :
    ∃ d' rev, uexecute d tw src (.increase c delta ts) = .ok (d', some rev) ∧
      StepRes H tw d (.increase c delta ts0) ts.lamport d' rev := by
  obtain ⟨l, v, hc, hwd, hwv⟩ := g
  obtain ⟨ce, hce, hcr, hcb⟩ := absNode_cnt hc
  have hl : leafBody ce.body = true := by simp [hcb, leafBody]
  refine ⟨_, _, uexecute_increase hsrc hce hcb, ?_⟩
  have hnode := absNode_increase (delta := delta) hce hcr hcb
  have hc' : absNode (d.set c { ce with body := .counter l (wrap l (v + delta)) }) c =
      some (.cnt l (wrap l (v + delta))) := by
    rw [hnode]; simp [ainc, hc]
  refine ⟨WF_setLeaf w hce hl rfl, (Bounded_setLeaf bd hce hl rfl).mono (by omega),
    skel_setLeaf hce hl rfl, hnode, ⟨l, _, hc', wrap_idem _ _, wrap_idem _ _⟩, ?_, trivial, rfl⟩
  rw [hnode]
  funext t
  simp only [aexec, ainc]
  by_cases h : t = c
  · subst h; simp [hc, wrap_cancel l v delta hwv]
  · simp [h]

/-- one operation of the alphabet executed with a fresh ticket -/
theorem step_good {H : Home} {tw : Ticket → Bool} {d : Doc} {L : Int} {src : Source} {op : UOp} {ts : Ticket}
    (w : WF H d) (bd : Bounded d L) (hL : L < ts.lamport) (hid : op.idBound ts.lamport)
    (g : GoodOp H tw d op) (hsrc : src.needsReverse = true) :
    ∃ d' rev, uexecute d tw src (op.withTs ts) = .ok (d', some rev) ∧ StepRes H tw d op ts.lamport d' rev := by
  cases op with
  | set p k val ts0 => exact step_set w bd hL hid g hsrc
  | remove p u ts0 => exact step_remove w bd hL g hsrc
  | increase c delta ts0 => exact step_increase w bd hL g hsrc
  | add => exact g.elim
  | move => exact g.elim
  | arraySet => exact g.elim

end Yorkie.Undo
