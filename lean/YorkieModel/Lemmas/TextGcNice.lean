/-
Text garbage collection, part 7: `purge vv (exec o t)` and `exec o (purge vv t)` have the same
abstraction (`purge_exec_comm`).  Needs, besides the hypotheses of `purge_safe`, that the vector does
not cover the operation's own ticket (it is not applied yet) and causal stability (the operation has
seen every deletion the purge removes, so it does not overwrite those tombstones).  The proof tracks
where the nodes of the result come from (`origin_exec`).  Core Lean only.
-/
import YorkieModel.Lemmas.TextGcObs
set_option linter.unusedSimpArgs false
namespace Yorkie.TextConv
open Yorkie Yorkie.Text Yorkie.Convergence

/-- `x` is a piece of `m` -/
def PieceOf (m x : TNode) : Prop := x.id.1 = m.id.1 ∧ m.id.2 ≤ x.id.2 ∧ x.id.2 + x.len ≤ m.id.2 + m.len

theorem PieceOf.refl (m : TNode) : PieceOf m m := ⟨rfl, Nat.le_refl _, Nat.le_refl _⟩

theorem PieceOf.trans {a b c : TNode} (h1 : PieceOf a b) (h2 : PieceOf b c) : PieceOf a c :=
  ⟨h2.1.trans h1.1, Nat.le_trans h1.2.1 h2.2.1, Nat.le_trans h2.2.2 h1.2.2⟩

/-- how `removedAt` may change in one operation with ticket `ts` and vector `vvo` -/
def RmStep (ts : Ticket) (vvo : Option VV) (a b : Option Ticket) : Prop :=
  b = a ∨ (b = some ts ∧ (a = none ∨ ∃ r, a = some r ∧ known vvo r = false))

theorem origin_splitNode {s : TextSt} {n : TNode} (hn : n ∈ s) {k : Nat} (h0 : 0 < k) (hk : k < n.len)
    {x : TNode} (hx : x ∈ splitNode s n k) : ∃ m ∈ s, PieceOf m x ∧ x.removedAt = m.removedAt := by
  rcases (mem_splitNode hn h0 hk).1 hx with rfl | ⟨m, hm, rfl⟩
  · refine ⟨n, hn, ⟨rfl, ?_, ?_⟩, rfl⟩
    · show n.id.2 ≤ n.id.2 + k; omega
    · rw [rightPart_len]; show n.id.2 + k + (n.len - k) ≤ n.id.2 + n.len; omega
  · refine ⟨m, hm, ⟨by simp, by simp, ?_⟩, by simp⟩
    have := splitMap_len_le n k m
    simp only [splitMap_id]; omega

theorem origin_fnws {s : TextSt} {pos : Pos} {ts : Ticket} {s1 : TextSt} {l : Id} {r : Option Id}
    (h : findNodeWithSplit s pos ts = .ok (s1, l, r)) {x : TNode} (hx : x ∈ s1) :
    ∃ m ∈ s, PieceOf m x ∧ x.removedAt = m.removedAt := by
  rcases fnws_cases h with rfl | ⟨n, hn, k, h0, hk, rfl⟩
  · exact ⟨x, hx, PieceOf.refl x, rfl⟩
  · exact origin_splitNode hn h0 hk hx

theorem removeNode_rmStep (ts : Ticket) (vvo : Option VV) (n : TNode) :
    RmStep ts vvo n.removedAt (removeNode ts vvo n).removedAt := by
  unfold removeNode
  split
  · exact Or.inl rfl
  · cases hr : n.removedAt with
    | none => exact Or.inr ⟨rfl, Or.inl rfl⟩
    | some r =>
      simp only
      split
      · rename_i hc
        simp only [Bool.and_eq_true, Bool.not_eq_true'] at hc
        exact Or.inr ⟨rfl, Or.inr ⟨r, rfl, hc.1⟩⟩
      · exact Or.inl hr

theorem removeNode_piece (ts : Ticket) (vvo : Option VV) (n : TNode) : PieceOf n (removeNode ts vvo n) := by
  have h := keeps_removeNode ts vvo n
  refine ⟨by rw [h.1], by rw [h.1]; exact Nat.le_refl _, ?_⟩
  rw [h.1]; unfold TNode.len; rw [h.2.1]; exact Nat.le_refl _

/-- where the nodes of the result of an edit come from -/
theorem origin_edit {s s' : TextSt} {fr to : Pos} {content : List Nat} {attrs : List (String × String)}
    {ts : Ticket} {vvo : Option VV} (h : edit fr to content attrs ts vvo s = .ok s') {x : TNode} (hx : x ∈ s') :
    x = newNode ts content attrs ∨ ∃ m ∈ s, PieceOf m x ∧ RmStep ts vvo m.removedAt x.removedAt := by
  unfold edit at h
  split at h
  · cases h
  · rename_i s1 l1 toRight h1
    split at h
    · cases h
    · rename_i s2 fromLeft fromRight h2
      have o3 : ∀ y ∈ s2.map (applyTo (between s2 fromRight toRight) (removeNode ts vvo)),
          ∃ m ∈ s, PieceOf m y ∧ RmStep ts vvo m.removedAt y.removedAt := by
        intro y hy
        obtain ⟨z, hz, rfl⟩ := List.mem_map.1 hy
        obtain ⟨m2, hm2, p2, r2⟩ := origin_fnws h2 hz
        obtain ⟨m1, hm1, p1, r1⟩ := origin_fnws h1 hm2
        refine ⟨m1, hm1, ?_, ?_⟩
        · unfold applyTo; split
          · exact (p1.trans p2).trans (removeNode_piece ts vvo z)
          · exact p1.trans p2
        · rw [← r1, ← r2]
          unfold applyTo; split
          · exact removeNode_rmStep ts vvo z
          · exact Or.inl rfl
      simp only at h
      split at h
      · injection h with h; subst h; exact Or.inr (o3 x hx)
      · injection h with h; subst h
        rcases mem_insertAfterId_imp hx with rfl | hx
        · exact Or.inl rfl
        · exact Or.inr (o3 x hx)

theorem origin_styleWith {s s' : TextSt} {fr to : Pos} {g : List AttrNode → List AttrNode} {ts : Ticket}
    {vvo : Option VV} (h : styleWith fr to g ts vvo s = .ok s') {x : TNode} (hx : x ∈ s') :
    ∃ m ∈ s, PieceOf m x ∧ x.removedAt = m.removedAt := by
  unfold styleWith at h
  split at h
  · cases h
  · rename_i s1 l1 toRight h1
    split at h
    · cases h
    · rename_i s2 fromLeft fromRight h2
      injection h with h; subst h
      obtain ⟨z, hz, rfl⟩ := List.mem_map.1 hx
      obtain ⟨m2, hm2, p2, r2⟩ := origin_fnws h2 hz
      obtain ⟨m1, hm1, p1, r1⟩ := origin_fnws h1 hm2
      have hk := keeps_applyTo (keeps_styleNode ts vvo g) (between s2 fromRight toRight) z
      refine ⟨m1, hm1, ?_, ?_⟩
      · refine (p1.trans p2).trans ⟨by rw [hk.1], by rw [hk.1]; exact Nat.le_refl _, ?_⟩
        rw [hk.1]; unfold TNode.len; rw [hk.2.1]; exact Nat.le_refl _
      · rw [← r1, ← r2]
        unfold applyTo; split
        · exact styleNode_removedAt ts vvo g z
        · rfl

theorem origin_styleOp {s s' : TextSt} {fr to : Pos} {attrs : List (String × String)} {keys : List String}
    {ts : Ticket} {vvo : Option VV} (h : styleOp fr to attrs keys ts vvo s = .ok s') {x : TNode} (hx : x ∈ s') :
    ∃ m ∈ s, PieceOf m x ∧ x.removedAt = m.removedAt := by
  unfold styleOp at h
  split at h
  · cases h
  · rename_i s1 h1
    have o1 : ∀ y ∈ s1, ∃ m ∈ s, PieceOf m y ∧ y.removedAt = m.removedAt := by
      intro y hy
      split at h1
      · injection h1 with h1; subst h1; exact ⟨y, hy, PieceOf.refl y, rfl⟩
      · exact origin_styleWith h1 hy
    split at h
    · injection h with h; subst h; exact o1 x hx
    · obtain ⟨m2, hm2, p2, r2⟩ := origin_styleWith h hx
      obtain ⟨m1, hm1, p1, r1⟩ := o1 m2 hm2
      exact ⟨m1, hm1, p1.trans p2, r2.trans r1⟩

/-- where the nodes of the result of an operation come from -/
theorem origin_exec {s s' : TextSt} {o : TOp} (h : exec o s = .ok s') {x : TNode} (hx : x ∈ s') :
    (x.removedAt = none ∧ x.id.1 = o.ts) ∨
      ∃ m ∈ s, PieceOf m x ∧ RmStep o.ts (some o.vv) m.removedAt x.removedAt := by
  unfold exec at h
  cases hb : o.body with
  | edit content attrs =>
    rw [hb] at h
    rcases origin_edit h hx with rfl | h'
    · exact Or.inl ⟨rfl, rfl⟩
    · exact Or.inr h'
  | style attrs keys =>
    rw [hb] at h
    obtain ⟨m, hm, p, r⟩ := origin_styleOp h hx
    exact Or.inr ⟨m, hm, p, Or.inl r⟩

theorem mem_cids_absNode_iff {n : TNode} {i : Id} :
    i ∈ cids (absNode n) ↔ i.1 = n.id.1 ∧ n.id.2 ≤ i.2 ∧ i.2 < n.id.2 + n.len := by
  constructor
  · intro h
    obtain ⟨c, hc, e⟩ := List.mem_map.1 h
    obtain ⟨h1, h2, h3, _⟩ := mem_absNode hc
    rw [e] at h1 h2 h3; exact ⟨h1, h2, h3⟩
  · rintro ⟨h1, h2, h3⟩
    have := mem_cids_absNode (n := n) (j := i.2) h2 h3
    rw [← h1] at this; exact this

/-- **the purge sets before and after an operation agree** on the cells of the result -/
theorem keepOf_exec {vv : VV} {t t' : TextSt} (wf : WFg t) {o : TOp} (h : exec o t = .ok t')
    (hfresh : Fresh t o.ts)
    (hnot : vv.equalToOrAfter o.ts = false)
    (hstable : ∀ n ∈ t, purgeable vv n = true → ∀ r, n.removedAt = some r → knownB o.vv r = true)
    {i : Id} (hi : i ∈ cids (abs t')) : keepOf vv t' i = keepOf vv t i := by
  have pur : ∀ {n : TNode} {r : Ticket}, n.removedAt = some r → (purgeable vv n = vv.equalToOrAfter r) := by
    intro n r hr; unfold purgeable; rw [hr]
  have fwd : i ∈ purgedCids vv t' → i ∈ purgedCids vv t := by
    intro hp
    obtain ⟨x, hx, hxp, hix⟩ := mem_purgedCids.1 hp
    rcases origin_exec h hx with ⟨hnone, _⟩ | ⟨m, hm, pc, rs⟩
    · have := purgeable_removed hxp; rw [hnone] at this; cases this
    · have him : i ∈ cids (absNode m) := by
        obtain ⟨a1, a2, a3⟩ := mem_cids_absNode_iff.1 hix
        exact mem_cids_absNode_iff.2 ⟨a1.trans pc.1, Nat.le_trans pc.2.1 a2, by have := pc.2.2; omega⟩
      refine mem_purgedCids.2 ⟨m, hm, ?_, him⟩
      rcases rs with e | ⟨e, _⟩
      · unfold purgeable at hxp ⊢; rw [← e]; exact hxp
      · rw [pur e, hnot] at hxp; cases hxp
  have bwd : i ∈ purgedCids vv t → i ∈ purgedCids vv t' := by
    intro hp
    obtain ⟨m, hm, hmp, him⟩ := mem_purgedCids.1 hp
    obtain ⟨x, hx, h1, h2, h3⟩ := block_of_cell hi
    have hix : i ∈ cids (absNode x) := mem_cids_absNode_iff.2 ⟨h1.symm, h2, h3⟩
    rcases origin_exec h hx with ⟨_, hts⟩ | ⟨m', hm', pc, rs⟩
    · -- a new cell cannot be an old one: its ticket is fresh
      exfalso
      obtain ⟨a1, _, _⟩ := mem_cids_absNode_iff.1 him
      exact hfresh m hm (by rw [← a1, ← h1, hts])
    · have him' : i ∈ cids (absNode m') := by
        obtain ⟨a1, a2, a3⟩ := mem_cids_absNode_iff.1 hix
        exact mem_cids_absNode_iff.2 ⟨a1.trans pc.1, Nat.le_trans pc.2.1 a2, by have := pc.2.2; omega⟩
      obtain ⟨a1, a2, a3⟩ := mem_cids_absNode_iff.1 him
      obtain ⟨b1, b2, b3⟩ := mem_cids_absNode_iff.1 him'
      have : m = m' := block_unique wf hm hm' (t := i.1) (j := i.2) a1.symm a2 a3 b1.symm b2 b3
      subst this
      refine mem_purgedCids.2 ⟨x, hx, ?_, hix⟩
      rcases rs with e | ⟨_, e⟩
      · unfold purgeable at hmp ⊢; rw [e]; exact hmp
      · exfalso
        rcases e with e | ⟨r, e, hk⟩
        · have := purgeable_removed hmp; rw [e] at this; cases this
        · have := hstable m hm hmp r e
          unfold knownB at this; rw [this] at hk; cases hk
  unfold keepOf
  cases h1 : (purgedCids vv t').contains i <;> cases h2 : (purgedCids vv t).contains i
  · rfl
  · have := bwd (List.contains_iff_mem.1 h2)
    rw [List.contains_iff_mem.2 this] at h1; cases h1
  · have := fwd (List.contains_iff_mem.1 h1)
    rw [List.contains_iff_mem.2 this] at h2; cases h2
  · rfl

/-- **(b), in the form "purge and operation commute up to `abs`"** -/
theorem purge_exec_comm {vv : VV} {t : TextSt} (inv : GcInv t) {d : TState} (hd : abs t = d.cells)
    {o : TOp} (hp : Pre d o)
    (hanch : ∀ i, anchorOf o.fr = some i ∨ anchorOf o.to = some i → keepOf vv t i = true)
    (hsafe : o.aop.X = [] ∨ SafeSkip o.ts (keepOf vv t) (dropAfterO (anchorOf o.fr) (cids (abs t))))
    (hnot : vv.equalToOrAfter o.ts = false)
    (hstable : ∀ n ∈ t, purgeable vv n = true → ∀ r, n.removedAt = some r → knownB o.vv r = true) :
    ∃ t' g', exec o t = .ok t' ∧ exec o (purge vv t) = .ok g' ∧ abs g' = abs (purge vv t') := by
  have ginv := gcInv_purge inv vv
  obtain ⟨t', g', h1, h2, w1, _, _, a2, _⟩ :=
    op_safe inv.wf ginv.wf hd (purge_abs_keep inv.wf vv) (erasure_keepOf inv.wf vv) hp hanch hsafe
  refine ⟨t', g', h1, h2, ?_⟩
  rw [a2, purge_abs_keep w1]
  unfold fkeep
  apply List.filter_congr
  intro c hc
  have hfresh := (pre_facts inv.wf hd hp).2.2.1
  rw [keepOf_exec inv.wf h1 hfresh hnot hstable (mem_cids_of_mem hc)]

/-! ### `SafeSkip` is the weakest condition, and a purge rule that guarantees it -/

theorem safeAfter_of_insSkip {ts : Ticket} {keep : Id → Bool} {X : Cells} (hX : X ≠ [])
    {r : Cells} (hdis : ∀ x ∈ X, ∀ c ∈ r, x.id ≠ c.id)
    (h : insSkip ts X (fkeep keep r) = X ++ fkeep keep r) : SafeAfter ts keep (cids r) := by
  induction r with
  | nil => rfl
  | cons c r ih =>
    unfold SafeAfter
    simp only [cids_cons, safeAfter]
    by_cases hk : keep c.id = true
    · rw [if_pos hk]
      have e : fkeep keep (c :: r) = c :: fkeep keep r := by unfold fkeep; rw [List.filter_cons, if_pos hk]
      rw [e] at h
      cases hn : c.id.1.after ts with
      | false => rfl
      | true =>
        exfalso
        rw [insSkip_cons_pos hn] at h
        cases X with
        | nil => exact hX rfl
        | cons x X' =>
          simp only [List.cons_append, List.cons.injEq] at h
          exact hdis x (by simp) c (by simp) (by rw [h.1])
    · rw [if_neg hk]
      have e : fkeep keep (c :: r) = fkeep keep r := by unfold fkeep; rw [List.filter_cons, if_neg hk]
      rw [e] at h
      exact ih (fun x hx c' hc' => hdis x hx c' (List.mem_cons_of_mem _ hc')) h

/-- **`SafeSkip` is necessary**: whenever the insertion of non-empty, kept, fresh cells commutes with
    the erasure, the skip scan was safe.  Together with `insSkip_fkeep` the side condition of
    `purge_safe_partial` is exactly the set of states on which the commutation holds. -/
theorem safeSkip_of_insSkip_fkeep {ts : Ticket} {keep : Id → Bool} {X : Cells} (hX : X ≠ [])
    (hkeep : ∀ x ∈ X, keep x.id = true) {r : Cells} (hdis : ∀ x ∈ X, ∀ c ∈ r, x.id ≠ c.id)
    (h : insSkip ts X (fkeep keep r) = fkeep keep (insSkip ts X r)) : SafeSkip ts keep (cids r) := by
  induction r with
  | nil => rfl
  | cons c r ih =>
    unfold SafeSkip
    simp only [cids_cons, safeSkip]
    have hdis' : ∀ x ∈ X, ∀ c' ∈ r, x.id ≠ c'.id := fun x hx c' hc' => hdis x hx c' (List.mem_cons_of_mem _ hc')
    by_cases hn : c.id.1.after ts = true
    · rw [if_pos hn]
      rw [insSkip_cons_pos hn] at h
      by_cases hk : keep c.id = true
      · have e1 : fkeep keep (c :: r) = c :: fkeep keep r := by unfold fkeep; rw [List.filter_cons, if_pos hk]
        have e2 : fkeep keep (c :: insSkip ts X r) = c :: fkeep keep (insSkip ts X r) := by
          unfold fkeep; rw [List.filter_cons, if_pos hk]
        rw [e1, e2, insSkip_cons_pos hn] at h
        injection h with _ h
        exact ih hdis' h
      · have e1 : fkeep keep (c :: r) = fkeep keep r := by unfold fkeep; rw [List.filter_cons, if_neg hk]
        have e2 : fkeep keep (c :: insSkip ts X r) = fkeep keep (insSkip ts X r) := by
          unfold fkeep; rw [List.filter_cons, if_neg hk]
        rw [e1, e2] at h
        exact ih hdis' h
    · rw [if_neg hn]
      by_cases hk : keep c.id = true
      · rw [if_pos hk]
      · rw [if_neg hk]
        rw [insSkip_cons_neg hn, fkeep_append, fkeep_all hkeep] at h
        have e1 : fkeep keep (c :: r) = fkeep keep r := by unfold fkeep; rw [List.filter_cons, if_neg hk]
        rw [e1] at h
        exact safeAfter_of_insSkip hX hdis' h

/-- after every erased identity the next kept one is not newer than `ts` -/
def rightOld (ts : Ticket) (keep : Id → Bool) : List Id → Bool
  | [] => true
  | i :: r => (keep i || safeAfter ts keep r) && rightOld ts keep r

/-- a sufficient purge rule: if the first survivor to the right of every erased run is not newer than
    the operation, the scan is safe wherever it starts -/
theorem safeSkip_of_rightOld {ts : Ticket} {keep : Id → Bool} {L : List Id} (h : rightOld ts keep L = true) :
    SafeSkip ts keep L := by
  induction L with
  | nil => rfl
  | cons i r ih =>
    simp only [rightOld, Bool.and_eq_true, Bool.or_eq_true] at h
    unfold SafeSkip
    simp only [safeSkip]
    split
    · exact ih h.2
    · split
      · rfl
      · rename_i hk
        rcases h.1 with h1 | h1
        · exact absurd h1 hk
        · exact h1

theorem rightOld_dropAfter {ts : Ticket} {keep : Id → Bool} {L : List Id} (h : rightOld ts keep L = true)
    (f : Id) : rightOld ts keep (dropAfter f L) = true := by
  induction L with
  | nil => rfl
  | cons i r ih =>
    simp only [rightOld, Bool.and_eq_true] at h
    unfold dropAfter
    split
    · exact h.2
    · exact ih h.2

/-- **fix candidate, the condition that suffices**: erase a tombstone only when the vector also covers
    the creation of the first survivor to its right (`hright`); a later-arriving operation has seen
    everything the vector covers (`hseen`, causal stability) and nothing it has seen is newer than its
    own ticket (`hold`, part of `Static`); then `SafeSkip` holds after every anchor -/
theorem safeSkip_of_covered_right {vv : VV} {ts : Ticket} {keep : Id → Bool} {L : List Id}
    (hold : ∀ t : Ticket, vv.equalToOrAfter t = true → t.after ts = false)
    (hright : ∀ A e B, L = A ++ e :: B → keep e = false →
      ∀ K i B', B = K ++ i :: B' → (∀ k ∈ K, keep k = false) → keep i = true → vv.equalToOrAfter i.1 = true)
    (a : Option Id) : SafeSkip ts keep (dropAfterO a L) := by
  have after : ∀ B : List Id, (∀ K i B', B = K ++ i :: B' → (∀ k ∈ K, keep k = false) → keep i = true →
      vv.equalToOrAfter i.1 = true) → safeAfter ts keep B = true := by
    intro B
    induction B with
    | nil => intro _; rfl
    | cons i r ih =>
      intro h
      simp only [safeAfter]
      split
      · rename_i hk
        have := hold i.1 (h [] i r rfl (by intro k hk'; cases hk') hk)
        simp [this]
      · rename_i hk
        apply ih
        intro K j B' e hK hj
        exact h (i :: K) j B' (by rw [e]; rfl) (by
          intro k hk'
          rcases List.mem_cons.1 hk' with rfl | hk'
          · simpa using hk
          · exact hK k hk') hj
  have ro : rightOld ts keep L = true := by
    induction L with
    | nil => rfl
    | cons e r ih =>
      simp only [rightOld, Bool.and_eq_true, Bool.or_eq_true]
      refine ⟨?_, ih (fun A e' B hL hk => hright (e :: A) e' B (by rw [hL]; rfl) hk)⟩
      by_cases hk : keep e = true
      · exact Or.inl hk
      · exact Or.inr (after r (hright [] e r rfl (by simpa using hk)))
  cases a with
  | none => exact safeSkip_of_rightOld ro
  | some f => exact safeSkip_of_rightOld (rightOld_dropAfter ro f)

end Yorkie.TextConv
