/-
Lemmas for C14, part 10: a hand-built heap with an array, `{"arr":[1,2]}`, and the proof that it
satisfies the hypotheses of the array theorems (used by the non-vacuity examples of Props/C14.lean).
-/
import YorkieModel.Lemmas.UndoArray
namespace Yorkie.Undo.Example
open Yorkie Yorkie.Crdt Yorkie.Undo

def tA : Ticket := ⟨1, 1, 0⟩
def tX : Ticket := ⟨2, 1, 0⟩
def tY : Ticket := ⟨3, 1, 0⟩
def eRoot : Elem := ⟨none, false, .obj ["arr"] (fun k => if k = "arr" then some ⟨tA, tA⟩ else none)⟩
def eArr : Elem := ⟨some rootId, false, .arr [⟨tX, some tX⟩, ⟨tY, some tY⟩] (fun _ => none)⟩
def eX : Elem := ⟨some tA, false, .prim "1"⟩
def eY : Elem := ⟨some tA, false, .prim "2"⟩
/-- `{"arr":[1,2]}` -/
def dArr : Doc := fun t => if t = rootId then some eRoot else if t = tA then some eArr else if t = tX then some eX
  else if t = tY then some eY else none
def hArr : Hist := { doc := dArr, lamport := 3 }
def HArr : Home := { par := fun t => if t = rootId then none else if t = tA then some rootId else some tA, key := fun _ => "arr" }


theorem dArr_cases {t : Ticket} {e : Elem} (h : dArr t = some e) :
    (t = rootId ∧ e = eRoot) ∨ (t = tA ∧ e = eArr) ∨ (t = tX ∧ e = eX) ∨ (t = tY ∧ e = eY) := by
  unfold dArr at h
  split at h
  · exact Or.inl ⟨‹_›, (Option.some.inj h).symm⟩
  · split at h
    · exact Or.inr (Or.inl ⟨‹_›, (Option.some.inj h).symm⟩)
    · split at h
      · exact Or.inr (Or.inr (Or.inl ⟨‹_›, (Option.some.inj h).symm⟩))
      · split at h
        · exact Or.inr (Or.inr (Or.inr ⟨‹_›, (Option.some.inj h).symm⟩))
        · cases h

theorem wf_dArr : WF HArr dArr := by
  constructor
  · intro t e h
    rcases dArr_cases h with ⟨rfl, rfl⟩ | ⟨rfl, rfl⟩ | ⟨rfl, rfl⟩ | ⟨rfl, rfl⟩ <;> decide
  · intro t e q h hq
    rcases dArr_cases h with ⟨rfl, rfl⟩ | ⟨rfl, rfl⟩ | ⟨rfl, rfl⟩ | ⟨rfl, rfl⟩ <;>
      simp [HArr, tA, tX, tY, rootId] at hq <;> subst hq <;> decide
  · intro p pe keys m h hb
    rcases dArr_cases h with ⟨rfl, rfl⟩ | ⟨rfl, rfl⟩ | ⟨rfl, rfl⟩ | ⟨rfl, rfl⟩ <;>
      simp [eRoot, eArr, eX, eY] at hb
    rw [← hb.1]; simp
  · intro p pe keys m k mm h _ hb hm
    rcases dArr_cases h with ⟨rfl, rfl⟩ | ⟨rfl, rfl⟩ | ⟨rfl, rfl⟩ | ⟨rfl, rfl⟩ <;>
      simp [eRoot, eArr, eX, eY] at hb
    obtain ⟨rfl, rfl⟩ := hb
    by_cases hk : k = "arr"
    · simp [hk] at hm; subst hm; subst hk; decide
    · simp [hk] at hm
  · intro x xe nodes mv n c h _ hb hn hc
    rcases dArr_cases h with ⟨rfl, rfl⟩ | ⟨rfl, rfl⟩ | ⟨rfl, rfl⟩ | ⟨rfl, rfl⟩ <;>
      simp [eRoot, eArr, eX, eY] at hb
    obtain ⟨rfl, rfl⟩ := hb
    simp at hn
    rcases hn with rfl | rfl <;> simp at hc <;> subst hc <;> decide

theorem bounded_dArr : Bounded dArr 3 := by
  constructor
  · intro t e h
    rcases dArr_cases h with ⟨rfl, rfl⟩ | ⟨rfl, rfl⟩ | ⟨rfl, rfl⟩ | ⟨rfl, rfl⟩ <;> decide
  · intro p pe keys m k mm h hb hm
    rcases dArr_cases h with ⟨rfl, rfl⟩ | ⟨rfl, rfl⟩ | ⟨rfl, rfl⟩ | ⟨rfl, rfl⟩ <;>
      simp [eRoot, eArr, eX, eY] at hb
    obtain ⟨rfl, rfl⟩ := hb
    by_cases hk : k = "arr"
    · simp [hk] at hm; subst hm; decide
    · simp [hk] at hm
  · intro p pe keys m k mm h hb hm
    rcases dArr_cases h with ⟨rfl, rfl⟩ | ⟨rfl, rfl⟩ | ⟨rfl, rfl⟩ | ⟨rfl, rfl⟩ <;>
      simp [eRoot, eArr, eX, eY] at hb
    obtain ⟨rfl, rfl⟩ := hb
    by_cases hk : k = "arr"
    · simp [hk] at hm; subst hm; decide
    · simp [hk] at hm
  · intro x xe nodes mv n c h hb hn hc
    rcases dArr_cases h with ⟨rfl, rfl⟩ | ⟨rfl, rfl⟩ | ⟨rfl, rfl⟩ | ⟨rfl, rfl⟩ <;>
      simp [eRoot, eArr, eX, eY] at hb
    obtain ⟨rfl, rfl⟩ := hb
    simp at hn
    rcases hn with rfl | rfl <;> simp at hc <;> subst hc <;> decide

theorem fresh_hArr : Fresh hArr :=
  ⟨⟨HArr, wf_dArr⟩, bounded_dArr, (by decide)⟩

/-- the second element of the example array can be deleted and restored -/
theorem arrDel_hArr : ArrDel hArr tA tY eArr eY [⟨tX, some tX⟩, ⟨tY, some tY⟩] (fun _ => none) := by
  refine ⟨rfl, rfl, rfl, rfl, rfl, rfl, by decide, ?_, by decide, by decide, by decide⟩
  intro a ha b hb hae hbe
  simp at ha hb
  rcases ha with rfl | rfl <;> rcases hb with rfl | rfl <;> first | rfl | (simp [tX, tY] at hae hbe)

end Yorkie.Undo.Example
