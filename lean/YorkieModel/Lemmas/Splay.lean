/- Helper lemmas about Model/Splay.lean (in-order sequence, weights, stale weights). -/
import YorkieModel.Model.Splay
namespace Yorkie.Splay
open T

/-! ### lists of (id, len) -/

/-- sum of the lens -/
def sumLen : List (Nat × Nat) → Nat
  | [] => 0
  | e :: r => e.2 + sumLen r

@[simp] theorem sumLen_nil : sumLen [] = 0 := rfl
@[simp] theorem sumLen_cons (e : Nat × Nat) (r) : sumLen (e :: r) = e.2 + sumLen r := rfl
@[simp] theorem sumLen_append (a b : List (Nat × Nat)) : sumLen (a ++ b) = sumLen a + sumLen b := by
  induction a with
  | nil => simp
  | cons e r ih => simp [ih]; omega

/-- two-at-a-time induction on lists (the splay loop consumes two frames per iteration) -/
theorem list_two_step {α} {P : List α → Prop} (h0 : P []) (h1 : ∀ a, P [a])
    (h2 : ∀ a b l, P l → P (a :: b :: l)) : ∀ l, P l := by
  intro l
  have : P l ∧ ∀ a, P (a :: l) := by
    induction l with
    | nil => exact ⟨h0, h1⟩
    | cons b l ih => exact ⟨ih.2 b, fun a => h2 a b l ih.1⟩
  exact this.1

/-! ### basic facts -/

@[simp] theorem toList_nil : toList nil = [] := rfl
@[simp] theorem toList_node (l id len w r) :
    toList (node l id len w r) = l.toList ++ (id, len) :: r.toList := rfl
@[simp] theorem weight_nil : weight nil = 0 := rfl
@[simp] theorem weight_node (l id len w r) : weight (node l id len w r) = w := rfl
@[simp] theorem toList_mk (l id len r) : toList (mk l id len r) = l.toList ++ (id, len) :: r.toList := rfl
@[simp] theorem weight_mk (l id len r) : weight (mk l id len r) = len + l.weight + r.weight := rfl
@[simp] theorem ids_nil : ids nil = [] := rfl
@[simp] theorem ids_node (l id len w r) : ids (node l id len w r) = l.ids ++ id :: r.ids := by
  simp [ids]
@[simp] theorem ids_mk (l id len r) : ids (mk l id len r) = l.ids ++ id :: r.ids := by
  simp [mk]

theorem ids_eq_of_toList {s t : T} (h : s.toList = t.toList) : s.ids = t.ids := by simp [ids, h]

@[simp] theorem wf_nil : wf nil := trivial
@[simp] theorem wf_node (l id len w r) :
    wf (node l id len w r) ↔ l.wf ∧ r.wf ∧ w = len + l.weight + r.weight := Iff.rfl
@[simp] theorem wf_mk (l id len r) : wf (mk l id len r) ↔ l.wf ∧ r.wf := by simp [mk]

@[simp] theorem toList_refresh (t : T) : t.refresh.toList = t.toList := by
  cases t <;> simp [T.refresh]

@[simp] theorem toList_rotR (t : T) : (rotR t).toList = t.toList := by
  unfold rotR; split <;> simp

@[simp] theorem toList_rotL (t : T) : (rotL t).toList = t.toList := by
  unfold rotL; split <;> simp

theorem wf_weight {t : T} (h : t.wf) : t.weight = sumLen t.toList := by
  induction t with
  | nil => rfl
  | node l id len w r ihl ihr =>
    obtain ⟨hl, hr, hw⟩ := h
    simp [hw, ihl hl, ihr hr]; omega

theorem wf_refresh {t : T} (h : t.wf) : t.refresh.wf := by
  cases t with
  | nil => trivial
  | node l id len w r => simp [T.refresh]; exact ⟨h.1, h.2.1⟩

theorem wf_rotR {t : T} (h : t.wf) : (rotR t).wf := by
  unfold rotR; split
  · simp_all
  · exact h

theorem wf_rotL {t : T} (h : t.wf) : (rotL t).wf := by
  unfold rotL; split
  · simp_all
  · exact h

/-! ### the zipper -/

theorem toList_plug_congr {s s' : T} (h : s.toList = s'.toList) (p : List Frame) :
    (plug s p).toList = (plug s' p).toList := by
  induction p generalizing s s' with
  | nil => exact h
  | cons f p ih => cases f <;> exact ih (by simp [h])

/-- elements before / after the focus -/
def lefts : List Frame → List (Nat × Nat)
  | [] => []
  | .inL .. :: p => lefts p
  | .inR l id len _ :: p => lefts p ++ l.toList ++ [(id, len)]

def rights : List Frame → List (Nat × Nat)
  | [] => []
  | .inL id len _ r :: p => (id, len) :: r.toList ++ rights p
  | .inR .. :: p => rights p

theorem toList_plug (s : T) (p : List Frame) :
    (plug s p).toList = lefts p ++ s.toList ++ rights p := by
  induction p generalizing s with
  | nil => simp [plug, lefts, rights]
  | cons f p ih => cases f <;> simp [plug, lefts, rights, ih]

theorem toList_splayUp (X : T) (p : List Frame) : (splayUp X p).toList = (plug X p).toList := by
  induction p using list_two_step generalizing X with
  | h0 => simp [splayUp, plug]
  | h1 f => cases f <;> simp [splayUp, plug]
  | h2 f g rest ih =>
    cases f <;> cases g <;> simp only [splayUp, plug] <;> rw [ih] <;>
      apply toList_plug_congr <;> simp

theorem locate_plug {x : Nat} {t : T} {p : List Frame} {X : T} {q : List Frame}
    (h : locate x t p = some (X, q)) :
    plug X q = plug t p ∧ (∃ l len w r, X = node l x len w r) ∧ ∃ q', q = q' ++ p := by
  induction t generalizing p with
  | nil => simp [locate] at h
  | node l id len w r ihl ihr =>
    simp only [locate] at h
    split at h
    · next hid =>
      injection h with h; injection h with h1 h2
      subst h1 h2 hid
      exact ⟨rfl, ⟨_, _, _, _, rfl⟩, [], rfl⟩
    · split at h
      · next z hz =>
        injection h with h; subst h
        obtain ⟨h1, h2, q', h3⟩ := ihl hz
        exact ⟨by rw [h1]; rfl, h2, q' ++ [.inL id len w r], by simp [h3]⟩
      · obtain ⟨h1, h2, q', h3⟩ := ihr h
        exact ⟨by rw [h1]; rfl, h2, q' ++ [.inR l id len w], by simp [h3]⟩

theorem locate_none {x : Nat} {t : T} (p : List Frame) : locate x t p = none ↔ x ∉ t.ids := by
  induction t generalizing p with
  | nil => simp [locate]
  | node l id len w r ihl ihr =>
    simp only [locate, ids_node, List.mem_append, List.mem_cons, not_or]
    split
    · next h => simp [h]
    · next h =>
      split
      · next z hz =>
        have : ¬ (x ∉ l.ids) := fun hn => by rw [(ihl _).2 hn] at hz; cases hz
        simp [this]
      · next hz =>
        rw [ihr]
        have := (ihl _).1 hz
        simp [this, Ne.symm h]

theorem locate_isSome {x : Nat} {t : T} (p : List Frame) (h : x ∈ t.ids) :
    ∃ X q, locate x t p = some (X, q) := by
  cases hl : locate x t p with
  | none => exact absurd h ((locate_none p).1 hl)
  | some z => exact ⟨z.1, z.2, rfl⟩

@[simp] theorem toList_splay (x : Nat) (t : T) : (splay x t).toList = t.toList := by
  unfold splay
  split
  · rfl
  · next X p h => rw [toList_splayUp, (locate_plug h).1]; rfl

/-- the splayed node ends up at the root with freshly recomputed weight -/
theorem splayUp_root (l : T) (x len w : Nat) (r : T) (p : List Frame) :
    ∃ a b, splayUp (node l x len w r) p = mk a x len b := by
  induction p using list_two_step generalizing l w r with
  | h0 => exact ⟨l, r, rfl⟩
  | h1 f => cases f <;> simp only [splayUp, rotR, rotL] <;> exact ⟨_, _, rfl⟩
  | h2 f g rest ih =>
    cases f <;> cases g <;> simp only [splayUp, rotR, rotL, mk] <;> exact ih _ _ _

theorem splay_root {x : Nat} {t : T} (h : x ∈ t.ids) :
    ∃ a len b, splay x t = mk a x len b := by
  obtain ⟨X, q, hl⟩ := locate_isSome [] h
  obtain ⟨-, ⟨l, len, w, r, rfl⟩, -⟩ := locate_plug hl
  obtain ⟨a, b, hab⟩ := splayUp_root l x len w r q
  exact ⟨a, len, b, by simp [splay, hl, hab]⟩

/-! ### stale weights

`D` marks the values whose `Len()` changed since the weights above them were last
recomputed.  `okD D t`: every node whose subtree contains no marked value has a
locally exact weight.  All rotations preserve it for every `D`; `wf` is `okD` for the
empty `D`. -/

def clean (D : Nat → Bool) (t : T) : Prop := ∀ x ∈ t.ids, D x = false

def okD (D : Nat → Bool) : T → Prop
  | nil => True
  | node l id len w r =>
    okD D l ∧ okD D r ∧ (clean D (node l id len w r) → w = len + l.weight + r.weight)

theorem clean_congr {D} {s t : T} (h : s.toList = t.toList) : clean D s ↔ clean D t := by
  simp [clean, ids_eq_of_toList h]

theorem clean_node {D l id len w r} :
    clean D (node l id len w r) ↔ clean D l ∧ D id = false ∧ clean D r := by
  simp only [clean, ids_node, List.mem_append, List.mem_cons]
  constructor
  · intro h; exact ⟨fun x hx => h x (.inl hx), h id (.inr (.inl rfl)), fun x hx => h x (.inr (.inr hx))⟩
  · rintro ⟨h1, h2, h3⟩ x (hx | rfl | hx)
    · exact h1 x hx
    · exact h2
    · exact h3 x hx

@[simp] theorem okD_nil (D) : okD D nil := trivial

theorem okD_mk {D l id len r} : okD D (mk l id len r) ↔ okD D l ∧ okD D r := by
  simp [mk, okD]

theorem wf_iff_okD {t : T} : t.wf ↔ okD (fun _ => false) t := by
  induction t with
  | nil => simp
  | node l id len w r ihl ihr => simp [okD, ihl, ihr, clean]

theorem okD_of_wf {D} {t : T} (h : t.wf) : okD D t := by
  induction t with
  | nil => trivial
  | node l id len w r ihl ihr => exact ⟨ihl h.1, ihr h.2.1, fun _ => h.2.2⟩

theorem okD_clean_wf {D} {t : T} (h : okD D t) (hc : clean D t) : t.wf := by
  induction t with
  | nil => trivial
  | node l id len w r ihl ihr =>
    have hc' := clean_node.1 hc
    exact ⟨ihl h.1 hc'.1, ihr h.2.1 hc'.2.2, h.2.2 hc⟩

theorem okD_rotR {D} {t : T} (h : okD D t) : okD D (rotR t) := by
  unfold rotR; split
  · simp only [okD_mk]; simp only [okD] at h; exact ⟨h.1.1, h.1.2.1, h.2.1⟩
  · exact h

theorem okD_rotL {D} {t : T} (h : okD D t) : okD D (rotL t) := by
  unfold rotL; split
  · simp only [okD_mk]; simp only [okD] at h; exact ⟨⟨h.1, h.2.1.1⟩, h.2.1.2.1⟩
  · exact h

theorem okD_refresh {D} {t : T} (h : okD D t) : okD D t.refresh := by
  cases t with
  | nil => trivial
  | node l id len w r => simp only [T.refresh, okD_mk]; exact ⟨h.1, h.2.1⟩

theorem okD_plug_sub {D} {s : T} {p : List Frame} (h : okD D (plug s p)) : okD D s := by
  induction p generalizing s with
  | nil => exact h
  | cons f p ih =>
    cases f with
    | inL id len w r => exact (ih (s := node s id len w r) h).1
    | inR l id len w => exact (ih (s := node l id len w s) h).2.1

/-- replacing the focus by a subtree with the same in-order sequence keeps `okD`:
an ancestor whose subtree is unmarked sees the same (exact) weight below it -/
theorem okD_plug_replace {D} {s s' : T} {p : List Frame} (h : okD D (plug s p)) (hs' : okD D s')
    (hl : s'.toList = s.toList) : okD D (plug s' p) := by
  induction p generalizing s s' with
  | nil => exact hs'
  | cons f p ih =>
    have hs := okD_plug_sub h
    have hw : clean D s → s'.weight = s.weight := fun hc => by
      rw [wf_weight (okD_clean_wf hs hc), wf_weight (okD_clean_wf hs' ((clean_congr hl).2 hc)), hl]
    cases f with
    | inL id len w r =>
      have hn : okD D (node s id len w r) := okD_plug_sub (p := p) h
      refine ih (s := node s id len w r) (s' := node s' id len w r) h ⟨hs', hn.2.1, ?_⟩ (by simp [hl])
      intro hc
      have hc2 : clean D (node s id len w r) := (clean_congr (by simp [hl])).1 hc
      rw [hn.2.2 hc2, hw (clean_node.1 hc2).1]
    | inR l id len w =>
      have hn : okD D (node l id len w s) := okD_plug_sub (p := p) h
      refine ih (s := node l id len w s) (s' := node l id len w s') h ⟨hn.1, hs', ?_⟩ (by simp [hl])
      intro hc
      have hc2 : clean D (node l id len w s) := (clean_congr (by simp [hl])).1 hc
      rw [hn.2.2 hc2, hw (clean_node.1 hc2).2.2]

theorem okD_splayUp {D} {X : T} {p : List Frame} (h : okD D (plug X p)) : okD D (splayUp X p) := by
  induction p using list_two_step generalizing X with
  | h0 => exact okD_refresh h
  | h1 f =>
    cases f
    · exact okD_rotR h
    · exact okD_rotL h
  | h2 f g rest ih =>
    cases f with
    | inL p lp wp c =>
      cases g with
      | inL g lg wg d =>
        simp only [splayUp]; apply ih; simp only [plug] at h
        exact okD_plug_replace h (okD_rotR (okD_rotR (okD_plug_sub h))) (by simp)
      | inR d g lg wg =>
        simp only [splayUp]; apply ih
        have h1 : okD D (plug (rotR (node X p lp wp c)) (.inR d g lg wg :: rest)) :=
          okD_plug_replace (s := node X p lp wp c) h (okD_rotR (okD_plug_sub (p := .inR d g lg wg :: rest) h))
            (by simp)
        exact okD_plug_replace (s := node d g lg wg (rotR (node X p lp wp c))) h1
          (okD_rotL (okD_plug_sub (p := rest) h1)) (by simp)
    | inR c p lp wp =>
      cases g with
      | inL g lg wg d =>
        simp only [splayUp]; apply ih
        have h1 : okD D (plug (rotL (node c p lp wp X)) (.inL g lg wg d :: rest)) :=
          okD_plug_replace (s := node c p lp wp X) h (okD_rotL (okD_plug_sub (p := .inL g lg wg d :: rest) h))
            (by simp)
        exact okD_plug_replace (s := node (rotL (node c p lp wp X)) g lg wg d) h1
          (okD_rotR (okD_plug_sub (p := rest) h1)) (by simp)
      | inR d g lg wg =>
        simp only [splayUp]; apply ih; simp only [plug] at h
        exact okD_plug_replace h (okD_rotL (okD_rotL (okD_plug_sub h))) (by simp)

end Yorkie.Splay
