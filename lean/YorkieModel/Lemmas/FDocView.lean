/- `Marshal()` is a function of the *view* of every element (its visible members / elements); two roots with
   equal views marshal alike.  Includes the canonical-order lemmas for `liveMembers` (sorted keys). -/
import YorkieModel.Lemmas.FDocPurge
namespace Yorkie.FDoc
open Yorkie
open Yorkie.Crdt (rootId insertKey joinComma)

/-! ### sorted key lists -/

theorem str_trichotomy (a b : String) : a < b ∨ a = b ∨ b < a := by
  by_cases h1 : a < b
  · exact Or.inl h1
  · by_cases h2 : b < a
    · exact Or.inr (Or.inr h2)
    · exact Or.inr (Or.inl (String.le_antisymm (String.not_lt.mp h2) (String.not_lt.mp h1)))

/-- strictly increasing -/
def SSorted : List String → Prop
  | [] => True
  | [_] => True
  | a :: b :: r => a < b ∧ SSorted (b :: r)

theorem SSorted.tail {a : String} {l : List String} (h : SSorted (a :: l)) : SSorted l := by
  cases l with
  | nil => trivial
  | cons b r => exact h.2

theorem SSorted.head_lt {a : String} {l : List String} (h : SSorted (a :: l)) : ∀ x ∈ l, a < x := by
  induction l generalizing a with
  | nil => intro x hx; cases hx
  | cons b r ih =>
    intro x hx
    rcases List.mem_cons.mp hx with e | e
    · rw [e]; exact h.1
    · exact String.lt_trans h.1 (ih h.2 x e)

theorem mem_insertKey {k x : String} {l : List String} : x ∈ insertKey k l ↔ x = k ∨ x ∈ l := by
  induction l with
  | nil => simp [insertKey]
  | cons a r ih =>
    unfold insertKey
    split
    · simp
    · split
      · rename_i h; subst h; simp
      · simp only [List.mem_cons, ih]
        constructor
        · rintro (h | h | h)
          · exact Or.inr (Or.inl h)
          · exact Or.inl h
          · exact Or.inr (Or.inr h)
        · rintro (h | h | h)
          · exact Or.inr (Or.inl h)
          · exact Or.inl h
          · exact Or.inr (Or.inr h)

theorem ssorted_insertKey {k : String} {l : List String} (h : SSorted l) : SSorted (insertKey k l) := by
  induction l with
  | nil => trivial
  | cons a r ih =>
    unfold insertKey
    split
    · rename_i hka; exact ⟨hka, h⟩
    · split
      · exact h
      · rename_i h1 h2
        have hak : a < k := by
          rcases str_trichotomy k a with e | e | e
          · exact absurd e h1
          · exact absurd e h2
          · exact e
        have ih' := ih h.tail
        -- head of `insertKey k r` is `k` or the head of `r`
        cases hr : insertKey k r with
        | nil => trivial
        | cons b r' =>
          rw [hr] at ih'
          refine ⟨?_, ih'⟩
          have hb : b ∈ insertKey k r := by rw [hr]; exact List.mem_cons_self ..
          rcases mem_insertKey.mp hb with e | e
          · rw [e]; exact hak
          · exact h.head_lt b e

theorem ssorted_ext : ∀ {l l' : List String}, SSorted l → SSorted l' → (∀ x, x ∈ l ↔ x ∈ l') → l = l' := by
  intro l
  induction l with
  | nil =>
    intro l' _ _ h
    cases l' with
    | nil => rfl
    | cons b r => exact absurd ((h b).mpr (List.mem_cons_self ..)) (by simp)
  | cons a r ih =>
    intro l' hs hs' h
    cases l' with
    | nil => exact absurd ((h a).mp (List.mem_cons_self ..)) (by simp)
    | cons b r' =>
      have hab : a = b := by
        have ha : a ∈ b :: r' := (h a).mp (List.mem_cons_self ..)
        have hb : b ∈ a :: r := (h b).mpr (List.mem_cons_self ..)
        rcases List.mem_cons.mp ha with e | e
        · exact e
        · rcases List.mem_cons.mp hb with e2 | e2
          · exact e2.symm
          · exact absurd (hs.head_lt b e2) (String.lt_asymm (hs'.head_lt a e))
      subst hab
      congr 1
      apply ih hs.tail hs'.tail
      intro x
      constructor
      · intro hx
        have : x ∈ a :: r' := (h x).mp (List.mem_cons_of_mem _ hx)
        rcases List.mem_cons.mp this with e | e
        · subst e; exact absurd (hs.head_lt x hx) (String.lt_irrefl x)
        · exact e
      · intro hx
        have : x ∈ a :: r := (h x).mpr (List.mem_cons_of_mem _ hx)
        rcases List.mem_cons.mp this with e | e
        · subst e; exact absurd (hs'.head_lt x hx) (String.lt_irrefl x)
        · exact e

/-- the key list `ElementRHT.Marshal` sorts -/
def sortedKeys (live : List (String × Ticket)) : List String :=
  live.foldl (fun acc p => insertKey p.1 acc) []

theorem sortedKeys_aux (live : List (String × Ticket)) : ∀ (acc : List String), SSorted acc →
    SSorted (live.foldl (fun acc p => insertKey p.1 acc) acc) ∧
    ∀ x, x ∈ live.foldl (fun acc p => insertKey p.1 acc) acc ↔ x ∈ acc ∨ x ∈ live.map (·.1) := by
  induction live with
  | nil => intro acc h; exact ⟨h, fun x => by simp⟩
  | cons p r ih =>
    intro acc h
    obtain ⟨h1, h2⟩ := ih (insertKey p.1 acc) (ssorted_insertKey h)
    refine ⟨h1, ?_⟩
    intro x
    simp only [List.foldl_cons, List.map_cons, List.mem_cons]
    rw [h2 x, mem_insertKey]
    constructor
    · rintro ((h | h) | h)
      · exact Or.inr (Or.inl h)
      · exact Or.inl h
      · exact Or.inr (Or.inr h)
    · rintro (h | h | h)
      · exact Or.inl (Or.inr h)
      · exact Or.inl (Or.inl h)
      · exact Or.inr h

theorem sortedKeys_ext {live live' : List (String × Ticket)} (h : ∀ k, k ∈ live'.map (·.1) ↔ k ∈ live.map (·.1)) :
    sortedKeys live' = sortedKeys live := by
  obtain ⟨a1, a2⟩ := sortedKeys_aux live' [] trivial
  obtain ⟨b1, b2⟩ := sortedKeys_aux live [] trivial
  apply ssorted_ext a1 b1
  intro x
  show x ∈ live'.foldl (fun acc p => insertKey p.1 acc) [] ↔ x ∈ live.foldl (fun acc p => insertKey p.1 acc) []
  rw [a2, b2]
  simp [h]

theorem liveMembers_eq (r : Root) (byKey : List (String × Ticket)) :
    liveMembers r byKey =
      (sortedKeys (List.filter (fun p => liveChild r p.2) byKey)).filterMap
        (fun k => (alGet (List.filter (fun p => liveChild r p.2) byKey) k).map (fun c => (k, c))) := rfl

/-- `liveMembers` depends only on the finite map `key ↦ live occupant` -/
theorem liveMembers_ext {r r' : Root} {byKey byKey' : List (String × Ticket)}
    (h : ∀ k, alGet (List.filter (fun p => liveChild r' p.2) byKey') k = alGet (List.filter (fun p => liveChild r p.2) byKey) k) :
    liveMembers r' byKey' = liveMembers r byKey := by
  rw [liveMembers_eq, liveMembers_eq]
  have hk : sortedKeys (List.filter (fun p => liveChild r' p.2) byKey') = sortedKeys (List.filter (fun p => liveChild r p.2) byKey) := by
    apply sortedKeys_ext
    intro k
    constructor
    · intro hm
      obtain ⟨c, hc⟩ := mem_keys_alGet hm
      rw [h] at hc
      exact alGet_some_mem_keys hc
    · intro hm
      obtain ⟨c, hc⟩ := mem_keys_alGet hm
      rw [← h] at hc
      exact alGet_some_mem_keys hc
  rw [hk]
  have : (fun k => (alGet (List.filter (fun p => liveChild r' p.2) byKey') k).map (fun c => (k, c))) =
      (fun k => (alGet (List.filter (fun p => liveChild r p.2) byKey) k).map (fun c => (k, c))) := by
    funext k; rw [h]
  rw [this]

/-! ### views -/

/-- what `Marshal()` reads of one element -/
inductive View
  | scalar (s : String)
  | obj (members : List (String × Ticket))
  | arr (elems : List Ticket)
deriving DecidableEq

def viewBody (r : Root) : Body → View
  | .prim s => .scalar s
  | .opaque s => .scalar s
  | .counter _ v => .scalar (toString v)
  | .obj _ byKey => .obj (liveMembers r byKey)
  | .arr nodes _ => .arr (liveElems r nodes)

def view (r : Root) (t : Ticket) : Option View := (r.get t).map (fun e => viewBody r e.body)

def renderView (rec : Ticket → String) : View → String
  | .scalar s => s
  | .obj ms => "{" ++ joinComma (ms.map (fun p => "\"" ++ p.1 ++ "\":" ++ rec p.2)) ++ "}"
  | .arr es => "[" ++ joinComma (es.map (fun c => rec c)) ++ "]"

theorem marshalBody_view (r : Root) (rec : Ticket → String) (b : Body) :
    marshalBody r rec b = renderView rec (viewBody r b) := by
  cases b <;> rfl

theorem marshalAt_view (r : Root) (f : Nat) (t : Ticket) :
    marshalAt r (f + 1) t = match view r t with
      | none => "?"
      | some v => renderView (marshalAt r f) v := by
  rw [marshalAt_succ]
  unfold view
  cases r.get t with
  | none => rfl
  | some e => simp only [Option.map_some]; exact marshalBody_view r _ e.body

theorem renderView_congr {rec rec' : Ticket → String} (v : View) (h : ∀ x, rec' x = rec x) :
    renderView rec' v = renderView rec v := by
  have : rec' = rec := funext h
  rw [this]

/-- equal views everywhere ⇒ equal `Marshal()` everywhere -/
theorem marshalAt_of_view {r r' : Root} (h : ∀ t, view r' t = view r t) : ∀ f t, marshalAt r' f t = marshalAt r f t := by
  intro f
  induction f with
  | zero => intro t; rfl
  | succ f ih =>
    intro t
    rw [marshalAt_view, marshalAt_view, h]
    cases view r t with
    | none => rfl
    | some v => exact renderView_congr v ih

end Yorkie.FDoc
