/-
What `findNodeWithSplit` does at the position of a visible index: the list is cut into a left part
holding exactly the first `i` visible units and a right part holding the rest. Core Lean only.
-/
import YorkieModel.Lemmas.TextLocate
namespace Yorkie.Text

/-! ### pointwise "same id / content / tombstone" maps -/

/-- `f` keeps id, content and tombstone of every member of `S` -/
def SimOn (f : TNode → TNode) (S : TextSt) : Prop :=
  ∀ m ∈ S, (f m).id = m.id ∧ (f m).units = m.units ∧ (f m).removedAt = m.removedAt ∧
    (f m).attrs = m.attrs

theorem SimOn.ids {f : TNode → TNode} {S : TextSt} (h : SimOn f S) : ids (S.map f) = ids S := by
  induction S with
  | nil => rfl
  | cons a r ih =>
    simp only [List.map_cons, ids_cons, (h a (by simp)).1, ih (fun m hm => h m (by simp [hm]))]

theorem SimOn.visible {f : TNode → TNode} {S : TextSt} (h : SimOn f S) : visible (S.map f) = visible S := by
  induction S with
  | nil => rfl
  | cons a r ih =>
    have ha := h a (by simp)
    simp [visible_cons, TNode.live, ha.2.1, ha.2.2.1, ih (fun m hm => h m (by simp [hm]))]

/-- the attribute register seen by every visible unit -/
def visAttrs : TextSt → List (List AttrNode)
  | [] => []
  | n :: r => if n.live then List.replicate n.len n.attrs ++ visAttrs r else visAttrs r

@[simp] theorem visAttrs_nil : visAttrs [] = [] := rfl

theorem visAttrs_cons (n : TNode) (r : TextSt) :
    visAttrs (n :: r) = (if n.live then List.replicate n.len n.attrs else []) ++ visAttrs r := by
  simp only [visAttrs]; split <;> simp

theorem visAttrs_append (a b : TextSt) : visAttrs (a ++ b) = visAttrs a ++ visAttrs b := by
  induction a with
  | nil => simp
  | cons n r ih => simp only [List.cons_append, visAttrs_cons, ih, List.append_assoc]

theorem visAttrs_length (s : TextSt) : (visAttrs s).length = (visible s).length := by
  induction s with
  | nil => rfl
  | cons n r ih =>
    rw [visAttrs_cons, visible_cons, List.length_append, List.length_append, ih]
    split <;> simp [TNode.len]

theorem SimOn.visAttrs {f : TNode → TNode} {S : TextSt} (h : SimOn f S) :
    visAttrs (S.map f) = visAttrs S := by
  induction S with
  | nil => rfl
  | cons a r ih =>
    have ha := h a (by simp)
    simp [visAttrs_cons, TNode.live, TNode.len, ha.2.1, ha.2.2.1, ha.2.2.2,
      ih (fun m hm => h m (by simp [hm]))]

theorem SimOn.head {f : TNode → TNode} {S : TextSt} (h : SimOn f S) :
    ((S.map f).head?).map (·.id) = (S.head?).map (·.id) := by
  cases S with
  | nil => rfl
  | cons a r => simp [(h a (by simp)).1]

theorem SimOn.mono {f : TNode → TNode} {S T : TextSt} (h : SimOn f S) (hsub : ∀ m ∈ T, m ∈ S) : SimOn f T :=
  fun m hm => h m (hsub m hm)

theorem simOn_id (S : TextSt) : SimOn id S := fun _ _ => ⟨rfl, rfl, rfl, rfl⟩

theorem simOn_splitMap {n : TNode} (k : Nat) {S : TextSt} (h : n.id ∉ ids S) : SimOn (splitMap n k) S := by
  intro m hm
  refine ⟨by simp, ?_, by simp, by simp⟩
  rw [splitMap_units, if_neg]
  intro e; exact h (e ▸ mem_ids hm)

/-! ### positions -/

/-- the absolute id `q = (createdAt, offset)` names the boundary after the `i`-th visible unit -/
def Denotes (s : TextSt) (q : Id) (i : Nat) : Prop :=
  (q = headId ∧ i = 0) ∨
  ∃ A n C, s = A ++ n :: C ∧ n.live = true ∧ n.id.1 = q.1 ∧ n.id.2 < q.2 ∧ q.2 ≤ n.id.2 + n.len ∧
    i = (visible A).length + (q.2 - n.id.2)

theorem findPos_spec {s : TextSt} {i : Nat} {p : Pos} (h : findPos s i = some p) (hi : 0 < i) :
    ∃ A n C, s = A ++ n :: C ∧ n.live = true ∧ p = ⟨n.id, i - (visible A).length⟩ ∧
      (visible A).length < i ∧ i ≤ (visible A).length + n.len := by
  induction s generalizing i with
  | nil => simp [findPos] at h
  | cons a r ih =>
    unfold findPos at h
    split at h
    · rename_i hc
      simp only [Bool.and_eq_true, decide_eq_true_eq] at hc
      injection h with h
      exact ⟨[], a, r, rfl, hc.1, by simp [← h], by simpa using hi, by simpa using hc.2⟩
    · rename_i hc
      simp only [Bool.and_eq_true, decide_eq_true_eq, not_and, Nat.not_le] at hc
      have hpos : 0 < i - a.liveLen := by
        unfold TNode.liveLen
        split
        · have := hc ‹_›; omega
        · omega
      obtain ⟨A, n, C, hs, hl, hp, h1, h2⟩ := ih h hpos
      refine ⟨a :: A, n, C, by simp [hs], hl, ?_, ?_, ?_⟩
      · rw [hp]; simp only [visible_cons, List.length_append]
        unfold TNode.liveLen; split <;> simp [TNode.len] <;> omega
      · simp only [visible_cons, List.length_append]
        unfold TNode.liveLen at h1; split at h1 <;> simp_all [TNode.len] <;> omega
      · simp only [visible_cons, List.length_append]
        unfold TNode.liveLen at h2 h1; split at h2 <;> simp_all [TNode.len] <;> omega

theorem findPos_isSome {s : TextSt} {i : Nat} (hi : 0 < i) (hle : i ≤ (visible s).length) :
    ∃ p, findPos s i = some p := by
  induction s generalizing i with
  | nil => simp at hle; omega
  | cons a r ih =>
    unfold findPos
    split
    · exact ⟨_, rfl⟩
    · rename_i hc
      simp only [Bool.and_eq_true, decide_eq_true_eq, not_and, Nat.not_le] at hc
      apply ih
      · unfold TNode.liveLen
        split
        · have := hc ‹_›; omega
        · omega
      · rw [visible_cons, List.length_append] at hle
        unfold TNode.liveLen
        split
        · rename_i hl; simp only [hl, if_true] at hle; unfold TNode.len; omega
        · rename_i hl; simp only [hl] at hle; simp at hle; omega

theorem posOfIndex_denotes {s : TextSt} (wf : WF s) {i : Nat} {p : Pos} (h : posOfIndex s i = some p) :
    Denotes s (p.id.1, p.id.2 + p.rel) i := by
  obtain ⟨hd, r, hs, hid, _⟩ := wf.head
  subst hs
  unfold posOfIndex at h
  simp only at h
  split at h
  · rename_i h0
    injection h with h; subst h
    left; simp [hid, h0, headId]
  · rename_i h0
    obtain ⟨A, n, C, hs, hl, hp, h1, h2⟩ := findPos_spec h (by omega)
    right
    refine ⟨A, n, C, hs, hl, by simp [hp], by simp [hp]; omega, by simp [hp]; omega, by simp [hp]; omega⟩

theorem posOfIndex_isSome {s : TextSt} (wf : WF s) {i : Nat} (hle : i ≤ (visible s).length) :
    ∃ p, posOfIndex s i = some p := by
  obtain ⟨hd, r, hs, _, _⟩ := wf.head
  subst hs
  unfold posOfIndex
  simp only
  split
  · exact ⟨_, rfl⟩
  · exact findPos_isSome (by omega) hle

/-! ### evaluating `findNodeWithSplit` -/

theorem fnws_eval {s : TextSt} {p : Pos} {ts : Ticket} {n : TNode}
    (hfl : findFloorPreferLeft s (p.id.1, p.id.2 + p.rel) = some n)
    (hle : n.id.2 ≤ p.id.2 + p.rel) (hlen : p.id.2 + p.rel - n.id.2 ≤ n.len)
    {cur : TNode} {rest : TextSt}
    (hloc : locate (splitNode s n (p.id.2 + p.rel - n.id.2)) n.id = some (cur, rest))
    (hskip : ∀ x ∈ rest, x.id.1.after ts = false) :
    findNodeWithSplit s p ts =
      .ok (splitNode s n (p.id.2 + p.rel - n.id.2), cur.id, (rest.head?).map (·.id)) := by
  unfold findNodeWithSplit
  simp only [hfl]
  rw [if_neg (by omega), if_neg (by omega)]
  simp only [hloc]
  rw [skipFrom_noSkip cur hskip]

theorem splitNode_append {A C : TextSt} {n : TNode} {k : Nat} (hA : n.id ∉ ids A) (h0 : 0 < k)
    (hk : k < n.len) :
    splitNode (A ++ n :: C) n k =
      A.map (splitMap n k) ++ splitMap n k n :: rightPart n k :: C.map (splitMap n k) := by
  rw [splitNode_eq h0 hk, List.map_append, List.map_cons]
  have : (splitMap n k n).id ∉ ids (A.map (splitMap n k)) := by
    rw [ids_map_splitMap, splitMap_id]; exact hA
  have e := @insertAfterId_append (A.map (splitMap n k)) (C.map (splitMap n k)) (splitMap n k n)
    (rightPart n k) this
  rw [splitMap_id] at e
  exact e

/-- `P ++ S = A ++ n :: C` and the prefix `P` reaches beyond `A`: then `n` lies in `P` -/
theorem split_in_prefix {P S A C : TextSt} {n : TNode} (h : P ++ S = A ++ n :: C)
    (hlt : (visible A).length < (visible P).length) : ∃ c, P = A ++ n :: c ∧ C = c ++ S := by
  rcases List.append_eq_append_iff.mp h with ⟨a', hA, _⟩ | ⟨c', hP, hC⟩
  · rw [hA, visible_append, List.length_append] at hlt; omega
  · cases c' with
    | nil => rw [hP] at hlt; simp at hlt
    | cons x c =>
      simp only [List.cons_append, List.cons.injEq] at hC
      exact ⟨c, by rw [hP, hC.1], hC.2⟩

/-- two decompositions of one list around live... around two members -/
theorem decomp_cases {A C A2 C2 : TextSt} {n m : TNode} (h : A ++ n :: C = A2 ++ m :: C2) :
    (A2 = A ∧ m = n ∧ C2 = C) ∨ (∃ X, A = A2 ++ m :: X ∧ C2 = X ++ n :: C) ∨
      (∃ X, A2 = A ++ n :: X ∧ C = X ++ m :: C2) := by
  rcases List.append_eq_append_iff.mp h with ⟨a', hA, hC⟩ | ⟨c', hP, hC⟩
  · cases a' with
    | nil =>
      simp only [List.nil_append, List.cons.injEq] at hC
      left; exact ⟨by simpa using hA, hC.1.symm, hC.2.symm⟩
    | cons x t =>
      simp only [List.cons_append, List.cons.injEq] at hC
      right; right; exact ⟨t, by rw [hA, hC.1], hC.2⟩
  · cases c' with
    | nil =>
      simp only [List.nil_append, List.cons.injEq] at hC
      left; exact ⟨by simpa using hP.symm, hC.1, hC.2⟩
    | cons x t =>
      simp only [List.cons_append, List.cons.injEq] at hC
      right; left; exact ⟨t, by rw [hP, hC.1], hC.2⟩

end Yorkie.Text
