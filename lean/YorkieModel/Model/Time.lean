/-
L0 Time: tickets, version vectors, change IDs, checkpoints.
Go anchors: pkg/document/time/ticket.go, version_vector.go,
pkg/document/change/id.go, checkpoint.go.

Modelling decisions (trusted base): int64/uint32 are unbounded Int/Nat;
ActorID is the Nat obtained by reading its 12 bytes big-endian, so Nat order is
bytes.Compare order; a Go map is an association list with unique keys.
-/
namespace Yorkie

abbrev Actor := Nat

structure Ticket where
  lamport : Int
  delim : Nat
  actor : Actor
deriving DecidableEq, Repr, Inhabited

/-- ticket.go `Compare`: lamport, then actor, then delimiter. -/
def Ticket.cmp (a b : Ticket) : Ordering :=
  if a.lamport > b.lamport then .gt
  else if a.lamport < b.lamport then .lt
  else if a.actor > b.actor then .gt
  else if a.actor < b.actor then .lt
  else if a.delim > b.delim then .gt
  else if a.delim < b.delim then .lt
  else .eq

def Ticket.after (a b : Ticket) : Bool := a.cmp b == .gt

/-- `time.VersionVector` (a Go map) as an association list. -/
abbrev VV := List (Actor × Int)

namespace VV

def get? : VV → Actor → Option Int
  | [], _ => none
  | (k, x) :: r, a => if k = a then some x else get? r a

/-- Go's `v[id]` (zero value when absent). -/
def versionOf (v : VV) (a : Actor) : Int := (v.get? a).getD 0

def has (v : VV) (a : Actor) : Bool := (v.get? a).isSome

def set : VV → Actor → Int → VV
  | [], a, x => [(a, x)]
  | (k, y) :: r, a, x => if k = a then (a, x) :: r else (k, y) :: set r a x

def unset : VV → Actor → VV
  | [], _ => []
  | (k, y) :: r, a => if k = a then unset r a else (k, y) :: unset r a

def keys (v : VV) : List Actor := v.map (·.1)

def maxVal (o : VV) (k : Actor) (x : Int) : Int :=
  match o.get? k with
  | some y => Max.max x y
  | none => x

/-- `VersionVector.Max` (in place on the receiver; here returns the new value). -/
def max (v o : VV) : VV :=
  v.map (fun p => (p.1, maxVal o p.1 p.2)) ++ List.filter (fun p => !(v.has p.1)) o

def minVal (o : VV) (k : Actor) (x : Int) : Int :=
  match o.get? k with
  | some y => Min.min x y
  | none => 0

def zeroVal (_ : Actor) (_ : Int) : Int := 0

/-- `VersionVector.Min` (in place on the receiver). -/
def min (v o : VV) : VV :=
  v.map (fun p => (p.1, minVal o p.1 p.2))
  ++ (List.filter (fun p => !(v.has p.1)) o).map (fun p => (p.1, zeroVal p.1 p.2))

/-- `VersionVector.MaxLamport` (starts from -1). -/
def maxLamport (v : VV) : Int := v.foldl (fun m p => Max.max m p.2) (-1)

/-- `VersionVector.EqualToOrAfter(ticket)`: absent actor ⇒ false. -/
def equalToOrAfter (v : VV) (t : Ticket) : Bool :=
  match v.get? t.actor with
  | none => false
  | some l => decide (l ≥ t.lamport)

/-- `VersionVector.AfterOrEqual(other)` -/
def afterOrEqual (v o : VV) : Bool :=
  v.all (fun p => decide (p.2 ≥ o.versionOf p.1)) &&
  o.all (fun p => decide (v.versionOf p.1 ≥ p.2))

/-- `VersionVector.Equal` -/
def equal (v o : VV) : Bool :=
  v.length == o.length &&
  v.all (fun p => p.2 == o.versionOf p.1) &&
  o.all (fun p => v.versionOf p.1 == p.2)

def filterActors (v : VV) (as : List Actor) : VV :=
  as.foldl (fun acc a => acc.set a (v.versionOf a)) []

end VV

/-- helper: insert without duplicates -/
def insertNodup (l : List Actor) (a : Actor) : List Actor := if a ∈ l then l else l ++ [a]

/-- the key set walked by `MinVersionVector` -/
def keyUnion (vs : List VV) : List Actor :=
  vs.foldl (fun acc v => v.foldl (fun acc p => insertNodup acc p.1) acc) []

/-- inner loop of `MinVersionVector` for one key: min over vectors, 0 as soon as
one vector lacks the key. `math.MaxInt64` start value is modelled as `none`. -/
def accMin : Option Int → Int → Int
  | none, x => x
  | some m, x => Min.min m x

def minOver (vs : List VV) (a : Actor) : Int :=
  let rec go : List VV → Option Int → Int
    | [], acc => acc.getD 0   -- unreachable with none: keyUnion nonempty ⇒ vs nonempty
    | v :: r, acc =>
      match v.get? a with
      | none => 0
      | some x => go r (some (accMin acc x))
  go vs none

/-- `time.MinVersionVector(vectors...)` -/
def minVV (vs : List VV) : VV :=
  (keyUnion vs).map (fun a => (a, minOver vs a))

/-- `change.ID` -/
structure ChangeID where
  clientSeq : Nat
  serverSeq : Int
  lamport : Int
  actor : Actor
  vv : VV
deriving Repr, Inhabited

namespace ChangeID

def initialActor : Actor := 0

def initial : ChangeID := { clientSeq := 0, serverSeq := 0, lamport := 0, actor := initialActor, vv := [] }

/-- `ID.Next()` -/
def next (id : ChangeID) : ChangeID :=
  { clientSeq := id.clientSeq + 1, serverSeq := 0, lamport := id.lamport + 1,
    actor := id.actor, vv := id.vv.set id.actor (id.lamport + 1) }

/-- `ID.Next(true)`: presence-only change, no clocks. -/
def nextPresenceOnly (id : ChangeID) : ChangeID :=
  { clientSeq := id.clientSeq + 1, serverSeq := 0, lamport := 0, actor := id.actor, vv := [] }

def hasClocks (id : ChangeID) : Bool := id.vv.length > 0 && id.lamport != 0

/-- `ID.SyncClocks(other)` -/
def syncClocks (id other : ChangeID) : ChangeID :=
  if !other.hasClocks then id else
  let l := Max.max id.lamport other.lamport + 1
  { clientSeq := id.clientSeq, serverSeq := 0, lamport := l, actor := id.actor,
    vv := (id.vv.max other.vv).set id.actor l }

/-- `ID.SyncLamport(other)` -/
def syncLamport (id other : ChangeID) : ChangeID :=
  if !other.hasClocks then id else
  let l := Max.max id.lamport other.lamport + 1
  { clientSeq := id.clientSeq, serverSeq := 0, lamport := l, actor := id.actor,
    vv := id.vv.set id.actor l }

/-- `ID.SetClocks(otherLamport, vector)` -/
def setClocks (id : ChangeID) (otherLamport : Int) (vector : VV) : ChangeID :=
  let l := Max.max id.lamport otherLamport + 1
  { clientSeq := id.clientSeq, serverSeq := id.serverSeq, lamport := l, actor := id.actor,
    vv := (id.vv.max vector).set id.actor l }

/-- `ID.SetActor` -/
def setActor (id : ChangeID) (a : Actor) : ChangeID :=
  { id with serverSeq := 0, actor := a }

def newTicket (id : ChangeID) (delim : Nat) : Ticket :=
  { lamport := id.lamport, delim := delim, actor := id.actor }

end ChangeID

/-- `change.Checkpoint` -/
structure Checkpoint where
  serverSeq : Int
  clientSeq : Nat
deriving DecidableEq, Repr, Inhabited

namespace Checkpoint
def initial : Checkpoint := ⟨0, 0⟩
def nextClientSeq (c : Checkpoint) : Checkpoint := ⟨c.serverSeq, c.clientSeq + 1⟩
def nextServerSeq (c : Checkpoint) (s : Int) : Checkpoint :=
  if c.serverSeq = s then c else ⟨s, c.clientSeq⟩
def syncClientSeq (c : Checkpoint) (cs : Nat) : Checkpoint :=
  if c.clientSeq < cs then ⟨c.serverSeq, cs⟩ else c
def forward (c o : Checkpoint) : Checkpoint :=
  if c = o then c else ⟨Max.max c.serverSeq o.serverSeq, Max.max c.clientSeq o.clientSeq⟩
end Checkpoint

end Yorkie
