/-
L6 Small-step concurrency of the server protocol (C04, concurrent half; DESIGN F.2).

Built ON Model/Server.lean: the atomic steps of an in-flight request are the very phase functions
of `Server.pushPull` (`validateClientSeq`, `stripPresence`, `pushPack`, `preparePack`,
`updateDocStatus`, `updateMinVV` split into its two transactions, `persistClientInfo`), preceded by
the handler prefix (`begin`: everything `yorkieServer.AttachDocument / PushPullChanges /
DetachDocument / RemoveDocument` do between taking the locks and calling `packs.PushPull`).

Go anchors (what makes each step atomic, and what is shared):
  server/rpc/yorkie_server.go   every handler takes `doc`(R) – no exclusion between requests, no
                                writer in scope (compaction is not part of this model) – and then
                                `pull(client, pack.DocumentKey)`: requests of ONE client on one
                                document key are serialised (`LockKey.pull`, held from `start` to
                                `finish`)
  server/packs/pushpull.go      pushPack: `push(doc)` mutex around the guard read and
                                `CreateChangeInfos` (taken only when there is something to write);
                                the memory DB's `CreateChangeInfos` is ONE write transaction (read
                                head, insert rows, compare-and-set head), so the push phase is one
                                atomic step and `push(doc)` is acquired and released inside it – it
                                is never held at a step boundary (which is why the lock table below
                                only ever shows `pull` keys).  ASSUMPTION (trusted base, validated
                                by forced interleavings, not proved): memdb transactions are atomic
                                and isolated.
  memory/database.go            FindChangeInfosBetweenServerSeqs (read txn)          = `pull`
                                updateVersionVector (write txn)                      = `vvWrite` (s3a)
                                GetMinVersionVector (separate read txn)              = `vvRead`  (s3b)
                                UpdateClientInfoAfterPushPull (write txn, max-merge) = `persist`
  The background goroutine started at the end of `PushPull` (publish + storeSnapshot under a
  try-lock) is not part of the response and not modelled.

Scope: requests are `attach`, `pushpull`, `detach`, `remove` (any clients, any documents, any
packs); `activate` is one atomic step; `deactivate` is not part of the concurrent model (its
`clusterDetach` loop takes the locks in the same order; it is a sequence of sequential
`PushPull`s).  Whether the response of a request is lost on the way back to the client is fixed
when the request starts (`InFlight.lost`) – a nondeterministic choice made early, so that the
refinement needs no prophecy.
-/
import YorkieModel.Model.Server
namespace Yorkie.Conc
open Yorkie Yorkie.Server

/-! ### the two transactions of `UpdateMinVersionVector` -/

/-- s3a: `updateVersionVector` (write own row / delete it when not attached); skipped under
`DisableGC` -/
def vvWrite : Phase := fun s f =>
  if f.disableGC then (s, .ok f)
  else
    match updateVersionVector s f with
    | .error e => (s, .error e)
    | .ok s' => (s', .ok f)

/-- s3b: `GetMinVersionVector` (read all rows of the document) and the assignment of the response
vector -/
def vvRead : Phase := fun s f =>
  if f.disableGC then (s, .ok { f with resp := { f.resp with minVV := none } })
  else
    (s, .ok (if f.resp.snapshot then f
             else { f with resp := { f.resp with minVV := some (getMinVV s f.doc f.pack.vv) } }))

/-- the two halves compose to the existing phase -/
theorem vvWrite_vvRead : vvWrite ⨟ vvRead = updateMinVV := by
  funext s f
  simp only [Phase.andThen, vvWrite, vvRead, updateMinVV]
  by_cases hg : f.disableGC = true
  · simp [hg]
  · simp only [hg, Bool.false_eq_true, if_false]
    cases updateVersionVector s f with
    | error e => rfl
    | ok s' => simp [hg]

/-! ### program counter -/

/-- the next phase of `packs.PushPull` an in-flight request will run -/
inductive Pc
  | validate | strip | push | pull | status | vvWrite | vvRead | persist
  /-- `PushPull` has returned (result in `InFlight.out`); the handler still holds `pull` -/
  | done
deriving DecidableEq, Repr, Inhabited

def Pc.next : Pc → Pc
  | .validate => .strip | .strip => .push | .push => .pull | .pull => .status | .status => .vvWrite
  | .vvWrite => .vvRead | .vvRead => .persist | .persist => .done | .done => .done

/-- position in the phase list -/
def Pc.ord : Pc → Nat
  | .validate => 0 | .strip => 1 | .push => 2 | .pull => 3 | .status => 4 | .vvWrite => 5 | .vvRead => 6
  | .persist => 7 | .done => 8

/-- the phase function run at each program counter -/
def Pc.phase : Pc → Phase
  | .validate => validateClientSeq
  | .strip => stripPresence
  | .push => pushPack
  | .pull => preparePack
  | .status => updateDocStatus
  | .vvWrite => Conc.vvWrite
  | .vvRead => Conc.vvRead
  | .persist => persistClientInfo
  | .done => fun s f => (s, .ok f)

/-- the phases from `pc` to the end, composed sequentially (right-nested: `rest pc = phase pc ⨟
rest (next pc)` by definition; `Lemmas/Conc.rest_validate` shows `rest .validate = pushPull`) -/
def Pc.rest : Pc → Phase
  | .validate => validateClientSeq ⨟ (stripPresence ⨟ (pushPack ⨟ (preparePack ⨟ (updateDocStatus ⨟
      (Conc.vvWrite ⨟ (Conc.vvRead ⨟ persistClientInfo))))))
  | .strip => stripPresence ⨟ (pushPack ⨟ (preparePack ⨟ (updateDocStatus ⨟
      (Conc.vvWrite ⨟ (Conc.vvRead ⨟ persistClientInfo)))))
  | .push => pushPack ⨟ (preparePack ⨟ (updateDocStatus ⨟ (Conc.vvWrite ⨟ (Conc.vvRead ⨟ persistClientInfo))))
  | .pull => preparePack ⨟ (updateDocStatus ⨟ (Conc.vvWrite ⨟ (Conc.vvRead ⨟ persistClientInfo)))
  | .status => updateDocStatus ⨟ (Conc.vvWrite ⨟ (Conc.vvRead ⨟ persistClientInfo))
  | .vvWrite => Conc.vvWrite ⨟ (Conc.vvRead ⨟ persistClientInfo)
  | .vvRead => Conc.vvRead ⨟ persistClientInfo
  | .persist => persistClientInfo
  | .done => fun s f => (s, .ok f)

/-! ### requests in flight -/

/-- `packs.DocPullKey(clientID, pack.DocumentKey)`: the key is the document KEY carried by the
pack (`none`: a request naming a document id the store does not know) -/
inductive LockKey
  | pull (c : ClientId) (key : Option Nat)
deriving DecidableEq, Repr, Inhabited

def docKeyOf (s : Server) (d : DocId) : Option Nat := (s.findDoc d).map (·.key)

def lockOf (s : Server) : Request → LockKey
  | .attach c key _ _ _ => .pull c (some key)
  | .pushpull c d _ _ _ => .pull c (docKeyOf s d)
  | .detach c d _ => .pull c (docKeyOf s d)
  | .remove c d _ => .pull c (docKeyOf s d)
  | .activate => .pull 0 none
  | .deactivate c _ => .pull c none

structure InFlight where
  /-- name of the request in schedules -/
  id : Nat
  req : Request
  /-- held from `start` to `finish` -/
  lock : LockKey
  /-- the response will be lost on the way back (the client keeps its old state and resends) -/
  lost : Bool
  pc : Pc
  /-- the handler's private state (`Flight.info` is its DeepCopy of the client info) -/
  f : Flight
  /-- result of `PushPull` / of the handler prefix; meaningful when `pc = .done` -/
  out : Except ErrKind Resp := .ok {}
deriving Repr, Inhabited

/-- a finished request, as the client saw it -/
structure Done where
  id : Nat
  req : Request
  lost : Bool
  out : Except ErrKind Resp
deriving Repr, Inhabited

/-- the whole system: store, requests in flight (in start order), finished requests (latest
first).  The client-side ghost state (what each client has applied) is a function of the run and
lives in the proof layer (Lemmas/Conc.lean, `WbReach`). -/
structure Sys where
  srv : Server
  flights : List InFlight := []
  hist : List Done := []

def Sys.init (cfg : Config := {}) : Sys := { srv := Server.init cfg }

/-- lock table (derived): the `pull` keys held -/
def Sys.locks (σ : Sys) : List LockKey := σ.flights.map (·.lock)

def Sys.lockFree (σ : Sys) (k : LockKey) : Bool := !σ.locks.contains k

/-! ### handler prefixes -/

/-- everything a handler does between taking its locks and calling `packs.PushPull`; for `attach`
this writes (`FindOrCreateDocInfo`, `TryAttaching`) -/
def begin (s : Server) : Request → Server × Except ErrKind Flight
  | .attach c key pack dp nogc =>
    match s.findActiveClient c with
    | .error e => (s, .error e)
    | .ok info =>
      match (findOrCreateDoc s key dp).1.findDoc (findOrCreateDoc s key dp).2 with
      | none => ((findOrCreateDoc s key dp).1, .error .documentNotFound)  -- unreachable
      | some doc =>
        match clientsAttach (findOrCreateDoc s key dp).1 c info (findOrCreateDoc s key dp).2 doc.epoch
                (pack.cp.serverSeq != 0) with
        | (s2, .error e) => (s2, .error e)
        | (s2, .ok info2) =>
          (s2, .ok (mkFlight c (findOrCreateDoc s key dp).2 info2 pack false .attached nogc doc.disablePresence))
  | .pushpull c d pack po nogc =>
    match s.findActiveClient c with
    | .error e => (s, .error e)
    | .ok info =>
      match info.ensureAttached d with
      | .error e => (s, .error e)
      | .ok _ =>
        match s.findDoc d with
        | none => (s, .error .documentNotFound)
        | some doc => (s, .ok (mkFlight c d info pack po .attached nogc doc.disablePresence))
  | .detach c d pack =>
    match s.findActiveClient c with
    | .error e => (s, .error e)
    | .ok info =>
      match detachGuard s info d with
      | .error e => (s, .error e)
      | .ok _ =>
        match s.findDoc d with
        | none => (s, .error .documentNotFound)
        | some doc =>
          (s, .ok (mkFlight c d info (detachMode s c d pack).1 false (detachMode s c d pack).2 false doc.disablePresence))
  | .remove c d pack =>
    match s.findActiveClient c with
    | .error e => (s, .error e)
    | .ok info =>
      match detachGuard s info d with
      | .error e => (s, .error e)
      | .ok _ =>
        match s.findDoc d with
        | none => (s, .error .documentNotFound)
        | some doc => (s, .ok (mkFlight c d info pack false .removed false doc.disablePresence))
  | .activate => (s, .error .internal)
  | .deactivate _ _ => (s, .error .internal)

/-- what the handler makes of `PushPull`'s result (`AttachDocumentResponse.DocumentId`) -/
def respOf (req : Request) (f : Flight) : Resp :=
  match req with
  | .attach _ _ _ _ _ => { f.resp with doc := some f.doc }
  | _ => f.resp

/-- one request run alone from start to end -/
def solo (s : Server) (req : Request) : Result :=
  match begin s req with
  | (s1, .error e) => (s1, .error e)
  | (s1, .ok f) =>
    match pushPull s1 f with
    | (s2, .ok f') => (s2, .ok (respOf req f'))
    | (s2, .error e) => (s2, .error e)

/-! ### steps -/

/-- a request takes its `pull` lock and runs the handler prefix -/
def startFlight (s : Server) (id : Nat) (req : Request) (lost : Bool) : Server × InFlight :=
  match begin s req with
  | (s1, .ok f) => (s1, { id := id, req := req, lock := lockOf s req, lost := lost, pc := .validate, f := f })
  | (s1, .error e) =>
    (s1, { id := id, req := req, lock := lockOf s req, lost := lost, pc := .done, f := default, out := .error e })

/-- an in-flight request runs its next phase -/
def stepFlight (s : Server) (r : InFlight) : Server × InFlight :=
  match r.pc.phase s r.f with
  | (s', .ok f') =>
    (s', { r with f := f', pc := r.pc.next,
                  out := if r.pc.next = .done then .ok (respOf r.req f') else r.out })
  | (s', .error e) => (s', { r with pc := .done, out := .error e })

inductive Item
  | activate
  | start (id : Nat) (req : Request) (lost : Bool)
  /-- run the next phase of the in-flight request `id` -/
  | phase (id : Nat)
  /-- the handler of `id` returns: `pull` released, response on its way -/
  | finish (id : Nat)
deriving Repr, Inhabited

def isReq : Request → Bool
  | .activate => false
  | .deactivate _ _ => false
  | _ => true

def Sys.doneOf (r : InFlight) : Done := { id := r.id, req := r.req, lost := r.lost, out := r.out }

/-- The small-step relation.  `start`: the `pull` key is free.  `phase`: any in-flight request
that has not returned runs its next phase atomically.  `finish`: a request whose `PushPull` has
returned releases `pull`; its result is appended to the history. -/
inductive Step : Sys → Sys → Prop
  | activate (σ : Sys) : Step σ { σ with srv := (Server.activate σ.srv).1 }
  | start (σ : Sys) (id : Nat) (req : Request) (lost : Bool) (hreq : isReq req = true)
      (hfree : σ.lockFree (lockOf σ.srv req) = true) :
      Step σ { σ with srv := (startFlight σ.srv id req lost).1,
                      flights := σ.flights ++ [(startFlight σ.srv id req lost).2] }
  | phase (σ : Sys) (pre post : List InFlight) (r : InFlight) (hf : σ.flights = pre ++ r :: post)
      (hpc : r.pc ≠ .done) :
      Step σ { σ with srv := (stepFlight σ.srv r).1, flights := pre ++ (stepFlight σ.srv r).2 :: post }
  | finish (σ : Sys) (pre post : List InFlight) (r : InFlight) (hf : σ.flights = pre ++ r :: post)
      (hpc : r.pc = .done) :
      Step σ { σ with flights := pre ++ post, hist := Sys.doneOf r :: σ.hist }

/-- reachable from the empty server -/
inductive Reachable (cfg : Config) : Sys → Prop
  | init : Reachable cfg (Sys.init cfg)
  | step {σ σ' : Sys} : Reachable cfg σ → Step σ σ' → Reachable cfg σ'

/-! ### executable scheduler step (driver) -/

def splitAt (id : Nat) : List InFlight → Option (List InFlight × InFlight × List InFlight)
  | [] => none
  | r :: rest =>
    if r.id = id then some ([], r, rest)
    else match splitAt id rest with
      | none => none
      | some (pre, x, post) => some (r :: pre, x, post)

/-- execute one schedule item; an item that is not enabled (lock held, unknown request, phase of a
request that has returned, finish of one that has not) leaves the system unchanged -/
def stepFn (σ : Sys) : Item → Sys
  | .activate => { σ with srv := (Server.activate σ.srv).1 }
  | .start id req lost =>
    if isReq req && σ.lockFree (lockOf σ.srv req) then
      { σ with srv := (startFlight σ.srv id req lost).1,
               flights := σ.flights ++ [(startFlight σ.srv id req lost).2] }
    else σ
  | .phase id =>
    match splitAt id σ.flights with
    | none => σ
    | some (pre, r, post) =>
      if r.pc = .done then σ
      else { σ with srv := (stepFlight σ.srv r).1, flights := pre ++ (stepFlight σ.srv r).2 :: post }
  | .finish id =>
    match splitAt id σ.flights with
    | none => σ
    | some (pre, r, post) =>
      if r.pc = .done then { σ with flights := pre ++ post, hist := Sys.doneOf r :: σ.hist }
      else σ

def runItems (σ : Sys) (items : List Item) : Sys := items.foldl stepFn σ

/-- the in-flight request `id` -/
def Sys.flight? (σ : Sys) (id : Nat) : Option InFlight := σ.flights.find? (·.id == id)

/-- the latest finished request `id` -/
def Sys.done? (σ : Sys) (id : Nat) : Option Done := σ.hist.find? (·.id == id)

end Yorkie.Conc
