/-
Snapshot storage framing: `CompressSnapshot` / `DecompressSnapshot`
(server/backend/database/snapshot_encoding.go).

The zstd codec is **abstract**: a pair `compress : Bytes → Bytes`, `decompress : Bytes → Option
Bytes` passed as a parameter; `Zstd.Sound` (`decompress (compress b) = some b`) is a hypothesis
of the round-trip theorem and is recorded as trusted (klauspost/compress is not modelled).

Faithful framing:
* `CompressSnapshot`:   empty ↦ empty;  otherwise `0x01 :: compress data`
* `DecompressSnapshot`: empty ↦ empty;  first byte ≠ 0x01 ↦ the input itself (legacy raw
  protobuf, **no validation at this layer**);  first byte = 0x01 ↦ `decompress rest`, whose
  failure is the only way this function rejects.
-/
import YorkieModel.Model.ByteCodec
namespace Yorkie
namespace SnapshotHeader

structure Zstd where
  compress : Bytes → Bytes
  decompress : Bytes → Option Bytes

def Zstd.Sound (z : Zstd) : Prop := ∀ b, z.decompress (z.compress b) = some b

/-- `SnapshotFormatZstd` -/
def formatZstd : UInt8 := 1

/-- `CompressSnapshot` -/
def frame (z : Zstd) (d : Bytes) : Bytes :=
  match d with
  | [] => []
  | _ :: _ => formatZstd :: z.compress d

/-- `DecompressSnapshot` -/
def unframe (z : Zstd) (s : Bytes) : Option Bytes :=
  match s with
  | [] => some []
  | h :: r => if h = formatZstd then z.decompress r else some s

/-- how `DecompressSnapshot` classifies its input -/
inductive Class | empty | legacy | zstd
deriving DecidableEq, Repr

def classify : Bytes → Class
  | [] => .empty
  | h :: _ => if h = formatZstd then .zstd else .legacy

end SnapshotHeader
end Yorkie
