/-
L1 Text, garbage collection: `Root.GarbageCollect(vector)` restricted to one `crdt.Text`.

Go anchors: pkg/document/crdt/root.go (`GarbageCollect`: every pair of `gcNodePairMap` whose child's
`RemovedAt()` satisfies `vector.EqualToOrAfter(removedAt)` is purged; `RegisterGCPair`: the map is
keyed by `Child.IDString()` and a second registration of the same key DELETES the entry),
pkg/document/crdt/rga_tree_split.go (`RGATreeSplit.Purge`: unlink from the list, `treeByID.Remove`,
`insPrev.insNext = insNext`, `insNext.insPrev = insPrev`; `findFloorNodePreferToLeft`: "InsPrev may
not be present due to GC" – already in `Text.findFloorPreferLeft`), pkg/document/crdt/text.go
(`Text.Style`/`RemoveStyle`: which attribute nodes are handed to `RegisterGCPair`; `TextValue.Purge`),
pkg/document/crdt/rht.go (`RHT.Set` returns the OLD node when it was removed – also when the new
value lost; `RHT.Remove` returns the old removed node and the new one; `RHT.Purge`: delete the key
iff the node now stored under it has the child's `IDString`, i.e. the same `updatedAt`).

Modelling decisions (trusted base, in addition to Model/Text.lean):
  * text NODES: without undo/redo every tombstone is registered exactly once (`Remove` returns true
    only for a live node; a piece split off a tombstone is registered through `pendingGCPairs`; a
    rebuilt root registers `Text.GCPairs()`), so the set of registered nodes IS the set of
    tombstones and is not kept as state; the order in which Go walks its map is fixed to list
    order (the result does not depend on it: `Lemmas/TextGc.lean`, `purge_core`);
  * ATTRIBUTE tombstones: whether one is purged depends on the registration table, which is keyed by
    `updatedAt:key` WITHOUT the owner and toggles (known finding C09-n2); the table `AttrReg` is
    explicit state, updated by `regStyle` (what `Style.Execute` registers) and rebuilt by
    `regRebuild` (what `NewRoot` registers after DeepCopy / snapshot decode);
  * `DocSize` accounting is not modelled.
-/
import YorkieModel.Model.Text
namespace Yorkie.Text

/-! ### text nodes -/

/-- `removedAt != nil && vector.EqualToOrAfter(removedAt)` -/
def purgeable (vv : VV) (n : TNode) : Bool :=
  match n.removedAt with
  | none => false
  | some r => vv.equalToOrAfter r

/-- `RGATreeSplit.Purge(node)`: the node leaves the list and the by-id tree; its insertion successor
    is linked to its insertion predecessor -/
def purgeNode (s : TextSt) (i : Id) : TextSt :=
  match findById s i with
  | none => s
  | some n =>
    (List.filter (fun m => m.id != i) s).map
      (fun m => if m.insPrev = some i then { m with insPrev := n.insPrev } else m)

/-- the node part of `Root.GarbageCollect(vv)` -/
def purge (vv : VV) (s : TextSt) : TextSt :=
  ((List.filter (purgeable vv) s).map (·.id)).foldl purgeNode s

/-! ### attribute tombstones -/

/-- `gcNodePairMap` restricted to attribute nodes: key `(updatedAt, attribute key)` ↦ owner node id -/
abbrev AttrReg := List ((Ticket × String) × Id)

def regHas (reg : AttrReg) (k : Ticket × String) : Bool := reg.any (fun e => e.1 == k)

/-- `RegisterGCPair`: a key that is already present is DELETED, otherwise the pair is stored -/
def regToggle (reg : AttrReg) (k : Ticket × String) (owner : Id) : AttrReg :=
  if regHas reg k then List.filter (fun e => e.1 != k) reg else reg ++ [(k, owner)]

/-- the pairs `Text.Style` collects on one node: for every key the OLD node if it was removed -/
def setPairs (as : List AttrNode) (kvs : List (String × String)) : List (Ticket × String) :=
  kvs.filterMap (fun kv =>
    match attrGet as kv.1 with
    | some old => if old.removed then some (old.updatedAt, kv.1) else none
    | none => none)

/-- the pairs `Text.RemoveStyle` collects on one node (`RHT.Remove` per key, in order) -/
def remPairs (ts : Ticket) : List AttrNode → List String → List (Ticket × String)
  | _, [] => []
  | as, k :: ks =>
    let here : List (Ticket × String) :=
      match attrGet as k with
      | none => [(ts, k)]
      | some old =>
        if ts.after old.updatedAt then
          (if old.removed then [(old.updatedAt, k)] else []) ++ [(ts, k)]
        else []
    here ++ remPairs ts (rhtRemove as k ts) ks

/-- the nodes a style pass visits, in list order, with the registers they hold BEFORE the pass -/
def styledNodes (fr to : Pos) (ts : Ticket) (vv : Option VV) (s : TextSt) : List TNode :=
  match findNodeWithSplit s to ts with
  | .error _ => []
  | .ok (s1, _, toRight) =>
    match findNodeWithSplit s1 fr ts with
    | .error _ => []
    | .ok (s2, _, fromRight) =>
      let ids := between s2 fromRight toRight
      List.filter (fun n => ids.contains n.id && canStyle ts vv n) s2

/-- what `operations.Style.Execute` hands to `RegisterGCPair` (removal pass first, then the setting
    pass on the result), folded into the table -/
def regStyle (fr to : Pos) (attrs : List (String × String)) (keys : List String) (ts : Ticket)
    (vv : Option VV) (s : TextSt) (reg : AttrReg) : AttrReg :=
  let reg1 :=
    if keys.isEmpty then reg
    else (styledNodes fr to ts vv s).foldl
      (fun r n => (remPairs ts n.attrs keys).foldl (fun r k => regToggle r k n.id) r) reg
  let s1 :=
    if keys.isEmpty then s
    else match removeStyle fr to keys ts vv s with
      | .ok x => x
      | .error _ => s
  if attrs.isEmpty then reg1
  else (styledNodes fr to ts vv s1).foldl
    (fun r n => (setPairs n.attrs attrs).foldl (fun r k => regToggle r k n.id) r) reg1

/-- `NewRoot` → `Text.GCPairs()`: every removed attribute node of every node, in list order, through
    the same toggling registration -/
def regRebuild (s : TextSt) : AttrReg :=
  (s.drop 1).foldl
    (fun r n => (List.filter (fun a => a.removed) n.attrs).foldl
      (fun r a => regToggle r (a.updatedAt, a.key) n.id) r) []

/-- `RHT.Purge(child)` on the register of the owner -/
def purgeAttrOf (k : Ticket × String) (as : List AttrNode) : List AttrNode :=
  List.filter (fun a => !(a.key == k.2 && a.updatedAt == k.1)) as

/-- the attribute part of `Root.GarbageCollect(vv)`: every registered pair whose ticket is covered is
    purged on its owner (a no-op when the owner is gone or holds a newer node under that key) and
    leaves the table -/
def purgeAttrs (vv : VV) (reg : AttrReg) (s : TextSt) : TextSt × AttrReg :=
  let hit := List.filter (fun e => vv.equalToOrAfter e.1.1) reg
  (s.map (fun n =>
      { n with attrs := (List.filter (fun e => e.2 == n.id) hit).foldl (fun as e => purgeAttrOf e.1 as) n.attrs }),
    List.filter (fun e => !(vv.equalToOrAfter e.1.1)) reg)

end Yorkie.Text
