/-
L4 (undo/redo layer): reverse operations, identity reuse and the per-document history machine.

Go anchors: pkg/document/history.go, pkg/document/document.go (`Update`, `executeUndoRedo`),
pkg/document/change/{context,change}.go (`IssueTimeTicket`, `Change.Execute`),
pkg/document/operations/{set,add,remove,move,array_set,increase,operation}.go.

Built next to Model/Crdt.lean (same heap `Doc := Ticket → Option Elem`). What is new here:
  * operations carry a *value* `UVal` with its own identity `id` (Go: `value.CreatedAt()`), separate
    from the execution ticket `ts` (Go: `executedAt`), and possibly a captured subtree (`DeepCopy`);
  * `uexecute` returns the reverse operation, built BEFORE the mutation, and knows the undo/redo
    source (`isRemovedOrOrphaned` skip rule);
  * `Hist`: undo/redo stacks with the depth limit, `ReconcileCreatedAt`, re-ticketing in
    `executeUndoRedo`.

Abstractions (named gaps):
  * one heap entry per identity: after an array element `x` with content is restored under a new
    identity `x'`, Go holds two physical copies of every descendant (below the tombstone `x` and
    below `x'`). The model keeps one entry per descendant: the REGISTERED one. With the repair
    hooks/fix-c14-reconcile-parent.patch (switch `fixReconcileParent := true`, see below) that is
    all Go reads: `isRemovedOrOrphaned` lets only the registered instance define a parent,
    `RegisterElement` does not let what lies below a tombstone take a registration away, and
    `deregisterElement` only drops a registration of the element being collected. For the tree
    BEFORE the repair (`false` instances) `tw` ("twinned") remembers which identities have a dead
    twin, because there `isRemovedOrOrphaned` resolved the parent of a twinned identity to the
    DEAD copy (parents map filled in traversal order, the tombstone comes later) and skipped;
    the old tree also ran operations with a stale parent on the dead copy, which a one-entry heap
    cannot follow (harness argument `reid=old` keeps those traces out of the comparison).
  * a REMOTE operation whose parent is the OLD identity of an array element that an undo/redo
    re-inserted under a fresh identity (the peer had not seen the re-insertion): Go applies it to
    the tombstone, whose children are physically distinct from the copy's although they share
    their identities - invisible, replicas converge on the restored content; the single heap
    entry per identity cannot express that (the copy's member would be hit). Not a finding; the
    harness stops comparing such a trace at the delivery (corpus/C15/undo-remote-into-old-identity).
  * `Root.DeregisterElement` under `OpSourceUndoRedo` only matters for GC registries (see the
    fragment Model/UndoGc.lean); element-map entries of unreachable elements are kept.
  * a restoring `Set` that LOSES the LWW comparison against a live occupant of the SAME identity (two
    replicas restored the same element concurrently) overwrites the single heap entry with the
    tombstoned loser, where Go keeps the live occupant linked by key and registers the loser beside
    it; such histories lie inside the listed finding c15-reuse-concurrent and are not compared.
  * `Object.DeepCopy` copies every RHT node; the model copies the winner of every key (all that
    `Marshal` and later local edits can reach), and of a REMOVED descendant only kind and leaf value
    (`emptied`): its content stays invisible for ever.
-/
import YorkieModel.Model.Crdt
import YorkieModel.Generated.Consts
namespace Yorkie.Undo
open Yorkie Yorkie.Crdt

inductive Source | loc | remote | undoRedo
deriving DecidableEq, Repr

/-- `OpSource.NeedsReverse` -/
def Source.needsReverse : Source → Bool
  | .loc => true
  | .undoRedo => true
  | .remote => false

/-- the value carried by Set / Add / ArraySet: identity, top-level flags, body and the heap entries
    of its strict descendants in `Descendants` traversal order (what `DeepCopy` produced). -/
structure UVal where
  id : Ticket
  removed : Bool := false
  body : Body
  sub : List (Ticket × Elem) := []

def UVal.ofVal (v : Val) (id : Ticket) : UVal := { id := id, body := v.body }

inductive UOp
  | set (parent : Ticket) (key : String) (val : UVal) (ts : Ticket)
  | add (parent prev : Ticket) (val : UVal) (ts : Ticket)
  | move (parent prev target ts : Ticket)
  | remove (parent target ts : Ticket)
  | arraySet (parent target : Ticket) (val : UVal) (ts : Ticket)
  | increase (parent : Ticket) (delta : Int) (ts : Ticket)

/-- embedding of the ordinary operations (value identity = execution ticket) -/
def UOp.ofOp : Op → UOp
  | .set p k v t => .set p k (.ofVal v t) t
  | .add p prev v t => .add p prev (.ofVal v t) t
  | .move p prev target t => .move p prev target t
  | .remove p target t => .remove p target t
  | .arraySet p target v t => .arraySet p target (.ofVal v t) t
  | .increase p d t => .increase p d t

inductive UErr
  /-- `ErrOperationSkipped` -/
  | skipped
  | err (e : Err)
deriving DecidableEq, Repr

/-! ### `DeepCopy` -/

def lookupSub : List (Ticket × Elem) → Ticket → Option Elem
  | [], _ => none
  | (k, e) :: r, t => match lookupSub r t with
    | some e' => some e'          -- later entries win (Go: later `RegisterElement` overwrites)
    | none => if k = t then some e else none

/-- `a.LastCreatedAt()`: the POSITION identity of the last node, which `RGATreeList.Add` anchors on
    (since the repository fix "anchor RGATreeList.Add on the last position, not the last element") -/
def lastKey (nodes : List PosNode) : Ticket :=
  match nodes.getLast? with
  | none => headId
  | some n => n.pos

/-- one iteration of `Array.DeepCopy` -/
def arrCopyStep (moved : Ticket → Option Ticket) (acc : List PosNode) (n : PosNode) : List PosNode :=
  match n.elem with
  | none => acc ++ [n]
  | some c =>
    match moved c with
    | some _ => acc ++ [n]
    | none => (insertAfter (lastKey acc) ⟨c, some c⟩ acc).getD acc

/-- node order produced by `Array.DeepCopy` (`Add` = insert after the last position with the skip
    rule; equals the input when position identities are unique) -/
def arrCopy (nodes : List PosNode) (moved : Ticket → Option Ticket) : List PosNode :=
  nodes.foldl (arrCopyStep moved) []

/-- what the model keeps of a REMOVED descendant inside a copy: its kind and leaf value, not its
    content (Go keeps the content; it can never become visible again - a removed child is only ever
    revived through its own reverse operation, which carries its own full copy) -/
def emptied : Body → Body
  | .obj _ _ => emptyObj
  | .arr _ _ => .arr [] (fun _ => none)
  | b => b

def copyChild (look : Ticket → Option Elem) (rec : Ticket → Body → Body × List (Ticket × Elem))
    (par : Ticket) (c : Option Ticket) : List (Ticket × Elem) :=
  match c with
  | none => []
  | some c =>
    match look c with
    | none => []
    | some ce =>
      if ce.removed then [(c, { ce with parent := some par, body := emptied ce.body })]
      else
        let r := rec c ce.body
        -- the copy hangs below the container it was reached through
        (c, { ce with parent := some par, body := r.1 }) :: r.2

def memberChild (member : String → Option Member) (k : String) : Option Ticket :=
  (member k).map (·.child)

/-- `Element.DeepCopy` of the body of element `self` whose children are resolved by `look`;
    fuel = nesting depth -/
def copyBody (look : Ticket → Option Elem) : Nat → Ticket → Body → Body × List (Ticket × Elem)
  | 0, _, b => (b, [])
  | f + 1, self, b =>
    match b with
    | .obj keys member =>
      (b, keys.flatMap (fun k => copyChild look (copyBody look f) self (memberChild member k)))
    | .arr nodes moved =>
      (.arr (arrCopy nodes moved) moved,
       nodes.flatMap (fun n => copyChild look (copyBody look f) self n.elem))
    | _ => (b, [])

def copyFuel : Nat := 64

/-- `DeepCopy` of the registered element `t` (top-level `removed` is copied as well) -/
def capture (d : Doc) (t : Ticket) : Option UVal :=
  match d t with
  | none => none
  | some e =>
    let r := copyBody d copyFuel t e.body
    some { id := t, removed := e.removed, body := r.1, sub := r.2 }

/-- `value.SetCreatedAt(id')`: the children that pointed to the old identity now hang below the new -/
def reparent (old new : Ticket) (p : Ticket × Elem) : Ticket × Elem :=
  if p.2.parent = some old then (p.1, { p.2 with parent := some new }) else p

def UVal.reid (v : UVal) (id' : Ticket) : UVal :=
  { v with id := id', sub := v.sub.map (reparent v.id id') }

def writeAll (d : Doc) : List (Ticket × Elem) → Doc
  | [] => d
  | (t, e) :: r => writeAll (d.set t e) r

/-- `o.value.DeepCopy()` inside `Execute`, then `RegisterElement(value)` (value and descendants) -/
def instantiate (d : Doc) (parent : Ticket) (v : UVal) (removed : Bool) : Doc :=
  let r := copyBody (lookupSub v.sub) copyFuel v.id v.body
  (writeAll d r.2).set v.id ⟨some parent, removed, r.1⟩

/-! ### the skip rule -/

/-- `isRemovedOrOrphaned`: the element or an ancestor is removed; a twinned identity resolves to its
    dead copy, whose top is a tombstone. -/
def orphaned (d : Doc) (tw : Ticket → Bool) : Nat → Ticket → Bool
  | 0, _ => false
  | f + 1, t =>
    match d t with
    | none => false
    | some e => e.removed || tw t ||
      match e.parent with
      | some p => orphaned d tw f p
      | none => false

def orphanFuel : Nat := 64

/-! ### reverse operations -/

/-- walk back over dead slots and removed elements (`FindPrevCreatedAt`); `rev` is the reversed
    prefix before the target's node -/
def prevLive (d : Doc) : List PosNode → Ticket
  | [] => headId
  | n :: r =>
    match n.elem with
    | none => prevLive d r
    | some c =>
      match d c with
      | some ce => if ce.removed then prevLive d r else n.pos
      | none => prevLive d r

def prefixBefore (target : Ticket) : List PosNode → List PosNode → Option (List PosNode)
  | _, [] => none
  | acc, n :: r => if n.elem = some target then some acc else prefixBefore target (n :: acc) r

/-- `RGATreeList.FindPrevCreatedAt` -/
def findPrev (d : Doc) (nodes : List PosNode) (target : Ticket) : Option Ticket :=
  (prefixBefore target [] nodes).map (prevLive d)

/-- `ElementRHT.SubPathOf` restricted to key winners -/
def keyOf (keys : List String) (member : String → Option Member) (target : Ticket) : Option String :=
  keys.find? (fun k => memberChild member k == some target)

/-- `ElementRHT.Get` -/
def liveMember (d : Doc) (member : String → Option Member) (key : String) : Option Ticket :=
  match member key with
  | none => none
  | some m =>
    match d m.child with
    | some ce => if ce.removed then none else some m.child
    | none => none

/-- `RGATreeList.GetByID(...).Element()` -/
def arrGetByID (nodes : List PosNode) (target : Ticket) : Option Ticket :=
  if holds nodes target then some target
  else (nodes.find? (fun n => n.pos = target)).bind (·.elem)

/-! ### executor -/

def applySetU (d : Doc) (parent : Ticket) (key : String) (val : UVal) (ts : Ticket) : Except Err Doc :=
  match d parent with
  | some pe =>
    match pe.body with
    | .obj keys member =>
      match member key with
      | none =>
        let pe' := { pe with body := .obj (insertKey key keys) (fun k => if k = key then some ⟨val.id, ts⟩ else member k) }
        .ok ((instantiate d parent val val.removed).set parent pe')
      | some m =>
        if ts.after m.positionedAt then
          let pe' := { pe with body := .obj keys (fun k => if k = key then some ⟨val.id, ts⟩ else member k) }
          .ok ((instantiate (markRemoved d m.child ts) parent val val.removed).set parent pe')
        else
          .ok (instantiate d parent val true)
    | _ => .error .notApplicable
  | none => .error .notApplicable

def applyAddU (d : Doc) (parent prev : Ticket) (val : UVal) (ts : Ticket) : Except Err Doc :=
  match d parent with
  | some pe =>
    match pe.body with
    | .arr nodes moved =>
      match arrAdd prev ts ⟨nodes, moved⟩ with
      | some a => .ok ((instantiate d parent val val.removed).set parent { pe with body := .arr a.nodes a.moved })
      | none => .error .childNotFound
    | _ => .error .notApplicable
  | none => .error .notApplicable

def applyArraySetU (d : Doc) (parent target : Ticket) (val : UVal) (ts : Ticket) : Except Err Doc :=
  match d parent with
  | some pe =>
    match pe.body with
    | .arr nodes moved =>
      if !(isChildOf d target parent) then .error .childNotFound
      else match arrSet target ts ⟨nodes, moved⟩ with
        | some a =>
          .ok (markRemoved ((instantiate d parent val val.removed).set parent { pe with body := .arr a.nodes a.moved }) target ts)
        | none => .error .childNotFound
    | _ => .error .notApplicable
  | none => .error .notApplicable

/-- reverse of `Set`: restore the live previous value of the key, or remove the new one -/
def reverseSet (d : Doc) (parent : Ticket) (key : String) (val : UVal) (ts : Ticket) : Option UOp :=
  match d parent with
  | some pe =>
    match pe.body with
    | .obj _ member =>
      match liveMember d member key with
      | some c =>
        match capture d c with
        | some cv => some (.set parent key cv ts)
        | none => some (.remove parent val.id ts)
      | none => some (.remove parent val.id ts)
    | _ => none
  | none => none

/-- `Remove.toReverseOperation`; `none` inside `Except` = childNotFound from `FindPrevCreatedAt` -/
def reverseRemove (d : Doc) (parent target ts : Ticket) : Except Err (Option UOp) :=
  match capture d target with
  | none => .ok none
  | some cv =>
    match d parent with
    | some pe =>
      match pe.body with
      | .arr nodes _ =>
        match findPrev d nodes target with
        | some prev => .ok (some (.add parent prev cv ts))
        | none => .error .childNotFound
      | .obj keys member =>
        match keyOf keys member target with
        | some k => .ok (some (.set parent k cv ts))
        | none => .ok none
      | _ => .ok none
    | none => .ok none

def reverseMove (d : Doc) (parent target ts : Ticket) : Except Err (Option UOp) :=
  match d parent with
  | some pe =>
    match pe.body with
    | .arr nodes _ =>
      match findPrev d nodes target with
      | some prev => .ok (some (.move parent prev target ts))
      | none => .error .childNotFound
    | _ => .ok none
  | none => .ok none

def reverseArraySet (d : Doc) (parent target : Ticket) (val : UVal) (ts : Ticket) : Option UOp :=
  match d parent with
  | some pe =>
    match pe.body with
    | .arr nodes _ =>
      match arrGetByID nodes target with
      | some c => (capture d c).map (fun cv => .arraySet parent val.id cv ts)
      | none => none
    | _ => none
  | none => none

def reverseIncrease (d : Doc) (parent : Ticket) (delta : Int) (ts : Ticket) : Option UOp :=
  match d parent with
  | some pe =>
    match pe.body with
    | .counter long _ => some (.increase parent (wrap long (-delta)) ts)
    | _ => none
  | none => none

def liftE {α} : Except Err α → Except UErr α
  | .ok a => .ok a
  | .error e => .error (.err e)

def isObj (d : Doc) (t : Ticket) : Bool :=
  match d t with
  | some e => match e.body with | .obj _ _ => true | _ => false
  | none => false

def isContainer (d : Doc) (t : Ticket) : Bool :=
  match d t with
  | some e => match e.body with | .obj _ _ => true | .arr _ _ => true | _ => false
  | none => false

def gate (b : Bool) (r : Option UOp) : Option UOp := if b then r else none

/-- `Operation.Execute(root, source, _)`: the new document and the reverse operation.
    `tw` is read only under `undoRedo`. Add/ArraySet require `val.id = ts` (`executeUndoRedo`
    re-identifies their values with the execution ticket; the json layer issues one ticket). -/
def uexecute (d : Doc) (tw : Ticket → Bool) (src : Source) : UOp → Except UErr (Doc × Option UOp)
  | .set p k v ts =>
    if !(isObj d p) then .error (.err .notApplicable)
    else if src = .undoRedo && orphaned d tw orphanFuel p then .error .skipped
    else (liftE (applySetU d p k v ts)).map (fun d' => (d', gate src.needsReverse (reverseSet d p k v ts)))
  | .add p prev v ts =>
    if v.id ≠ ts then .error (.err .unsupported)
    else (liftE (applyAddU d p prev v ts)).map (fun d' => (d', gate src.needsReverse (some (.remove p v.id ts))))
  | .move p prev target ts =>
    if src.needsReverse then
      match d p with
      | some pe =>
        match pe.body with
        | .arr _ _ =>
          match reverseMove d p target ts with
          | .error e => .error (.err e)
          | .ok r => (liftE (applyMove d p prev target ts)).map (fun d' => (d', r))
        | _ => .error (.err .notApplicable)
      | none => .error (.err .notApplicable)
    else (liftE (applyMove d p prev target ts)).map (fun d' => (d', none))
  | .remove p target ts =>
    if !(isContainer d p) then (liftE (applyRemove d p target ts)).map (fun d' => (d', none))
    else if src = .undoRedo && orphaned d tw orphanFuel target then .error .skipped
    else if src.needsReverse then
      match reverseRemove d p target ts with
      | .error e => .error (.err e)
      | .ok r => (liftE (applyRemove d p target ts)).map (fun d' => (d', r))
    else (liftE (applyRemove d p target ts)).map (fun d' => (d', none))
  | .arraySet p target v ts =>
    if v.id ≠ ts then .error (.err .unsupported)
    else (liftE (applyArraySetU d p target v ts)).map (fun d' => (d', gate src.needsReverse (reverseArraySet d p target v ts)))
  | .increase p delta ts =>
    (liftE (applyIncrease d p delta)).map (fun d' => (d', gate src.needsReverse (reverseIncrease d p delta ts)))

/-! ### history -/

def maxDepth : Nat := Generated.Consts.maxUndoRedoStackDepth

structure Hist where
  doc : Doc := Doc.init
  /-- identities that have a dead twin (see header) -/
  tw : Ticket → Bool := fun _ => false
  /-- head = most recent entry -/
  undo : List (List UOp) := []
  redo : List (List UOp) := []
  /-- lamport of `d.doc.changeID` -/
  lamport : Int := 0
  actor : Actor := 0

/-- `PushUndo` / `PushRedo`: drop the oldest entry when full -/
def push (stack : List (List UOp)) (e : List UOp) : List (List UOp) :=
  if stack.length ≥ maxDepth then e :: stack.dropLast else e :: stack

def rw (a b t : Ticket) : Ticket := if t = a then b else t

/-- ONE-LINE SWITCH. `true`: the model of the tree WITH hooks/fix-c14-reconcile-parent.patch
    (`ReconcileCreatedAt` also rewrites `parentCreatedAt`, the rest of the entry being executed is
    reconciled too, `isRemovedOrOrphaned` lets only the registered instance of an identity define
    its parent, `RegisterElement` does not let what lies below a tombstone take a registration
    away). `false`: the tree before that repair (listed finding F-C14-array-reid in full).
    Every definition below exists as `…W (fx : Bool)`; the unsuffixed name is the instance at
    this switch, so the `false` instance stays available for the witnesses of the old behaviour. -/
def fixReconcileParent : Bool := true

/-- the parent of a stacked operation is rewritten only by the repaired `ReconcileCreatedAt` -/
def rwp (fx : Bool) (a b t : Ticket) : Ticket := if fx then rw a b t else t

/-- one case of `History.ReconcileCreatedAt` (`ReconcileEntryCreatedAt` in the repaired tree) -/
def reconcileOpW (fx : Bool) (a b : Ticket) : UOp → UOp
  | .arraySet p target v ts => .arraySet (rwp fx a b p) (rw a b target) v ts
  | .remove p target ts => .remove (rwp fx a b p) (rw a b target) ts
  | .move p prev target ts => .move (rwp fx a b p) (rw a b prev) (rw a b target) ts
  | .add p prev v ts => .add (rwp fx a b p) (rw a b prev) v ts
  | .set p k v ts => .set (rwp fx a b p) k v ts
  | .increase p dl ts => .increase (rwp fx a b p) dl ts

def reconcileStackW (fx : Bool) (a b : Ticket) (s : List (List UOp)) : List (List UOp) :=
  s.map (fun e => e.map (reconcileOpW fx a b))

def Hist.reconcileW (fx : Bool) (h : Hist) (a b : Ticket) : Hist :=
  { h with undo := reconcileStackW fx a b h.undo, redo := reconcileStackW fx a b h.redo }

def UOp.withTs : UOp → Ticket → UOp
  | .set p k v _, t => .set p k v t
  | .add p prev v _, t => .add p prev v t
  | .move p prev target _, t => .move p prev target t
  | .remove p target _, t => .remove p target t
  | .arraySet p target v _, t => .arraySet p target v t
  | .increase p dl _, t => .increase p dl t

/-- identities that get a dead twin when this operation executes (an Add carrying content) -/
def twinIds : UOp → List Ticket
  | .add _ _ v _ => v.sub.map (·.1)
  | _ => []

/-- before the repair the skip rule resolves a twinned identity to its dead copy; after it only the
    registered (live) instance counts, so nothing is ever marked -/
def addTwinsW (fx : Bool) (tw : Ticket → Bool) (ids : List Ticket) : Ticket → Bool :=
  if fx then tw else fun t => tw t || ids.contains t

/-- result of running the operations of one change -/
structure Run where
  doc : Doc
  tw : Ticket → Bool
  /-- reverse operations in execution order -/
  revs : List UOp := []
  executed : List UOp := []
  failed : Bool := false

/-- what the skip rule sees of the twin marks: nothing in the repaired tree (`isRemovedOrOrphaned`
    lets only the registered instance of an identity define its parent) -/
def twOf (fx : Bool) (tw : Ticket → Bool) : Ticket → Bool := if fx then fun _ => false else tw

/-- `Change.Execute`: skipped operations are dropped, the first real error aborts (no rollback) -/
def runOpsW (fx : Bool) (src : Source) : Run → List UOp → Run
  | r, [] => r
  | r, op :: rest =>
    match uexecute r.doc (twOf fx r.tw) src op with
    | .ok (d', rev) =>
      runOpsW fx src { r with doc := d', tw := addTwinsW fx r.tw (twinIds op),
                              revs := r.revs ++ rev.toList, executed := r.executed ++ [op] } rest
    | .error .skipped => runOpsW fx src r rest
    | .error (.err _) => { r with failed := true }

def reconcileSetsW (fx : Bool) (h : Hist) : List UOp → Hist
  | [] => h
  | .arraySet _ target v _ :: r => reconcileSetsW fx (h.reconcileW fx target v.id) r
  | _ :: r => reconcileSetsW fx h r

/-- `Document.Update` after the updater ran: execute on the root with `OpSourceLocal`, reconcile for
    executed ArraySets, push the reverses as ONE entry, clear redo when observable. -/
def doChangeW (fx : Bool) (h : Hist) (ops : List UOp) : Hist :=
  if ops.isEmpty then h else
  let r := runOpsW fx .loc { doc := h.doc, tw := h.tw } ops
  if r.failed then { h with doc := r.doc, tw := r.tw } else
  let h1 := reconcileSetsW fx h r.executed
  let undo' := if r.revs.isEmpty then h1.undo else push h1.undo r.revs.reverse
  { h1 with doc := r.doc, tw := r.tw, undo := undo',
            redo := if r.executed.isEmpty then h1.redo else [],
            lamport := h.lamport + 1 }

/-- the renamings earlier operations of the SAME entry caused, applied to a later one
    (`ReconcileEntryCreatedAt(entries[i+1:], …)`; only in the repaired `executeUndoRedo`) -/
def applyRen (fx : Bool) (ren : List (Ticket × Ticket)) (op : UOp) : UOp :=
  if fx then ren.foldl (fun o p => reconcileOpW fx p.1 p.2 o) op else op

/-- the loop of `executeUndoRedo` over the popped entry: fresh ticket per operation, re-identify the
    values of Add / ArraySet and reconcile the stacks (and, repaired, the rest of the entry: `ren`). -/
def reticketGo (fx : Bool) (h : Hist) : Nat → List (Ticket × Ticket) → List UOp → Hist × List UOp
  | _, _, [] => (h, [])
  | i, ren, op0 :: rest =>
    let t : Ticket := ⟨h.lamport + 1, i, h.actor⟩
    match applyRen fx ren op0 with
    | .add p prev v _ =>
      let r := reticketGo fx (h.reconcileW fx v.id t) (i + 1) (ren ++ [(v.id, t)]) rest
      (r.1, .add p prev (v.reid t) t :: r.2)
    | .arraySet p target v _ =>
      -- repaired: the restored value's own old identity follows it as well
      let h' := if fx then (h.reconcileW fx target t).reconcileW fx v.id t else h.reconcileW fx target t
      let r := reticketGo fx h' (i + 1) (ren ++ [(target, t), (v.id, t)]) rest
      (r.1, .arraySet p target (v.reid t) t :: r.2)
    | op =>
      let r := reticketGo fx h (i + 1) ren rest
      (r.1, op.withTs t :: r.2)

def reticketW (fx : Bool) (h : Hist) (i : Nat) (ops : List UOp) : Hist × List UOp :=
  reticketGo fx h i [] ops

inductive Outcome
  /-- empty stack (or empty entry): nothing happened -/
  | nothing
  /-- the entry ran but nothing was observable: no change is appended -/
  | noop
  /-- the change that was appended (all operations of the entry, skipped ones included) -/
  | change (ops : List UOp)
  /-- `Undo()`/`Redo()` returned an error -/
  | failed (ops : List UOp)

/-- `executeUndoRedo(isUndo)` -/
def undoRedoW (fx : Bool) (h : Hist) (isUndo : Bool) : Hist × Outcome :=
  match (if isUndo then h.undo else h.redo) with
  | [] => (h, .nothing)
  | entry :: restStack =>
    let h0 : Hist := if isUndo then { h with undo := restStack } else { h with redo := restStack }
    if entry.isEmpty then (h0, .nothing) else
    let (h1, ops) := reticketW fx h0 1 entry
    let r := runOpsW fx .undoRedo { doc := h1.doc, tw := h1.tw } ops
    -- the change runs on the clone first: an error returns before the root is touched
    if r.failed then (h1, .failed ops) else
    let revs := r.revs.reverse
    let h2 : Hist :=
      if revs.isEmpty then h1
      else if isUndo then { h1 with redo := push h1.redo revs }
      else { h1 with undo := push h1.undo revs }
    if r.executed.isEmpty then ({ h2 with doc := r.doc, tw := r.tw }, .noop)
    else ({ h2 with doc := r.doc, tw := r.tw, lamport := h.lamport + 1 }, .change ops)

/-- a remote change: operations with source `remote`, then `SyncClocks` (lamport := max + 1) -/
def applyRemoteW (fx : Bool) (h : Hist) (changeLamport : Int) (ops : List UOp) : Hist :=
  let r := runOpsW fx .remote { doc := h.doc, tw := h.tw } ops
  { h with doc := r.doc, tw := r.tw, lamport := Max.max h.lamport changeLamport + 1 }

/-! ### the instances at the switch (what the driver runs and the theorems speak about) -/

def reconcileOp (a b : Ticket) : UOp → UOp := reconcileOpW fixReconcileParent a b
def reconcileStack (a b : Ticket) (s : List (List UOp)) : List (List UOp) := reconcileStackW fixReconcileParent a b s
def Hist.reconcile (h : Hist) (a b : Ticket) : Hist := h.reconcileW fixReconcileParent a b
def addTwins (tw : Ticket → Bool) (ids : List Ticket) : Ticket → Bool := addTwinsW fixReconcileParent tw ids
def runOps (src : Source) (r : Run) (ops : List UOp) : Run := runOpsW fixReconcileParent src r ops
def reconcileSets (h : Hist) (ops : List UOp) : Hist := reconcileSetsW fixReconcileParent h ops
def doChange (h : Hist) (ops : List UOp) : Hist := doChangeW fixReconcileParent h ops
def reticket (h : Hist) (i : Nat) (ops : List UOp) : Hist × List UOp := reticketW fixReconcileParent h i ops
def undoRedo (h : Hist) (isUndo : Bool) : Hist × Outcome := undoRedoW fixReconcileParent h isUndo
def undo (h : Hist) : Hist := (undoRedo h true).1
def redo (h : Hist) : Hist := (undoRedo h false).1
def applyRemote (h : Hist) (changeLamport : Int) (ops : List UOp) : Hist := applyRemoteW fixReconcileParent h changeLamport ops

def visible (h : Hist) : String := marshal h.doc 64 rootId

end Yorkie.Undo
