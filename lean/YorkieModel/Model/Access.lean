/-
Model of credential resolution and request handling of the three RPC services
(C13: project isolation and credentials).  Core Lean only.

Sources modelled (the model follows the code that exists, including its defects):
  server/rpc/interceptors/{yorkie,admin,cluster}.go   credential -> request context
  server/rpc/{yorkie,admin,cluster}_server.go         handler = ordered guards, then one write
  server/projects, server/authz, server/clients, server/documents, server/revisions,
  server/backend/database/memory (lookups `by id, then compare ProjectID`), server/backend/channel

The store is `Proj → PState`.  A handler is a list of `Guard`s followed by an `Effect`.
Every guard and every effect a handler of the table uses reads / writes only the state of
the one project the request resolved to.  Three global ones are kept for the named OLD
variants of repaired handlers (`oldGetRevision`, `oldDetachChannel`, `oldRefreshChannel`) and
the witness theorems about the repaired defects:
  `revisionGlobal`                      GetRevision before /repo ddb0dfd3 (`revisions.Get(revisionID)`)
  `sessionGlobal`, `detachSessionGlobal` DetachChannel / RefreshChannel before /repo 3821028d
                                        (`Channel.Detach` / `Channel.Refresh(sessionID)` on a bare id)
-/
namespace Yorkie.Access

inductive Svc | yorkie | admin | cluster
  deriving DecidableEq, Repr, Inhabited

/-- Projects of the fixture world: the default project, the caller's home `A`, the
victim `B`, and (thorough tier) a bystander `C`. -/
inductive Proj | D | A | B | C
  deriving DecidableEq, Repr, Inhabited

def Proj.all : List Proj := [.D, .A, .B, .C]

inductive User | admin | uA | uB | mA | uN
  deriving DecidableEq, Repr, Inhabited

inductive Role | member | admin
  deriving DecidableEq, Repr

inductive Decision
  | ok | unauthenticated | permissionDenied | notFound | failedPrecondition | alreadyExists
  | crash          -- the handler panics (`projects.From` / `users.From` on a context without that value)
  | unimplemented  -- procedure the model does not know
  | internal       -- the auth webhook answered with an unexpected status / could not be reached
  deriving DecidableEq, Repr, Inhabited

def Decision.show : Decision → String
  | .ok => "ok" | .unauthenticated => "unauthenticated" | .permissionDenied => "permission_denied"
  | .notFound => "not_found" | .failedPrecondition => "failed_precondition"
  | .alreadyExists => "already_exists" | .crash => "crash" | .unimplemented => "unimplemented"
  | .internal => "internal"

inductive DocStatus | absent | live | removed
  deriving DecidableEq, Repr

/-- State of one project (what the fixture of the `access` engine creates, made mutable).
`c1` is the client attached to the shared-key document, `c2` an active client attached to
nothing.  Counters abstract the content of a write. -/
structure PState where
  owner : User := .admin
  members : List (User × Role) := []
  c1Active : Bool := false
  c2Active : Bool := false
  doc : DocStatus := .absent      -- the document with the key every project uses
  c1Attached : Bool := false
  c2Attached : Bool := false
  onlyDoc : Bool := false         -- a document whose key only this project has
  extraDocs : Nat := 0            -- documents created under further keys
  revision : Bool := false        -- the revision of `doc`
  session : Bool := false         -- c1's session on the channel key every project uses
  schema : Bool := false
  onlySchema : Bool := false
  extraSchemas : Nat := 0
  clientsCreated : Nat := 0
  settings : Nat := 0             -- project row / keys / members / invites writes
  writes : Nat := 0               -- changes, revisions, snapshots written
  deriving DecidableEq, Repr

abbrev Store := Proj → PState

def Store.set (s : Store) (p : Proj) (v : PState) : Store := fun q => if q = p then v else s q

/-- An id named by a request: the object of that kind in project `p`'s fixture, or a
well-formed id that exists nowhere. -/
inductive Obj | of (p : Proj) | ghost
  deriving DecidableEq, Repr

/-- A name (document key, channel key, schema name): used by every project, by one, by none. -/
inductive Name | shared | onlyIn (p : Proj) | nowhere
  deriving DecidableEq, Repr

structure Req where
  client : Obj := .of .A
  attacher : Obj := .of .A
  docId : Obj := .of .A
  rev : Obj := .of .A
  session : Obj := .of .A
  project : Obj := .of .A     -- project named in the payload (admin by name / id, cluster)
  name : Name := .shared
  passwordOk : Bool := true
  invite : Proj := .A         -- project the invite token belongs to
  deriving DecidableEq, Repr

inductive Cred
  | none
  | badKey | apiKey (p : Proj)                                         -- x-api-key
  | badToken | token (u : User)                                         -- authorization: Bearer
  | badSecret | emptySecret | secret (p : Proj)                         -- authorization: API-Key
  | wrongClusterSecret | clusterSecret                                  -- x-cluster-secret
  deriving DecidableEq, Repr

structure Cfg where
  udp : Bool := true                -- backend.Config.UseDefaultProject
  clusterSecretSet : Bool := true   -- backend.Config.ClusterSecret ≠ ""
  third : Bool := false
  deriving DecidableEq, Repr

def Cfg.present (cfg : Cfg) : Proj → Bool
  | .D => cfg.udp | .C => cfg.third | _ => true

/-! ### Interceptors -/

/-- What an interceptor leaves in the request context. -/
inductive Ctx | project (p : Proj) | user (u : User) | anon | peer
  deriving DecidableEq, Repr

/-- `YorkieServiceInterceptor.buildContext`: API key -> project (`GetProjectFromAPIKey`);
no key: the default project if `UseDefaultProject`, else unauthenticated.
`AdminServiceInterceptor.buildContext`: nothing for the procedures `isRequiredAuth` exempts;
Bearer token -> user, `API-Key <secret>` -> project, anything else unauthenticated (an empty
secret never reaches `ProjectFromSecretKey`: HTTP trims the header value, the split fails).
`ClusterServiceInterceptor.authenticate`: constant-time compare with the configured secret;
open when none is configured. -/
def intercept (cfg : Cfg) (svc : Svc) (exempt : Bool) (c : Cred) : Except Decision Ctx :=
  match svc with
  | .yorkie =>
    match c with
    | .apiKey p => if cfg.present p then .ok (.project p) else .error .notFound
    | .badKey => .error .notFound
    | _ => if cfg.udp then .ok (.project .D) else .error .unauthenticated
  | .admin =>
    if exempt then .ok .anon else
    match c with
    | .token u => .ok (.user u)
    | .secret p => if cfg.present p then .ok (.project p) else .error .unauthenticated
    | _ => .error .unauthenticated
  | .cluster =>
    match c with
    | .clusterSecret => .ok .peer
    | _ => if cfg.clusterSecretSet then .error .unauthenticated else .ok .peer

/-! ### Handlers -/

/-- Where a handler takes its project / principal from. -/
inductive Scope
  | apiKey    -- `projects.From(ctx)`, put there by the Yorkie interceptor
  | secret    -- `projects.From(ctx)`, put there by the admin interceptor (API-Key scheme)
  | user      -- `users.From(ctx)`; the project is named in the payload and checked by a guard
  | anyAuth   -- authenticated, reads neither
  | exempt    -- exempt from authentication (password inside the payload)
  | peer      -- cluster: trusted caller names the project in the payload
  deriving DecidableEq, Repr

inductive Guard
  | verifyAccess       -- auth.VerifyAccess (auth webhook; none configured in the fixture)
  | activeClient       -- clients.FindActiveClientInfo{ProjectID, client_id}
  | activeAttacher     -- the same call in AttachDocument (fixture: the unattached client)
  | docByRef           -- documents.FindDocInfoByRefKey{ProjectID, document_id}
  | attachedTo         -- clientInfo.EnsureDocumentAttached / …AttachedOrAttaching(document_id): the id is looked up
                       -- in the *client's* attachment table (fixture: attached, never merely attaching)
  | docByKey           -- documents.FindDocInfoByKey(project, key)
  | docKeyFree         -- documents.CreateDocument: key must not exist
  | schemaByName       -- schemas.GetSchema(s) / RemoveSchema (project.ID, name)
  | revisionOfProject  -- FindRevisionInfoByID + `revision.ProjectID != project.ID` (revisions.Restore, admin)
  | revisionGlobal     -- revisions.Get(revisionID): NO project comparison (GetRevision before ddb0dfd3; unused)
  | sessionGlobal      -- Channel.Detach / Channel.Refresh(sessionID): NO project (before 3821028d; unused by the table)
  | sessionOfChannel   -- Channel.EnsureSessionIn(sessionID, {project.ID, channel_key}) (since 3821028d)
  | docRemoved         -- packs.Purge: only a removed document
  | projectAndRole     -- projects.ProjectAndRole(user, project_name): owner or member
  | permissionById     -- projects.UpdateProject / RotateProjectKeys: authz.CheckPermission(user, id, Admin)
  | permissionAdmin    -- authz.CheckPermission(user, project, Admin)
  | passwordOk         -- users.IsCorrectPassword
  | inviteNotOwner     -- invites.Accept: the owner cannot accept
  deriving DecidableEq, Repr

def Guard.isLocal : Guard → Bool
  | .revisionGlobal | .sessionGlobal => false
  | _ => true

inductive Effect
  | noop
  | newClient | deactivate | deactivateAsync | attach | detach | removeDoc | write
  | attachChannel | firstRefresh
  | detachSessionGlobal      -- Channel.Detach(sessionID) removes the session wherever it lives (before 3821028d; unused)
  | detachSession            -- Channel.Detach after EnsureSessionIn: a session of the resolved project's channel
  | createDoc | findOrCreateDoc | removeDocByName | createSchema | removeSchema
  | setting | acceptInvite | removeMember | purge
  deriving DecidableEq, Repr

def Effect.isLocal : Effect → Bool
  | .detachSessionGlobal => false
  | _ => true

structure Handler where
  scope : Scope
  guards : List Guard
  effect : Effect := .noop
  deriving DecidableEq, Repr

/-- Guard evaluation environment: the project the request has resolved to and the user. -/
structure Env where
  proj : Option Proj := none
  user : Option User := none
  deriving DecidableEq, Repr

def PState.roleOf (st : PState) (u : User) : Option Role :=
  if st.owner = u then some .admin else (st.members.find? (·.1 = u)).map (·.2)

def PState.isOwner (st : PState) (u : User) : Bool := st.owner = u

def nameLive (st : PState) (p : Proj) : Name → Bool
  | .shared => st.doc = .live
  | .onlyIn q => q = p && st.onlyDoc
  | .nowhere => false

def schemaLive (st : PState) (p : Proj) : Name → Bool
  | .shared => st.schema
  | .onlyIn q => q = p && st.onlySchema
  | .nowhere => false

def Obj.isIn (o : Obj) (p : Proj) : Bool := o = .of p

/-- Guards that read only the state `st` of the resolved project `p`. `none` = passes. -/
def evalLocal (st : PState) (p : Proj) (u : Option User) (r : Req) : Guard → Option Decision
  | .verifyAccess => none
  | .activeClient => if r.client.isIn p && st.c1Active then none else some .notFound
  | .activeAttacher => if r.attacher.isIn p && st.c2Active then none else some .notFound
  | .docByRef => if r.docId.isIn p && st.doc ≠ .absent then none else some .notFound
  | .attachedTo => if r.docId.isIn p && st.c1Attached then none else some .failedPrecondition
  | .docByKey => if nameLive st p r.name then none else some .notFound
  | .docKeyFree => if nameLive st p r.name then some .alreadyExists else none
  | .schemaByName => if schemaLive st p r.name then none else some .notFound
  | .revisionOfProject => if r.rev.isIn p && st.revision then none else some .notFound
  | .sessionOfChannel =>
    -- the fixture's session of `p` lives in the channel every project calls by the shared key
    if r.session.isIn p && st.session && r.name = .shared then none else some .notFound
  | .docRemoved => if st.doc = .removed then none else some .failedPrecondition
  | .permissionAdmin =>
    match u with
    | some u => match st.roleOf u with
      | some .admin => none
      | some .member => some .permissionDenied
      | none => some .notFound
    | none => some .crash
  | .passwordOk => if r.passwordOk then none else some .unauthenticated
  | .inviteNotOwner =>
    match u with
    | some u => if st.isOwner u then some .failedPrecondition else none
    | none => some .crash
  | _ => none

/-- One guard. The project-resolving guards of the user-scoped admin procedures read the
state of the project the payload names (which then *is* the resolved project); the two
global guards read every project. -/
def evalGuard (cfg : Cfg) (s : Store) (e : Env) (r : Req) (g : Guard) : Except Decision Env :=
  match g with
  | .projectAndRole =>
    match r.project, e.user with
    | .of q, some u =>
      if cfg.present q && ((s q).roleOf u).isSome then .ok { e with proj := some q } else .error .notFound
    | _, _ => .error .notFound
  | .permissionById =>
    match r.project, e.user with
    | .of q, some u =>
      if cfg.present q then
        match (s q).roleOf u with
        | some .admin => .ok { e with proj := some q }
        | some .member => .error .permissionDenied
        | none => .error .notFound
      else .error .notFound
    | _, _ => .error .notFound
  | .revisionGlobal =>
    match r.rev with
    | .of q => if cfg.present q && (s q).revision then .ok e else .error .notFound
    | .ghost => .error .notFound
  | .sessionGlobal =>
    match r.session with
    | .of q => if cfg.present q && (s q).session then .ok e else .error .notFound
    | .ghost => .error .notFound
  | .passwordOk => if r.passwordOk then .ok e else .error .unauthenticated
  | .inviteNotOwner =>
    -- invites.Accept: the token names the project (FindInviteInfoByToken -> invite.ProjectID)
    match evalLocal (s r.invite) r.invite e.user r .inviteNotOwner with
    | none => .ok { e with proj := some r.invite }
    | some d => .error d
  | g =>
    match e.proj with
    | some p => match evalLocal (s p) p e.user r g with
      | none => .ok e
      | some d => .error d
    | none =>
      -- no project resolved (cluster payload naming a project that does not exist): every lookup misses
      match g with
      | .verifyAccess => .ok e
      | _ => .error .notFound

def runGuards (cfg : Cfg) (s : Store) (e : Env) (r : Req) : List Guard → Except Decision Env
  | [] => .ok e
  | g :: gs =>
    match evalGuard cfg s e r g with
    | .error d => .error d
    | .ok e' => runGuards cfg s e' r gs

/-- The write of a handler on the state of the resolved project. -/
def Effect.onProject (eff : Effect) (p : Proj) (u : Option User) (r : Req) (st : PState) : PState :=
  match eff with
  | .noop | .detachSessionGlobal => st
  | .newClient | .firstRefresh => { st with clientsCreated := st.clientsCreated + 1 }
  | .deactivate => { st with c1Active := false, c1Attached := false, writes := st.writes + 1 }
  | .deactivateAsync =>
    if r.client.isIn p && st.c1Active then { st with c1Active := false, c1Attached := false, writes := st.writes + 1 } else st
  | .attach =>
    match r.name with
    | .shared => { st with c2Attached := true, writes := st.writes + 1 }
    | _ => { st with extraDocs := st.extraDocs + 1, writes := st.writes + 1 }
  | .detach => { st with c1Attached := false, writes := st.writes + 1 }
  | .removeDoc | .removeDocByName => { st with doc := .removed, writes := st.writes + 1 }
  | .write => { st with writes := st.writes + 1 }
  | .attachChannel => st
  | .detachSession => { st with session := false }
  | .createDoc => { st with extraDocs := st.extraDocs + 1 }
  | .findOrCreateDoc => if nameLive st p r.name then st else { st with extraDocs := st.extraDocs + 1 }
  | .createSchema => { st with extraSchemas := st.extraSchemas + 1 }
  | .removeSchema =>
    match r.name with
    | .shared => { st with schema := false }
    | _ => { st with onlySchema := false }
  | .setting => { st with settings := st.settings + 1 }
  | .removeMember => { st with members := st.members.filter (·.1 ≠ .mA), settings := st.settings + 1 }
  | .acceptInvite =>
    match u with
    | some u => if (st.roleOf u).isSome then { st with settings := st.settings + 1 }
                else { st with members := (u, .member) :: st.members, settings := st.settings + 1 }
    | none => st
  | .purge => { st with doc := .absent, revision := false, writes := st.writes + 1 }

/-- write to the resolved project only: `set p (f (get p))` -/
def applyAt (s : Store) (po : Option Proj) (f : Proj → PState → PState) : Store :=
  match po with
  | some p => s.set p (f p (s p))
  | none => s

/-- Apply the effect of a successful request. Local effects touch `e.proj` only. -/
def Effect.run (eff : Effect) (cfg : Cfg) (s : Store) (e : Env) (r : Req) : Store :=
  match eff with
  | .detachSessionGlobal =>
    match r.session with
    | .of q => if cfg.present q then s.set q { s q with session := false } else s
    | .ghost => s
  | eff => applyAt s e.proj (fun p st => eff.onProject p e.user r st)

/-- Scope against what the interceptor left in the context. `projects.From` / `users.From`
are unchecked type assertions: the wrong kind of credential panics. -/
def enter (cfg : Cfg) (sc : Scope) (ctx : Ctx) (r : Req) : Except Decision Env :=
  match sc, ctx with
  | .apiKey, .project p => .ok { proj := some p }
  | .secret, .project p => .ok { proj := some p }
  | .secret, _ => .error .crash
  | .user, .user u => .ok { user := some u }
  | .user, _ => .error .crash
  | .anyAuth, .user u => .ok { user := some u }
  | .anyAuth, _ => .ok {}
  | .exempt, _ => .ok {}
  | .peer, _ =>
    match r.project with
    | .of q => .ok { proj := if cfg.present q then some q else none }
    | .ghost => .ok {}
  | .apiKey, _ => .error .crash

/-! ### The handler table (hand-written from server/rpc/*_server.go; tied to the source by
`Props/C13.lean: classification_total / model_guards_in_source`) -/

open Guard Effect in
def yorkieHandlers : List (String × Handler) := [
  ("ActivateClient",        ⟨.apiKey, [verifyAccess], newClient⟩),
  ("DeactivateClient",      ⟨.apiKey, [verifyAccess, activeClient], deactivate⟩),
  ("DeactivateClient+async",⟨.apiKey, [verifyAccess], deactivateAsync⟩),
  ("AttachDocument",        ⟨.apiKey, [verifyAccess, activeAttacher], attach⟩),
  -- since /repo 7f055575 the attachment is checked before the document lookup and PushPull
  ("DetachDocument",        ⟨.apiKey, [verifyAccess, activeClient, attachedTo, docByRef], detach⟩),
  ("RemoveDocument",        ⟨.apiKey, [verifyAccess, activeClient, attachedTo, docByRef], removeDoc⟩),
  ("PushPullChanges",       ⟨.apiKey, [verifyAccess, activeClient, attachedTo, docByRef], write⟩),
  ("Watch",                 ⟨.apiKey, [activeClient, verifyAccess, docByRef], .noop⟩),
  ("WatchDocument",         ⟨.apiKey, [activeClient, verifyAccess, docByRef], .noop⟩),
  ("WatchChannel",          ⟨.apiKey, [activeClient, verifyAccess], .noop⟩),
  ("CreateRevision",        ⟨.apiKey, [verifyAccess, docByRef], write⟩),
  ("GetRevision",           ⟨.apiKey, [docByRef, verifyAccess, activeClient, revisionOfProject], .noop⟩),
  ("ListRevisions",         ⟨.apiKey, [docByRef, verifyAccess, activeClient], .noop⟩),
  ("RestoreRevision",       ⟨.apiKey, [docByRef, verifyAccess, activeClient, revisionOfProject], write⟩),
  ("AttachChannel",         ⟨.apiKey, [verifyAccess, activeClient], attachChannel⟩),
  ("DetachChannel",         ⟨.apiKey, [verifyAccess, activeClient, sessionOfChannel], detachSession⟩),
  ("RefreshChannel",        ⟨.apiKey, [verifyAccess, sessionOfChannel], .noop⟩),
  ("RefreshChannel+first",  ⟨.apiKey, [verifyAccess, verifyAccess], firstRefresh⟩),
  ("PeekChannel",           ⟨.apiKey, [verifyAccess], .noop⟩),
  ("Broadcast",             ⟨.apiKey, [verifyAccess, activeClient], .noop⟩)
]

open Guard Effect in
def adminHandlers : List (String × Handler) := [
  ("SignUp",                ⟨.exempt, [], .noop⟩),
  ("LogIn",                 ⟨.exempt, [passwordOk], .noop⟩),
  ("DeleteAccount",         ⟨.exempt, [passwordOk], .noop⟩),
  ("ChangePassword",        ⟨.exempt, [passwordOk], .noop⟩),
  ("CreateProject",         ⟨.user, [], .noop⟩),
  ("ListProjects",          ⟨.user, [], .noop⟩),
  ("GetProject",            ⟨.user, [projectAndRole], .noop⟩),
  ("GetProjectStats",       ⟨.secret, [], .noop⟩),
  ("UpdateProject",         ⟨.user, [permissionById], setting⟩),
  ("RotateProjectKeys",     ⟨.user, [permissionById], setting⟩),
  ("RemoveMember",          ⟨.user, [projectAndRole, permissionAdmin], removeMember⟩),
  ("ListMembers",           ⟨.user, [projectAndRole], .noop⟩),
  ("UpdateMemberRole",      ⟨.user, [projectAndRole, permissionAdmin], setting⟩),
  ("CreateInvite",          ⟨.user, [projectAndRole, permissionAdmin], setting⟩),
  ("AcceptInvite",          ⟨.user, [inviteNotOwner], acceptInvite⟩),
  ("CreateDocument",        ⟨.secret, [docKeyFree], createDoc⟩),
  ("ListDocuments",         ⟨.secret, [], .noop⟩),
  ("GetDocument",           ⟨.secret, [docByKey], .noop⟩),
  ("GetDocuments",          ⟨.secret, [], .noop⟩),
  ("SearchDocuments",       ⟨.secret, [], .noop⟩),
  ("UpdateDocument",        ⟨.secret, [docByKey], write⟩),
  ("RemoveDocumentByAdmin", ⟨.secret, [docByKey], removeDocByName⟩),
  ("GetSnapshotMeta",       ⟨.secret, [], findOrCreateDoc⟩),
  ("ListChanges",           ⟨.secret, [docByKey], .noop⟩),
  ("CreateSchema",          ⟨.secret, [], createSchema⟩),
  ("ListSchemas",           ⟨.secret, [], .noop⟩),
  ("GetSchema",             ⟨.secret, [schemaByName], .noop⟩),
  ("GetSchemas",            ⟨.secret, [schemaByName], .noop⟩),
  ("RemoveSchema",          ⟨.secret, [schemaByName], removeSchema⟩),
  ("ListRevisionsByAdmin",  ⟨.user, [projectAndRole, docByKey], .noop⟩),
  ("GetRevisionByAdmin",    ⟨.user, [projectAndRole, docByKey, revisionOfProject], .noop⟩),
  ("RestoreRevisionByAdmin",⟨.user, [projectAndRole, permissionAdmin, docByKey, revisionOfProject], write⟩),
  ("ListChannels",          ⟨.secret, [], .noop⟩),
  ("GetChannels",           ⟨.secret, [], .noop⟩),
  ("BroadcastByAdmin",      ⟨.secret, [], .noop⟩),
  ("GetServerVersion",      ⟨.anyAuth, [], .noop⟩),
  ("CompactDocumentByAdmin",⟨.secret, [docByKey], .noop⟩)
]

open Guard Effect in
def clusterHandlers : List (String × Handler) := [
  ("DetachDocument",  ⟨.peer, [activeClient, docByRef], detach⟩),
  ("CompactDocument", ⟨.peer, [docByRef], .noop⟩),
  ("PurgeDocument",   ⟨.peer, [docByRef, docRemoved], purge⟩),
  ("GetDocument",     ⟨.peer, [docByKey], .noop⟩),
  ("ListChannels",    ⟨.peer, [], .noop⟩),
  ("GetChannels",     ⟨.peer, [], .noop⟩),
  ("Broadcast",       ⟨.peer, [], .noop⟩),
  ("GetChannelCount", ⟨.peer, [], .noop⟩),
  ("InvalidateCache", ⟨.peer, [], .noop⟩)
]

/-- `YorkieService.GetRevision` as it was before /repo commit ddb0dfd3 ("fix: GetRevision must
not return a revision of another document"): the revision was loaded by its bare id. Not part
of the table; only `Props/C13.lean: getRevision_fixed_witness` speaks about it. -/
def oldGetRevision : Handler :=
  ⟨.apiKey, [.docByRef, .verifyAccess, .activeClient, .revisionGlobal], .noop⟩

/-- `YorkieService.DetachChannel` / `RefreshChannel` (heartbeat path) as they were before /repo
commit 3821028d ("fix: DetachChannel and RefreshChannel must act on a session of the caller's
channel"): the bare session id went to `Channel.Detach` / `Channel.Refresh`. Not part of the
table; only `Props/C13.lean: sessionScope_fixed_witness` speaks about them. -/
def oldDetachChannel : Handler :=
  ⟨.apiKey, [.verifyAccess, .activeClient, .sessionGlobal], .detachSessionGlobal⟩

def oldRefreshChannel : Handler :=
  ⟨.apiKey, [.verifyAccess, .sessionGlobal], .noop⟩

def handlersOf : Svc → List (String × Handler)
  | .yorkie => yorkieHandlers | .admin => adminHandlers | .cluster => clusterHandlers

def handlerOf (svc : Svc) (proc : String) : Option Handler :=
  ((handlersOf svc).find? (·.1 = proc)).map (·.2)

/-! ### One request -/

/-- Execute one request against the store: interceptor, scope, guards in order, effect. -/
def execH (cfg : Cfg) (s : Store) (svc : Svc) (h : Handler) (c : Cred) (r : Req) : Decision × Store :=
  match intercept cfg svc (h.scope = .exempt) c with
  | .error d => (d, s)
  | .ok ctx =>
    match enter cfg h.scope ctx r with
    | .error d => (d, s)
    | .ok e =>
      match runGuards cfg s e r h.guards with
      | .error d => (d, s)
      | .ok e' => (.ok, h.effect.run cfg s e' r)

/-- the same, the procedure given by name -/
def exec (cfg : Cfg) (s : Store) (svc : Svc) (proc : String) (c : Cred) (r : Req) : Decision × Store :=
  match handlerOf svc proc with
  | none => (.unimplemented, s)
  | some h => execH cfg s svc h c r

/-! ### The fixture world of the `access` engine and its request matrix -/

def fixture (owner : User) (members : List (User × Role)) : PState :=
  { owner := owner, members := members, c1Active := true, c2Active := true, doc := .live, c1Attached := true,
    onlyDoc := true, revision := true, session := true, schema := true, onlySchema := true }

/-- Pristine world the harness re-establishes before every request. -/
def world0 : Store
  | .D => { owner := .admin }
  | .A => fixture .uA [(.mA, .member)]
  | .B => fixture .uB []
  | .C => fixture .uB []

/-- `PurgeDocument` lines run after A's shared-key document was removed. -/
def worldFor (h : Handler) : Store :=
  if h.effect = .purge then world0.set .A { world0 .A with doc := .removed } else world0

inductive Target
  | own | client (ghost : Bool) | docid (ghost : Bool) | name (ghost : Bool) | rev (ghost : Bool)
  | session (ghost : Bool) | project (ghost : Bool) | pass
  deriving DecidableEq, Repr

def Target.all : List Target :=
  [.own, .client false, .client true, .docid false, .docid true, .name false, .name true, .rev false, .rev true,
   .session false, .session true, .project false, .project true, .pass]

def pick (ghost : Bool) : Obj := if ghost then .ghost else .of .B

/-- The request a target kind stands for: A's own ids with one of them replaced by B's or
by an id that exists nowhere. (`CreateDocument` with the own ids creates a fresh key.) -/
def mkReq (h : Handler) : Target → Req
  | .own => if h.effect = .createDoc then { name := .nowhere } else {}
  | .client g => { client := pick g, attacher := pick g }
  | .docid g => { docId := pick g }
  | .name g => { name := if g then .nowhere else .onlyIn .B }
  | .rev g => { rev := pick g }
  | .session g => { session := pick g }
  | .project g => { project := pick g }
  | .pass => { passwordOk := false }

/-- Projects a credential legitimately speaks for. Everything else is a victim.
(An invite token is itself the credential for joining the inviting project.) -/
def authority (cfg : Cfg) (s : Store) (svc : Svc) (h : Handler) : Cred → List Proj
  | .none => if svc = .yorkie && cfg.udp then [.D] else []
  | .apiKey p => [p]
  | .secret p => [p]
  | .token u =>
    Proj.all.filter (fun q => ((s q).roleOf u).isSome) ++ (if h.effect = .acceptInvite then [.A] else [])
  | .clusterSecret => Proj.all
  | _ => []

def victimChanged (cfg : Cfg) (auth : List Proj) (pre post : Store) : Bool :=
  Proj.all.any (fun q => cfg.present q && !auth.contains q && decide (post q ≠ pre q))

/-- Decision of the model for one line of the matrix. -/
def decideH (cfg : Cfg) (svc : Svc) (h : Handler) (c : Cred) (t : Target) : Decision :=
  (execH cfg (worldFor h) svc h c (mkReq h t)).1

def victimH (cfg : Cfg) (svc : Svc) (h : Handler) (c : Cred) (t : Target) : Bool :=
  let w := worldFor h
  victimChanged cfg (authority cfg w svc h c) w (execH cfg w svc h c (mkReq h t)).2

/-- the same by procedure name (what the driver prints) -/
def decideReq (cfg : Cfg) (svc : Svc) (proc : String) (c : Cred) (t : Target) : Decision :=
  match handlerOf svc proc with
  | none => .unimplemented
  | some h => decideH cfg svc h c t

def victimOf (cfg : Cfg) (svc : Svc) (proc : String) (c : Cred) (t : Target) : Bool :=
  match handlerOf svc proc with
  | none => false
  | some h => victimH cfg svc h c t

/-! ### Auth webhook and its verdict cache (server/rpc/auth/auth.go, webhook.go)

`auth.VerifyAccess` does nothing unless the request's project requires auth for the method
(`prj.RequireAuth`: a webhook URL and the method are configured). Otherwise `verifyAccess`
marshals `{token, method, attributes}` into `body`, builds
`cacheKey := generateCacheKey(prj.PublicKey, body) = fmt.Sprintf("%s:auth:%s", publicKey, body)`,
answers from `be.Cache.AuthWebhook` (an LRU with a TTL) when the key is present, and otherwise
POSTs `body` to `prj.AuthWebhookURL` – the request's own project's webhook – and caches the
answer under the same key unless it was 401 (an error is returned before caching).

The machine below is generic in the types of projects `π`, bodies `β` and cache keys `κ`;
`key` is a parameter so that the variant whose key omits the project can be stated. -/

inductive Verdict
  | allow    -- 200 {allowed: true}
  | deny     -- 403 {allowed: false}
  | unauth   -- 401 {allowed: false}
  | error    -- any other status / transport error
  deriving DecidableEq, Repr, Inhabited

/-- `if status != http.StatusUnauthorized { cache.Add }`, reached only without an error -/
def Verdict.cacheable : Verdict → Bool
  | .allow | .deny => true
  | _ => false

/-- `handleWebhookResponse` -/
def Verdict.denial : Verdict → Option Decision
  | .allow => none
  | .deny => some .permissionDenied
  | .unauth => some .unauthenticated
  | .error => some .internal

structure WEntry (κ : Type) where
  key : κ
  verdict : Verdict
  time : Nat      -- when the verdict was obtained from the webhook
  deriving Repr

structure Webhook (π β κ : Type) where
  hook : π → Nat → β → Verdict   -- the webhook of project `p`, asked at time `t` about `body`
  key : π → β → κ                 -- `generateCacheKey`
  ttl : Nat

section WebhookMachine
variable {π β κ : Type} [DecidableEq κ]

/-- `be.Cache.AuthWebhook.Get(cacheKey)`: an entry under that key that has not expired -/
def Webhook.lookup (w : Webhook π β κ) (c : List (WEntry κ)) (k : κ) (t : Nat) : Option (WEntry κ) :=
  c.find? (fun e => decide (e.key = k) && decide (t < e.time + w.ttl))

/-- `verifyAccess`: (verdict, was the project's own webhook consulted, cache afterwards) -/
def Webhook.verify (w : Webhook π β κ) (c : List (WEntry κ)) (p : π) (b : β) (t : Nat) :
    Verdict × Bool × List (WEntry κ) :=
  match w.lookup c (w.key p b) t with
  | some e => (e.verdict, false, c)
  | none =>
    let v := w.hook p t b
    (v, true, if v.cacheable then ⟨w.key p b, v, t⟩ :: c else c)

/-- what happens to the cache: a request of project `p` with body `b` at time `t`, or the LRU
dropping whatever entries it likes (capacity, `Purge`) -/
inductive WOp (π β κ : Type)
  | req (p : π) (b : β) (t : Nat)
  | evict (keep : κ → Bool)

/-- one answered request: who asked about what when, the verdict, and whether the project's own
webhook was consulted for it (otherwise it came from the cache) -/
structure WRec (π β : Type) where
  proj : π
  body : β
  time : Nat
  verdict : Verdict
  consulted : Bool

/-- run a sequence from a given cache; the log lists every request in order -/
def Webhook.run (w : Webhook π β κ) :
    List (WOp π β κ) → List (WEntry κ) → List (WRec π β)
  | [], _ => []
  | .req p b t :: ops, c =>
    let r := w.verify c p b t
    ⟨p, b, t, r.1, r.2.1⟩ :: w.run ops r.2.2
  | .evict keep :: ops, c => w.run ops (c.filter (fun e => keep e.key))

end WebhookMachine

/-! #### The fixture's webhooks -/

/-- tokens the `access` engine presents: none, one only A's webhook allows, one only B's
webhook allows, one every webhook answers with an unexpected status -/
inductive Token | none | ta | tb | terr
  deriving DecidableEq, Repr, Inhabited

/-- body of the webhook request: token, method (= procedure and which of its `VerifyAccess`
calls), attributes (the names every project shares) -/
structure Body where
  token : Token
  proc : String
  idx : Nat
  deriving DecidableEq, Repr

/-- verdict of project `p`'s webhook in the fixture (does not change over time) -/
def fixtureHook (p : Proj) (_t : Nat) (b : Body) : Verdict :=
  match b.token with
  | .none => .unauth
  | .terr => .error
  | .ta => if p = .A then .allow else .deny
  | .tb => if p = .B then .allow else .deny

/-- The code's cache key `"%s:auth:%s"` of the project's public key and the body, modelled as
the pair (public keys are distinct random ids without `:`); tied to the source by
`Props/C13.lean: webhook_cache_key_in_source`. -/
def fixtureWebhook : Webhook Proj Body (Proj × Body) :=
  { hook := fixtureHook, key := fun p b => (p, b), ttl := 1000000 }

/-- auth state of the server: whether A and B have a webhook configured, the verdict cache, a clock -/
structure AuthSt where
  on : Bool := false
  cache : List (WEntry (Proj × Body)) := []
  now : Nat := 0

def AuthSt.requiresAuth (a : AuthSt) (p : Proj) : Bool := a.on && (p = .A || p = .B)

/-- `runGuards` with `auth.VerifyAccess` doing its work: the `idx`-th `verifyAccess` guard of
the handler asks (cache, then the webhook of the resolved project). Returns the outcome, the
auth state and how often the resolved project's own webhook was consulted. -/
def runGuardsA (cfg : Cfg) (s : Store) (tok : Token) (proc : String) (r : Req) :
    List Guard → Env → AuthSt → Nat → Nat → Except Decision Env × AuthSt × Nat
  | [], e, a, _, n => (.ok e, a, n)
  | .verifyAccess :: gs, e, a, idx, n =>
    match e.proj with
    | some p =>
      if a.requiresAuth p then
        let v := fixtureWebhook.verify a.cache p ⟨tok, proc, idx⟩ a.now
        let a' := { a with cache := v.2.2 }
        let n' := if v.2.1 then n + 1 else n
        match v.1.denial with
        | some d => (.error d, a', n')
        | none => runGuardsA cfg s tok proc r gs e a' (idx + 1) n'
      else runGuardsA cfg s tok proc r gs e a (idx + 1) n
    | none => runGuardsA cfg s tok proc r gs e a (idx + 1) n
  | g :: gs, e, a, idx, n =>
    match evalGuard cfg s e r g with
    | .error d => (.error d, a, n)
    | .ok e' => runGuardsA cfg s tok proc r gs e' a idx n

/-- one request with a token: (decision, store, auth state, consultations of the own webhook) -/
def execA (cfg : Cfg) (s : Store) (svc : Svc) (proc : String) (h : Handler) (c : Cred) (tok : Token) (r : Req)
    (a : AuthSt) : Decision × Store × AuthSt × Nat :=
  match intercept cfg svc (h.scope = .exempt) c with
  | .error d => (d, s, a, 0)
  | .ok ctx =>
    match enter cfg h.scope ctx r with
    | .error d => (d, s, a, 0)
    | .ok e =>
      match runGuardsA cfg s tok proc r h.guards e a 0 0 with
      | (.error d, a', n) => (d, s, a', n)
      | (.ok e', a', n) => (.ok, h.effect.run cfg s e' r, a', n)

/-- the own-ids request of home project `h` (for the webhook lines both A and B are "home") -/
def homeReq (h : Proj) : Req :=
  { client := .of h, attacher := .of h, docId := .of h, rev := .of h, session := .of h, project := .of h }

end Yorkie.Access
