/-
L5b Snapshot side of the server protocol and the client's side of a sync (integrated engine `srv`).

`Model/Server.lean` stops at `snapshot := true` for a pull whose backlog reaches the project's
`SnapshotThreshold`.  This file adds what is observable about that branch and about the snapshot
store, without touching the request bookkeeping of `Model/Server.lean` (which is reused as is):

  * the CLOCK of every server-side `InternalDocument` (`changeID`: lamport + version vector) and its
    `checkpoint.ServerSeq`.  The content of such a document is the fold of the log prefix (that is the
    document model's business, `C01.result_is_log_fold`); its clock is NOT a function of the prefix
    alone: `NewInternalDocumentFromSnapshot` runs `InitialID().SetClocks(lamport, vector)` (one extra
    tick per reload) and the snapshot cache keeps a document alive across requests, so the clock depends
    on which stored snapshot / cached document the rebuild started from.  Hence the explicit snapshot
    table and cache below.
  * the response vector of a snapshot response (`pullSnapshot`: the rebuilt document's vector after the
    request's own changes were applied to it; truncated to `{client: MaxLamport}` for `DisableGC`).
  * step 04 of `PushPull`: the background `storeSnapshot` (interval test, rebuild from the closest
    stored snapshot WITHOUT the cache, `CreateSnapshotInfo` storing the rebuilt document's lamport and –
    only when some client has a `versionvectors` row – its vector).
  * the client's bookkeeping around one request (`InternalDocument.CreateChangePack`,
    `ApplyChangePack` steps 02/03, the clock part of `Update`, `applyChanges`, `applySnapshot`).

Go anchors (read line by line):
  server/packs/snapshot.go      BuildInternalDocForServerSeq, storeSnapshot
  server/packs/pushpull.go      pullSnapshot, PushPull step 04, pullPack (DisableGC + snapshot branch)
  server/backend/database/memory/database.go  CreateSnapshotInfo, hasVersionVectorRow,
                                FindClosestSnapshotInfo, FindChangesBetweenServerSeqs
  pkg/document/internal_document.go  NewInternalDocumentFromSnapshot, ApplyChangePack, applyChanges,
                                applySnapshot, CreateChangePack
  pkg/document/change/context.go     NextID (presence-only changes), ToChange
  pkg/document/document.go      Update (adopts `ctx.NextID()`), ApplyChangePack

Modelling decisions (trusted base):
  * requests are sequential and the background routine of a request has finished before the next
    request starts (the harness waits for `Background` to drain);
  * garbage collection inside the rebuild (`GetMinVersionVector` + `GarbageCollect`) does not touch the
    clock and is invisible in `Marshal()` (C03 `purge_invisible`), so it does not appear here;
  * one snapshot-cache entry per document, never evicted by other documents (the harness evicts
    explicitly and says so).
-/
import YorkieModel.Model.Server
namespace Yorkie.ServerSnap
open Yorkie Yorkie.Server

/-- ONE-LINE SWITCH.  `true` = the tree as it is: `CreateSnapshotInfo` stores an EMPTY version vector when no
client has a `versionvectors` row for the document at store time (finding `c06-snapshot-vector-dropped`:
a later attacher served from that snapshot gets a vector that does not cover the snapshot's content).
`false` = tree with the candidate fix (always store the rebuilt document's vector). -/
def dropVectorWithoutRows : Bool := true

/-! ### server-side documents: clock + checkpoint -/

/-- a row of the `snapshots` table (`database.SnapshotInfo` without the bytes) -/
structure SnapRow where
  serverSeq : Int
  lamport : Int
  vv : VV
deriving DecidableEq, Repr, Inhabited

/-- the part of a server-side `document.InternalDocument` this layer follows -/
structure SDoc where
  /-- `checkpoint.ServerSeq` -/
  serverSeq : Int
  /-- `changeID` (actor = `InitialActorID`) -/
  clock : ChangeID
deriving Repr, Inhabited

/-- snapshot table and snapshot-cache entry of one document -/
structure Snaps where
  rows : List SnapRow := []
  cache : Option SDoc := none
deriving Repr, Inhabited

/-- the `change.ID` a stored row is turned back into (`ChangeInfo.ToChange`) -/
def rowId (r : Row) : ChangeID :=
  { clientSeq := r.clientSeq, serverSeq := r.serverSeq, lamport := r.lamport, actor := r.actor, vv := r.vv }

def reqId (c : ChangeReq) : ChangeID :=
  { clientSeq := c.clientSeq, serverSeq := 0, lamport := c.lamport, actor := c.actor, vv := c.vv }

/-- what `FindClosestSnapshotInfo` returns when there is no snapshot -/
def noSnapshot : SnapRow := { serverSeq := 0, lamport := 0, vv := [] }

def closer (seq : Int) (best r : SnapRow) : SnapRow :=
  if r.serverSeq ≤ seq ∧ best.serverSeq ≤ r.serverSeq then r else best

/-- `FindClosestSnapshotInfo(doc, seq)`: the stored snapshot with the greatest `serverSeq ≤ seq` -/
def closest (rows : List SnapRow) (seq : Int) : SnapRow := rows.foldl (closer seq) noSnapshot

/-- `NewInternalDocumentFromSnapshot`: `changeID = InitialID().SetClocks(lamport, vector)` -/
def fromSnapshot (r : SnapRow) : SDoc :=
  { serverSeq := r.serverSeq, clock := ChangeID.initial.setClocks r.lamport r.vv }

/-- clock part of `InternalDocument.applyChanges` (server documents never opt out of GC) -/
def applyIds (c : ChangeID) (ids : List ChangeID) : ChangeID := ids.foldl ChangeID.syncClocks c

/-- `FindChangesBetweenServerSeqs(d.serverSeq+1, upTo)` + `ApplyChangePack` (checkpoint forwarded) -/
def applyRows (d : SDoc) (log : List Row) (upTo : Int) : SDoc :=
  { serverSeq := Max.max d.serverSeq upTo,
    clock := applyIds d.clock ((findBetween log (d.serverSeq + 1) upTo).map rowId) }

/-- where `BuildInternalDocForServerSeq` starts from: the cached document unless it is ahead of `seq` -/
def buildStart (sn : Snaps) (seq : Int) : SDoc :=
  match sn.cache with
  | some c => if seq < c.serverSeq then fromSnapshot (closest sn.rows seq) else c
  | none => fromSnapshot (closest sn.rows seq)

/-- `packs.BuildInternalDocForServerSeq`: the result is also what the cache holds afterwards
(the caller gets a deep copy) -/
def buildDoc (sn : Snaps) (log : List Row) (seq : Int) : Snaps × SDoc :=
  ({ sn with cache := some (applyRows (buildStart sn seq) log seq) }, applyRows (buildStart sn seq) log seq)

/-- `pullSnapshot` + the `DisableGC` truncation in `pullPack`: the response's version vector -/
def snapshotRespVV (doc : SDoc) (reqChanges : List ChangeReq) (client : ClientId) (disableGC : Bool) : VV :=
  if disableGC then [(client, (applyIds doc.clock (reqChanges.map reqId)).vv.maxLamport)]
  else (applyIds doc.clock (reqChanges.map reqId)).vv

/-- `storeSnapshot(docInfo with ServerSeq = head)`; `hasRow` = `hasVersionVectorRow` at store time -/
def storeSnapshot (sn : Snaps) (log : List Row) (head interval : Int) (hasRow : Bool) : Snaps :=
  if (closest sn.rows head).serverSeq = head then sn
  else if head - (closest sn.rows head).serverSeq < interval then sn
  else
    { sn with rows := sn.rows ++
        [{ serverSeq := (applyRows (fromSnapshot (closest sn.rows head)) log head).serverSeq,
           lamport := (applyRows (fromSnapshot (closest sn.rows head)) log head).clock.lamport,
           vv := if hasRow || !dropVectorWithoutRows then (applyRows (fromSnapshot (closest sn.rows head)) log head).clock.vv
                 else [] }] }

/-! ### one finished request -/

def headOf (s : Server) (d : DocId) : Int :=
  match s.findDoc d with
  | some x => x.serverSeq
  | none => 0

def hasAnyVVRow (s : Server) (d : DocId) : Bool :=
  match s.findDoc d with
  | some x => !x.vvRows.isEmpty
  | none => false

/-- number of rows the request appended (`len(pushedChanges)`) -/
def pushedCount (before after : Server) (d : DocId) : Nat :=
  (storedLog after d).length - (storedLog before d).length

/-- ONE-LINE SWITCH.  `false` = tree before `hooks/fix-c05-snapshot-retry-applies-twice.patch`: `pullSnapshot`
applies ALL changes of the request pack on top of the rebuilt document – also those an earlier request of this
client had already stored before its response was lost (`pushPack` filtered them out, they are part of the rebuilt
document): the snapshot the retrying client receives contains them twice (C05 finding) and the server document's
clock ticks once more per duplicate.  `true` = tree with the fix: only the changes this request stored
(`ClientSeq` above the checkpoint `pushPack` filtered with) are applied. -/
def snapshotAppliesOnlyPushed : Bool := true

/-- the changes of the request `pullSnapshot` applies to the rebuilt document; `cpSeq` = client sequence of the
checkpoint the request was filtered with (`clientInfo.Checkpoint(docID)`: the stored one, `0` inside Attach) -/
def appliedToSnapshot (cpSeq : Nat) (changes : List ChangeReq) : List ChangeReq :=
  if snapshotAppliesOnlyPushed then changes.filter (isPushable cpSeq) else changes

/-- the checkpoint client sequence a request of client `c` is filtered with -/
def requestCpSeq (before : Server) (c : ClientId) (d : DocId) (isAttach : Bool) : Nat :=
  if isAttach then 0
  else match before.findClient c with
    | some i => (i.checkpoint d).clientSeq
    | none => 0

/-- the snapshot branch of `preparePack` for an accepted request: rebuild at `initialServerSeq`
(head after the push minus what was pushed) -/
def pullSnapshotPart (sn : Snaps) (before after : Server) (d : DocId) (c : ClientId) (pack : Pack)
    (disableGC : Bool) (resp : Resp) (cpSeq : Nat := 0) : Snaps × Option VV :=
  if resp.snapshot then
    ((buildDoc sn (storedLog after d) (headOf after d - pushedCount before after d)).1,
     some (snapshotRespVV (buildDoc sn (storedLog after d) (headOf after d - pushedCount before after d)).2
            (appliedToSnapshot cpSeq pack.changes) c disableGC))
  else (sn, none)

/-- step 04 of `PushPull`: only when something was pushed (or the pack removes the document) -/
def backgroundPart (sn : Snaps) (before after : Server) (d : DocId) (isRemoved : Bool) (interval : Int) : Snaps :=
  if pushedCount before after d > 0 || isRemoved then
    storeSnapshot sn (storedLog after d) (headOf after d) interval (hasAnyVVRow after d)
  else sn

/-- everything `PushPull` does to the snapshot store/cache for one request whose bookkeeping result
(`after`, `r`) was computed by `Model/Server.lean`; returns the response vector of a snapshot response -/
def finishRequest (interval : Int) (sn : Snaps) (before after : Server) (d : DocId) (c : ClientId)
    (pack : Pack) (disableGC : Bool) (r : Except ErrKind Resp) (cpSeq : Nat := 0) : Snaps × Option VV :=
  match r with
  | .error _ => (sn, none)
  | .ok resp =>
    (backgroundPart (pullSnapshotPart sn before after d c pack disableGC resp cpSeq).1 before after d pack.isRemoved interval,
     (pullSnapshotPart sn before after d c pack disableGC resp cpSeq).2)

/-! ### the client's side of a sync -/

/-- `Context.NextID()` after a presence-only change: the sequence number moves, the clocks stay -/
def nextAfterPresenceOnly (id : ChangeID) : ChangeID :=
  { id with clientSeq := id.clientSeq + 1, serverSeq := 0 }

/-- what a `document.Document` keeps between requests, as far as the protocol sees it -/
structure Replica where
  /-- `InternalDocument.changeID` -/
  clock : ChangeID
  /-- `InternalDocument.checkpoint` -/
  cp : Checkpoint := Checkpoint.initial
  /-- ids of `localChanges` -/
  pending : List ChangeID := []
  /-- attached with `client.WithDisableGC()` (`InternalDocument.disableGC`) -/
  disableGC : Bool := false
deriving Repr, Inhabited

namespace Replica

/-- `document.New` + `SetActor` (what `Client.Attach` does first) -/
def new (actor : Actor) (disableGC : Bool) : Replica :=
  { clock := ChangeID.initial.setActor actor, disableGC := disableGC }

/-- `Update` producing operations: the change gets `changeID.Next()` and the document adopts it -/
def localChange (r : Replica) : Replica × ChangeID :=
  ({ r with clock := r.clock.next, pending := r.pending ++ [r.clock.next] }, r.clock.next)

/-- `Update` producing only a presence change: the change gets `Next(true)` (no clocks) -/
def localPresence (r : Replica) : Replica × ChangeID :=
  ({ r with clock := nextAfterPresenceOnly r.clock, pending := r.pending ++ [r.clock.nextPresenceOnly] },
   r.clock.nextPresenceOnly)

/-- `applyChanges` for one remote change -/
def recv (r : Replica) (id : ChangeID) : Replica :=
  { r with clock := if r.disableGC then r.clock.syncLamport id else r.clock.syncClocks id }

/-- `applySnapshot(snapshot, vector)` -/
def applySnapshot (r : Replica) (lamport : Int) (vv : VV) : Replica :=
  { r with clock := r.clock.setClocks lamport vv }

def idToReq (id : ChangeID) (hasOps hasPresence : Bool) : ChangeReq :=
  { clientSeq := id.clientSeq, lamport := id.lamport, vv := id.vv, actor := id.actor, hasOps := hasOps,
    hasPresence := hasPresence, tag := 0 }

/-- `CreateChangePack`: checkpoint with the client sequence advanced past the local changes, the local
changes, the document's vector -/
def packCp (r : Replica) : Checkpoint := ⟨r.cp.serverSeq, r.cp.clientSeq + r.pending.length⟩

def sameId (a b : ChangeID) : Bool :=
  a.clientSeq == b.clientSeq && a.lamport == b.lamport && a.actor == b.actor && a.vv.equal b.vv

def sameIds : List ChangeID → List ChangeID → Bool
  | [], [] => true
  | a :: r, b :: s => sameId a b && sameIds r s
  | _, _ => false

/-- is `pack` what `CreateChangePack` builds from this replica? -/
def packMatches (r : Replica) (pack : Pack) : Bool :=
  pack.cp == r.packCp && sameIds r.pending (pack.changes.map reqId) && pack.vv.equal r.clock.vv

def notAcked (cs : Nat) (id : ChangeID) : Bool := decide (id.clientSeq > cs)

/-- `ApplyChangePack` steps 02 and 03 -/
def ack (r : Replica) (cp : Checkpoint) : Replica :=
  { r with cp := r.cp.forward cp, pending := r.pending.filter (notAcked cp.clientSeq) }

end Replica

end Yorkie.ServerSnap
