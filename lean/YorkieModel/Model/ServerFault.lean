/-
L5+  Faults inside a request (C05), on top of Model/Server.lean (nothing there is changed).

A fault is an error returned by ONE storage call of ONE request, either before the call took effect
(`after = false`: the call does not happen) or after it (`after = true`: the call happens; if it
fails by itself its own error is returned, otherwise the injected one).  The handler then returns
exactly as the Go code does on an error of that call: the in-flight `ClientInfo` copy (the
`Flight`) is dropped, the store keeps whatever earlier calls committed.  The injected error is a
plain Go error (`ErrKind.internal`).

Storage calls of the four document requests, in order (server/rpc/yorkie_server.go,
server/clients/clients.go, server/packs/pushpull.go):

  PushPullChanges / DetachDocument / RemoveDocument
     FindClientInfoByRefKey                         handlerFindClient   (read)
     FindDocInfoByRefKey                 (1st)      handlerFindDoc      (read)
     -- packs.PushPull --
     FindDocInfoByRefKey                 (2nd)      pushFindDoc         (read; only when there is something
                                                                         to push or `pack.IsRemoved`)
     CreateChangeInfos                              createChanges       (WRITE: log, head, removed flag)
     FindChangeInfosBetweenServerSeqs               pullFindChanges     (read; only on the change-pull branch)
     UpdateMinVersionVector                         updateMinVV         (WRITE: version-vector row; not with DisableGC)
     UpdateClientInfoAfterPushPull                  updateClientInfo    (WRITE: client row – status, checkpoint)
  AttachDocument
     FindClientInfoByRefKey                         handlerFindClient
     FindOrCreateDocInfo                            findOrCreateDoc     (WRITE when the key is new)
     TryAttaching                                   tryAttaching        (WRITE: status `attaching`; skipped when already attaching)
     -- packs.PushPull as above (its FindDocInfoByRefKey is the first one of the request) --

(`DetachDocument` under `RemoveOnDetach` also calls `IsDocumentAttachedOrAttaching`; `AttachDocument`
under attachment limits calls `FindAttachedClientCount`; no fault is placed there.)

Response loss needs no new function: the server state is that of the fault-free `step`, the client
does not apply the response (`lost = true` in Props/C04 `wbRun`).
-/
import YorkieModel.Model.Server
namespace Yorkie.Server
open Yorkie

inductive FaultAt
  | handlerFindClient | handlerFindDoc
  | pushFindDoc | createChanges | pullFindChanges | updateMinVV | updateClientInfo
  | findOrCreateDoc | tryAttaching
deriving DecidableEq, Repr, Inhabited

structure Fault where
  point : FaultAt
  after : Bool
deriving DecidableEq, Repr, Inhabited

/-- the fault (if any) is armed at this call -/
def Fault.hits (k : Option Fault) (p : FaultAt) : Bool :=
  match k with
  | some f => f.point == p
  | none => false

def Fault.isAfter (k : Option Fault) : Bool :=
  match k with
  | some f => f.after
  | none => false

/-- a storage call (as a phase) with the fault armed on it -/
def faultyCall (after : Bool) (p : Phase) : Phase := fun s f =>
  if !after then (s, .error .internal)
  else
    match p s f with
    | (s', .ok _) => (s', .error .internal)
    | (s', .error e) => (s', .error e)

/-- `FindDocInfoByRefKey` inside `pushPack` is reached -/
def pushReadsDoc (f : Flight) : Bool := !(pushablesOf f).isEmpty || f.pack.isRemoved

/-- `pushPack` with a fault on its `FindDocInfoByRefKey` or on `CreateChangeInfos` -/
def pushPackF (k : Option Fault) : Phase := fun s f =>
  if Fault.hits k .pushFindDoc && pushReadsDoc f then
    (if Fault.isAfter k && (s.findDoc f.doc).isNone then (s, .error .documentNotFound) else (s, .error .internal))
  else if Fault.hits k .createChanges then
    match pushGuard s f with
    | .error e => (s, .error e)
    | .ok pushables => faultyCall (Fault.isAfter k) (fun s f => createChangeInfos s f pushables) s f
  else pushPack s f

/-- `FindChangeInfosBetweenServerSeqs` is reached (the change-pull branch of `preparePack`) -/
def pullReadsChanges (s : Server) (f : Flight) : Bool :=
  !f.pushOnly && !epochDiffers f.info f.doc f.docInfo.epoch && !decide (f.initialSeq < f.pack.cp.serverSeq) &&
  decide (f.initialSeq - f.pack.cp.serverSeq < s.cfg.snapshotThreshold)

def preparePackF (k : Option Fault) : Phase := fun s f =>
  if Fault.hits k .pullFindChanges && pullReadsChanges s f then (s, .error .internal)
  else preparePack s f

/-- `UpdateMinVersionVector` = `updateVersionVector` (write) then `GetMinVersionVector` (read) -/
def updateMinVVF (k : Option Fault) : Phase := fun s f =>
  if Fault.hits k .updateMinVV && !f.disableGC then faultyCall (Fault.isAfter k) updateMinVV s f
  else updateMinVV s f

def persistClientInfoF (k : Option Fault) : Phase := fun s f =>
  if Fault.hits k .updateClientInfo then faultyCall (Fault.isAfter k) persistClientInfo s f
  else persistClientInfo s f

/-- `packs.PushPull` with at most one faulty storage call -/
def pushPullF (k : Option Fault) : Phase :=
  validateClientSeq ⨟ stripPresence ⨟ pushPackF k ⨟ preparePackF k ⨟ updateDocStatus ⨟
  updateMinVVF k ⨟ persistClientInfoF k

/-- a read at handler level fails: nothing has been written yet -/
def readFault (k : Option Fault) (p : FaultAt) : Bool := Fault.hits k p

/-- `yorkieServer.PushPullChanges` -/
def pushpullReqF (k : Option Fault) (s : Server) (c : ClientId) (d : DocId) (pack : Pack) (pushOnly disableGC : Bool) : Result :=
  if readFault k .handlerFindClient then
    (match Fault.isAfter k, s.findActiveClient c with
     | true, .error .clientNotFound => (s, .error .clientNotFound)
     | _, _ => (s, .error .internal))
  else
  match s.findActiveClient c with
  | .error e => (s, .error e)
  | .ok info =>
    match info.ensureAttached d with
    | .error e => (s, .error e)
    | .ok _ =>
      if readFault k .handlerFindDoc then
        (if Fault.isAfter k && (s.findDoc d).isNone then (s, .error .documentNotFound) else (s, .error .internal))
      else
      match s.findDoc d with
      | none => (s, .error .documentNotFound)
      | some doc =>
        finish (pushPullF k s (mkFlight c d info pack pushOnly .attached disableGC doc.disablePresence))

/-- `yorkieServer.DetachDocument` -/
def detachF (k : Option Fault) (s : Server) (c : ClientId) (d : DocId) (pack : Pack) : Result :=
  if readFault k .handlerFindClient then
    (match Fault.isAfter k, s.findActiveClient c with
     | true, .error .clientNotFound => (s, .error .clientNotFound)
     | _, _ => (s, .error .internal))
  else
  match s.findActiveClient c with
  | .error e => (s, .error e)
  | .ok info =>
    match detachGuard s info d with
    | .error e => (s, .error e)
    | .ok _ =>
      if readFault k .handlerFindDoc then
        (if Fault.isAfter k && (s.findDoc d).isNone then (s, .error .documentNotFound) else (s, .error .internal))
      else
      match s.findDoc d with
      | none => (s, .error .documentNotFound)
      | some doc =>
        finish (pushPullF k s (mkFlight c d info (detachMode s c d pack).1 false (detachMode s c d pack).2 false
                             doc.disablePresence))

/-- `yorkieServer.RemoveDocument` -/
def removeF (k : Option Fault) (s : Server) (c : ClientId) (d : DocId) (pack : Pack) : Result :=
  if readFault k .handlerFindClient then
    (match Fault.isAfter k, s.findActiveClient c with
     | true, .error .clientNotFound => (s, .error .clientNotFound)
     | _, _ => (s, .error .internal))
  else
  match s.findActiveClient c with
  | .error e => (s, .error e)
  | .ok info =>
    match detachGuard s info d with
    | .error e => (s, .error e)
    | .ok _ =>
      if readFault k .handlerFindDoc then
        (if Fault.isAfter k && (s.findDoc d).isNone then (s, .error .documentNotFound) else (s, .error .internal))
      else
      match s.findDoc d with
      | none => (s, .error .documentNotFound)
      | some doc =>
        finish (pushPullF k s (mkFlight c d info pack false .removed false doc.disablePresence))

/-- `attachingStep` with a fault on `TryAttaching` (not called when the client is already attaching) -/
def attachingStepF (k : Option Fault) (s : Server) (c : ClientId) (info : Client) (d : DocId) :
    Server × Except ErrKind Client :=
  if info.isAttaching d then (s, .ok info)
  else if Fault.hits k .tryAttaching then
    (if !Fault.isAfter k then (s, .error .internal)
     else
       match tryAttaching s c d with
       | (s', .ok _) => (s', .error .internal)
       | (s', .error e) => (s', .error e))
  else tryAttaching s c d

def clientsAttachF (k : Option Fault) (s : Server) (c : ClientId) (info : Client) (d : DocId) (docEpoch : Int)
    (isAttached : Bool) : Server × Except ErrKind Client :=
  if info.isAlreadyDetached d isAttached then (s, .error .documentAlreadyDetached)
  else
    match attachingStepF k s c info d with
    | (s1, .error e) => (s1, .error e)
    | (s1, .ok info1) => (s1, info1.attachDocument d isAttached docEpoch)

def attachWithF (k : Option Fault) (s1 : Server) (c : ClientId) (info : Client) (d : DocId) (pack : Pack) (disableGC : Bool) : Result :=
  match s1.findDoc d with
  | none => (s1, .error .documentNotFound)
  | some doc =>
    match clientsAttachF k s1 c info d doc.epoch (pack.cp.serverSeq != 0) with
    | (s2, .error e) => (s2, .error e)
    | (s2, .ok info2) =>
      match pushPullF k s2 (mkFlight c d info2 pack false .attached disableGC doc.disablePresence) with
      | (s3, .ok f) => (s3, .ok { f.resp with doc := some d })
      | (s3, .error e) => (s3, .error e)

/-- `yorkieServer.AttachDocument` -/
def attachF (k : Option Fault) (s : Server) (c : ClientId) (key : Nat) (pack : Pack) (disablePresence disableGC : Bool) : Result :=
  if readFault k .handlerFindClient then
    (match Fault.isAfter k, s.findActiveClient c with
     | true, .error .clientNotFound => (s, .error .clientNotFound)
     | _, _ => (s, .error .internal))
  else
  match s.findActiveClient c with
  | .error e => (s, .error e)
  | .ok info =>
    if Fault.hits k .findOrCreateDoc then
      (if !Fault.isAfter k then (s, .error .internal)
       else ((findOrCreateDoc s key disablePresence).1, .error .internal))
    else attachWithF k (findOrCreateDoc s key disablePresence).1 c info
      (findOrCreateDoc s key disablePresence).2 pack disableGC

/-- one request with at most one faulty storage call (`activate`/`deactivate`: no fault is placed) -/
def stepF (k : Option Fault) (s : Server) : Request → Result
  | .activate => activate s
  | .deactivate c order => deactivate s c order
  | .attach c key pack dp nogc => attachF k s c key pack dp nogc
  | .pushpull c d pack po nogc => pushpullReqF k s c d pack po nogc
  | .detach c d pack => detachF k s c d pack
  | .remove c d pack => removeF k s c d pack

end Yorkie.Server
