/-
L5+  Compaction and epochs (C10), on top of Model/Server.lean (nothing there is changed; the
identity stub `Server.compact` stays as it is – the real thing is `compactDoc` below).

Go anchors (read line by line):
  server/server.go               Yorkie.CompactDocument  (exclusive `packs.DocKey` lock,
                                 `documents.FindDocInfoByKey` – removed documents are invisible by key)
  server/rpc/cluster_server.go   CompactDocument (same lock, lookup by id), admin_server.go likewise
  server/packs/compaction.go     Compact: 1. `!force` ⇒ `DB.IsDocumentAttachedOrAttaching(doc, "")`
                                 2. `BuildInternalDocForServerSeq` → `yson.FromCRDT` → `document.New` +
                                    `SetYSON` → `yson.FromCRDT`, 3. Marshal strings compared,
                                 5. `DB.CompactChangeInfos(docInfo, docInfo.ServerSeq, newDoc.CreateChangePack().Changes)`
  memory/database.go             CompactChangeInfos (one write transaction: `purgeDocumentInternals` – changes,
                                 snapshots, snapshot bodies, version vectors of the document; at most one change,
                                 stored with ServerSeq = number of changes; `Epoch++`), IsDocumentAttachedOrAttaching
  server/packs/pushpull.go       every epoch comparison is already in Model/Server.lean (`epochDiffers` in
                                 `pushGuard`, `preparePackCore`, the detach/remove escape in `pullPackResp`)

Lock: every caller of `packs.Compact` holds the document lock `packs.DocKey(project, key)` exclusively;
`AttachDocument`/`PushPullChanges`/`DetachDocument`/`RemoveDocument` hold it shared for their whole
duration (and `TryAttaching` runs under it), so the attachment test and the rewrite are one atomic step
with respect to requests – modelled as one function.

Content is opaque at this layer.  `ContentSem` is the interface: `fold` = rebuild the document from a
log and read its root (`BuildInternalDocForServerSeq` + `FromCRDT`), `rebuild` = the changes of a new
document that `SetYSON`s that root (none for an empty root, else one), `eq` = equality of the two
`Marshal` strings.  The rebuild-compare step is a guard: compaction fails and changes nothing when the
rebuilt content differs.  What the guard is worth on real documents is checked by the `compact`
harness engine's content oracle (real clients, real documents).
-/
import YorkieModel.Model.Server
namespace Yorkie.Server
open Yorkie

/-- `time.InitialActorID` (twelve zero bytes) is the actor of the compacted change.  Clients are
numbered by creation order in this model, so the all-zero id gets a reserved number far above any
client number (the harness prints it as `c1000000`). -/
def initialActorNo : Actor := 1000000

inductive CompactErr
  /-- `documents.FindDocInfoByKey` / `FindDocInfoByRefKey` found nothing -/
  | documentNotFound
  /-- `packs.ErrDocumentAttached` -/
  | documentAttached
  /-- `content mismatch after rebuild` -/
  | contentMismatch
  /-- `CompactChangeInfos`: `invalid changes size` -/
  | invalidSize
deriving DecidableEq, Repr, Inhabited

structure ContentSem (α : Type) where
  fold : List Row → α
  rebuild : α → List ChangeReq
  eq : α → α → Bool

/-- the test inside `IsDocumentAttachedOrAttaching` (exclude id `""` matches no client) -/
def holdsDoc (d : DocId) (p : Nat × Client) : Bool :=
  p.2.statusOf d == some .attached || p.2.statusOf d == some .attaching

/-- `DB.IsDocumentAttachedOrAttaching(doc, "")`: ranges over every client row of the project,
activated or not -/
def isDocHeld (s : Server) (d : DocId) : Bool := s.clients.any (holdsDoc d)

/-- the insert loop of `CompactChangeInfos`: every change is stored with
`ServerSeq = loadedDocInfo.ServerSeq` = the number of changes (0 or 1) -/
def compactRows (cs : List ChangeReq) : List Row := cs.map (mkRow 0 cs.length)

/-- the document row after `CompactChangeInfos` -/
def compactedDoc (doc : Doc) (rows : List Row) : Doc :=
  { doc with log := rows, serverSeq := rows.length, epoch := doc.epoch + 1, vvRows := [] }

/-- `packs.Compact` + `DB.CompactChangeInfos`; client rows are not touched -/
def compactDoc {α : Type} (sem : ContentSem α) (force : Bool) (s : Server) (d : DocId) :
    Server × Except CompactErr Unit :=
  match s.findDoc d with
  | none => (s, .error .documentNotFound)
  | some doc =>
    if !force && isDocHeld s d then (s, .error .documentAttached)
    else if !sem.eq (sem.fold (compactRows (sem.rebuild (sem.fold doc.log)))) (sem.fold doc.log) then
      (s, .error .contentMismatch)
    else if (sem.rebuild (sem.fold doc.log)).length > 1 then (s, .error .invalidSize)
    else (s.setDoc d (compactedDoc doc (compactRows (sem.rebuild (sem.fold doc.log)))), .ok ())

/-- `Yorkie.CompactDocument(ctx, key, force)`: lookup by key first -/
def compactByKey {α : Type} (sem : ContentSem α) (force : Bool) (s : Server) (key : Nat) :
    Server × Except CompactErr Unit :=
  match s.findDocIdByKey key with
  | none => (s, .error .documentNotFound)
  | some d => compactDoc sem force s d

/-! ### the content semantics of the `proto`/`compact` request streams

Every operation the raw-RPC streams send is `Set(root, "k", int)`, so the root is `{}` exactly when
no stored change carries operations, and `{"k":…}` otherwise. -/

/-- the single change of `document.New(key)` + one `Update`: `InitialChangeID.Next()` -/
def compactChange : ChangeReq :=
  { clientSeq := 1, lamport := 1, vv := [(initialActorNo, 1)], actor := initialActorNo, hasOps := true,
    hasPresence := false, tag := 0 }

def rowHasOps (r : Row) : Bool := r.hasOps

def tagSem : ContentSem Bool :=
  { fold := fun log => log.any rowHasOps,
    rebuild := fun b => if b then [compactChange] else [],
    eq := fun a b => a == b }

/-! ### histories with compaction -/

inductive Ev
  | req (r : Request)
  | compact (d : DocId) (force : Bool)
deriving Repr, Inhabited

def stepEv {α : Type} (sem : ContentSem α) (s : Server) : Ev → Server
  | .req r => (step s r).1
  | .compact d force => (compactDoc sem force s d).1

def runEv {α : Type} (sem : ContentSem α) (s : Server) (evs : List Ev) : Server := evs.foldl (stepEv sem) s

/-- the compaction succeeded -/
def compactOk {α : Type} (sem : ContentSem α) (s : Server) (d : DocId) (force : Bool) : Bool :=
  match (compactDoc sem force s d).2 with
  | .ok _ => true
  | .error _ => false

/-- number of successful compactions of document `d` along a history -/
def compactions {α : Type} (sem : ContentSem α) (d : DocId) : Server → List Ev → Nat
  | _, [] => 0
  | s, .req r :: rest => compactions sem d (step s r).1 rest
  | s, .compact d' force :: rest =>
    (if d' = d ∧ compactOk sem s d' force = true then 1 else 0) + compactions sem d (compactDoc sem force s d').1 rest

end Yorkie.Server
