/-
L2 Tree at document level (core Lean only): the json layer (`json.Tree.Edit/Style/RemoveStyle`,
`Object.SetNewTree`), the operations (`operations.TreeEdit/TreeStyle.Execute`), a replica with its two
copies (`Document.cloneRoot`, `Document.doc.root`), the server's replay copy, snapshots, and the
two-client scenario of test/complex/tree_concurrency_test.go (`runTest` + `syncClientsThenCheckEqual`).

Go anchors: pkg/document/json/tree.go (`edit`: ticket per content node in pre-order, `editedAt =
LastTimeTicket()`, recorded `splitTickets`; `Style`, `RemoveStyle`), pkg/document/json/object.go
(`setInternal`, `SetNewTree`, `buildRoot/buildDescendants`), pkg/document/operations/tree_edit.go
(`Execute`: contents deep-copied, `issueTimeTicket` = carried tickets then `(lamport, delimiter +
len(contents) + k, actor)`, `needsReverseInfo = source != OpSourceReplay`), tree_style.go,
pkg/document/document.go (`Update`: clone first without vector, then `Change.Execute(root,
OpSourceLocal)` with the change's vector; `applyChanges`: clone then root, both with the vector),
pkg/document/internal_document.go (`ApplyChangePack` of the server copy: `OpSourceReplay`;
`applySnapshot`), change/id.go (`Next`, `SyncClocks` through Model/Time.lean).

Modelling decisions: the change's version vector is what `ID.Next()` produces; reverse operations
(undo stack) are not built; presence and GC are absent; every Update makes exactly one json call.
-/
import YorkieModel.Model.Tree
namespace Yorkie.Tree
open Yorkie

/-- one node of a `json.TreeNode` tree, pre-order with depth -/
structure JItem where
  depth : Nat
  type : Str
  value : List Nat := []
  attrs : List (Str × Str) := []
deriving Repr, DecidableEq, Inhabited

/-- a json-layer call inside one `Document.Update` -/
inductive Call
  | edit (fr to : Nat) (contents : List (List JItem)) (splitLevel : Nat)
  | style (fr to : Nat) (kvs : List (Str × Str))
  | removeStyle (fr to : Nat) (keys : List Str)
  | nop
deriving Repr, DecidableEq

/-- an operation as it travels in a change -/
inductive Op
  | edit (fr to : Pos) (contents : List (List Flat)) (splitLevel : Nat) (ts : Ticket) (splitTickets : List Ticket)
  | style (fr to : Pos) (arg : StyleArg) (ts : Ticket)
deriving Repr

structure Change where
  id : ChangeID
  op : Op
deriving Repr

/-- `buildRoot/buildDescendants` / the element branch of `json.Tree.edit`: allocate the nodes of one
    json tree in the arena, one ticket per node in pre-order, `Append` under the parent -/
def allocJGo (lam : Int) (actor : Actor) : List JItem → List (Nat × Ptr) → Nat → Tree → Option Ptr → Tree × Nat × Option Ptr
  | [], _, delim, t, root => (t, delim, root)
  | it :: r, stack, delim, t, root =>
    let tk : Ticket := ⟨lam, delim + 1, actor⟩
    let attrs := it.attrs.foldl (fun acc kv => rhtSet acc kv.1 kv.2 tk) []
    let (t1, p) := t.alloc (mkNode ⟨tk, 0⟩ it.type it.value attrs)
    let stack' := stack.dropWhile (fun e => e.1 ≥ it.depth)
    let t2 := match stack' with
      | (_, par) :: _ => ((t1.setChildren' par ((t1.get par).children ++ [p])).setParent p (some par)).addLens p
      | [] => t1
    allocJGo lam actor r ((it.depth, p) :: stack') (delim + 1) t2 (if root.isNone then some p else root)

/-- the post-order node list of the subtree at `p` with depths relative to `p` -/
def Tree.flatOf (t : Tree) (p : Ptr) : List Flat := (postorderD t.fuel t p 0).map (fun pd => ⟨pd.2, t.get pd.1⟩)

def emptyTree : Tree := ⟨[], 0, [], 0⟩

/-- contents of `json.Tree.edit` as node lists, and the delimiter after issuing their tickets.
    Text contents are concatenated into ONE node; each element content starts a fresh ticket. -/
def buildContents (lam : Int) (actor : Actor) (delim : Nat) (contents : List (List JItem)) : List (List Flat) × Nat :=
  match contents with
  | [] => ([], delim + 1)           -- the ticket is issued even without content
  | first :: _ =>
    if first.isEmpty then ([], delim + 1) else
    if (first.headD default).type == textType then
      let value := contents.flatMap (fun c => (c.headD default).value)
      let tk : Ticket := ⟨lam, delim + 1, actor⟩
      ([[⟨0, mkNode ⟨tk, 0⟩ textType value []⟩]], delim + 1)
    else
      contents.foldl (fun (acc : List (List Flat) × Nat) c =>
        let (t, d, root) := allocJGo lam actor c [] acc.2 emptyTree none
        match root with
        | some p => (acc.1 ++ [t.flatOf p], d)
        | none => acc) ([], delim)

/-- `Tree.Edit` on contents given as node lists (the operation's `DeepCopy`/decoded contents) -/
def Tree.applyEdit (t : Tree) (fr to : Pos) (contents : List (List Flat)) (splitLevel : Nat) (ts : Ticket)
    (src : TickSrc) (vv : VV) (rev : Bool) : Except Err (Tree × TickSrc) :=
  let alloc : Except Err (Tree × List Ptr) := contents.foldl (fun acc fl =>
    match acc with
    | .error e => .error e
    | .ok (a, ps) =>
      match a.allocFlat fl with
      | .error e => .error e
      | .ok (a', p) => .ok (a', ps ++ [p])) (.ok (t, []))
  match alloc with
  | .error e => .error e
  | .ok (t1, ps) => t1.edit fr to ps splitLevel ts src vv rev

/-- `operations.TreeEdit/TreeStyle.Execute` on one copy; `rev` is `source != OpSourceReplay` -/
def Tree.applyOp (t : Tree) (op : Op) (vv : VV) (rev : Bool) : Except Err Tree :=
  match op with
  | .edit fr to contents splitLevel ts splitTickets =>
    match t.applyEdit fr to contents splitLevel ts ⟨splitTickets, ts.lamport, ts.actor, ts.delim + contents.length, []⟩ vv rev with
    | .error e => .error e
    | .ok (t', _) => .ok t'
  | .style fr to arg ts => t.style fr to arg ts vv

/-- a replica: change id (actor, lamport, vector) and the two copies of the tree -/
structure Rep where
  id : ChangeID
  root : Tree
  clone : Tree
deriving Repr

/-- the json-layer call on the clone: positions from indices, tickets, `Tree.Edit/Style` with NO vector;
    returns the new clone and the operation pushed to the change -/
def localCall (clone : Tree) (nid : ChangeID) (c : Call) : Except Err (Option (Tree × Op)) :=
  match c with
  | .nop => .ok none
  | .edit fr to contents splitLevel =>
    if fr > to then .error .range else
    match clone.findPos fr, clone.findPos to with
    | .ok fp, .ok tp =>
      let (cs, delim) := buildContents nid.lamport nid.actor 0 contents
      let ts : Ticket := ⟨nid.lamport, delim, nid.actor⟩
      match clone.applyEdit fp tp cs splitLevel ts ⟨[], nid.lamport, nid.actor, delim, []⟩ [] true with
      | .error e => .error e
      | .ok (t', src) => .ok (some (t', .edit fp tp cs splitLevel ts src.issued))
    | .error e, _ => .error e
    | _, .error e => .error e
  | .style fr to kvs =>
    if fr > to then .error .range else
    if kvs.isEmpty then .ok none else
    match clone.findPos fr, clone.findPos to with
    | .ok fp, .ok tp =>
      let ts : Ticket := ⟨nid.lamport, 1, nid.actor⟩
      match clone.style fp tp (.set kvs) ts [] with
      | .error e => .error e
      | .ok t' => .ok (some (t', .style fp tp (.set kvs) ts))
    | .error e, _ => .error e
    | _, .error e => .error e
  | .removeStyle fr to keys =>
    if fr > to then .error .range else
    if keys.isEmpty then .ok none else
    match clone.findPos fr, clone.findPos to with
    | .ok fp, .ok tp =>
      let ts : Ticket := ⟨nid.lamport, 1, nid.actor⟩
      match clone.style fp tp (.remove keys) ts [] with
      | .error e => .error e
      | .ok t' => .ok (some (t', .style fp tp (.remove keys) ts))
    | .error e, _ => .error e
    | _, .error e => .error e

/-- `Document.Update` with one call -/
def Rep.update (r : Rep) (c : Call) : Except Err (Rep × Option Change) :=
  let nid := r.id.next
  match localCall r.clone nid c with
  | .error e => .error e
  | .ok none => .ok (r, none)
  | .ok (some (clone', op)) =>
    match r.root.applyOp op nid.vv true with
    | .error e => .error e
    | .ok root' => .ok ({ id := nid, root := root', clone := clone' }, some ⟨nid, op⟩)

/-- `Document.applyChanges` for one remote change -/
def Rep.applyRemote (r : Rep) (ch : Change) : Except Err Rep :=
  match r.clone.applyOp ch.op ch.id.vv true with
  | .error e => .error e
  | .ok clone' =>
    match r.root.applyOp ch.op ch.id.vv true with
    | .error e => .error e
    | .ok root' => .ok { id := r.id.syncClocks ch.id, root := root', clone := clone' }

def Rep.applyRemoteO (r : Rep) (ch : Option Change) : Except Err Rep :=
  match ch with
  | some c => r.applyRemote c
  | none => .ok r

/-- the server copy (`InternalDocument.ApplyChangePack`, `OpSourceReplay`) -/
def replayO (t : Tree) (ch : Option Change) : Except Err Tree :=
  match ch with
  | some c => t.applyOp c.op c.id.vv false
  | none => .ok t

/-- `Object.SetNewTree(k, initialRoot)` inside the first change of actor `a`: tickets `(1, 1.., a)` -/
def initialTree (a : Actor) (init : List JItem) : Tree :=
  -- `setInternal` issues the element's ticket first; `buildRoot` reuses it for the root node
  let (t, _, root) := allocJGo 1 a init [] 0 emptyTree none
  t.newTree (root.getD 0)

/-- a third client seeded by `SnapshotToBytes → BytesToSnapshot` of the server copy: the root is the
    decoded tree, the clone its `DeepCopy` -/
def seeded (s : Tree) : Except Err Rep :=
  match s.snapshot with
  | .error e => .error e
  | .ok t => .ok { id := ChangeID.initial, root := t, clone := t.deepCopy }

/-- one line of the matrix: initial tree and the two concurrent calls -/
structure Case where
  idx : Nat
  init : List JItem
  call1 : Call
  call2 : Call
deriving Repr

def actor1 : Actor := 1
def actor2 : Actor := 2

/-- final states of the two editors -/
structure Outcome where
  d1 : Rep
  d2 : Rep
  ch1 : Option Change
  ch2 : Option Change
  /-- the tree every peer holds after the first change went over the wire -/
  wire : Tree

/-- `runTest` of the upstream matrix: d1 creates the tree, both sync, each makes its call, both sync.
    The order in which the two clients sync afterwards does not change what the editors execute
    (each has applied its own change; it receives the other one with the vector fixed at creation),
    so one run stands for both sync orders as far as d1 and d2 are concerned. -/
def runCase (c : Case) : Except Err Outcome :=
  let t0 := initialTree actor1 c.init
  let id1 : ChangeID := ChangeID.initial.setActor actor1 |>.next
  match t0.snapshot with
  | .error e => .error e
  | .ok tw =>
    let w := tw.deepCopy
    let d1 : Rep := { id := id1, root := t0.deepCopy, clone := t0 }
    let d2 : Rep := { id := (ChangeID.initial.setActor actor2).syncClocks id1, root := w, clone := w }
    match d1.update c.call1 with
    | .error e => .error e
    | .ok (d1a, ch1) =>
      match d2.update c.call2 with
      | .error e => .error e
      | .ok (d2a, ch2) =>
        match d1a.applyRemoteO ch2 with
        | .error e => .error e
        | .ok d1b =>
          match d2a.applyRemoteO ch1 with
          | .error e => .error e
          | .ok d2b => .ok ⟨d1b, d2b, ch1, ch2, w⟩

def xmlEq (a b : Tree) : Bool := a.toXMLCodes == b.toXMLCodes

/-- C19 on one pair: both editors end with the same XML, and on each the clone equals the root -/
def converges (c : Case) : Bool :=
  match runCase c with
  | .error _ => false
  | .ok o => xmlEq o.d1.root o.d2.root && xmlEq o.d1.clone o.d1.root && xmlEq o.d2.clone o.d2.root

/-- the server copy after replaying the two changes in the given order (`first = true`: ch1 then ch2),
    and a third client seeded by a snapshot taken after `snapAt` (1 or 2) changes -/
def thirdClient (o : Outcome) (order12 : Bool) (snapAt : Nat) : Except Err (Tree × Rep) :=
  let a := if order12 then o.ch1 else o.ch2
  let b := if order12 then o.ch2 else o.ch1
  match replayO o.wire a with
  | .error e => .error e
  | .ok s1 =>
    match replayO s1 b with
    | .error e => .error e
    | .ok s2 =>
      if snapAt == 1 then
        match seeded s1 with
        | .error e => .error e
        | .ok d3 =>
          match d3.applyRemoteO b with
          | .error e => .error e
          | .ok d3' => .ok (s2, d3')
      else
        match seeded s2 with
        | .error e => .error e
        | .ok d3 => .ok (s2, d3)

def thirdOk (o : Outcome) (order12 : Bool) (snapAt : Nat) : Bool :=
  match thirdClient o order12 snapAt with
  | .error _ => false
  | .ok (s, d3) => xmlEq s o.d1.root && xmlEq d3.root o.d1.root && xmlEq d3.clone d3.root

/-- a snapshot-seeded client that then receives `rest`: its two copies render `x` -/
def seededOk (s : Tree) (rest : Option Change) (x : Str) : Bool :=
  match seeded s with
  | .error _ => false
  | .ok d3 =>
    match d3.applyRemoteO rest with
    | .error _ => false
    | .ok d => d.root.toXMLCodes == x && d.clone.toXMLCodes == x

/-- one sync order: the server replays `a` then `b`; snapshot after the first / after the second -/
def orderOk (w : Tree) (a b : Option Change) (x : Str) : Bool :=
  match replayO w a with
  | .error _ => false
  | .ok s1 =>
    match replayO s1 b with
    | .error _ => false
    | .ok s2 => s2.toXMLCodes == x && seededOk s1 b x && seededOk s2 none x

/-- the extension: the server's replay in both sync orders and a snapshot-seeded third client
    (snapshot after the first / after the second sync) all agree with the editors
    (`convergesExt_iff` in Lemmas/TreeMatrix.lean relates it to `thirdClient`) -/
def convergesExt (c : Case) : Bool :=
  match runCase c with
  | .error _ => false
  | .ok o =>
    let x := o.d1.root.toXMLCodes
    o.d2.root.toXMLCodes == x && o.d1.clone.toXMLCodes == x && o.d2.clone.toXMLCodes == x &&
    orderOk o.wire o.ch1 o.ch2 x && orderOk o.wire o.ch2 o.ch1 x

end Yorkie.Tree
