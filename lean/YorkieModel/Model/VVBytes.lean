/-
Version-vector byte codec: `VersionVector.Bytes()` / `VersionVectorFromBytes`
(pkg/document/time/version_vector.go; used by the MongoDB BSON registry,
server/backend/database/mongo/registry.go).

Layout: int64 big-endian entry count, then per entry 12 actor bytes + int64 big-endian value.
Go iterates the map in arbitrary order; `encode` takes the association list in *some* order and
the theorems quantify over every list, hence over every order.

Faithful decoder (what the code does, not what one would want):
* empty input                         → error (first read hits EOF)
* 1..7 bytes where the count should be → accepted, missing low bytes are 0
* count ≤ 0                            → accepted as the empty vector, rest of input ignored
* per entry: a read error happens only when **no** byte is left; a short actor read is not an
  error in itself (the value read that follows then hits EOF); a short *value* read (1..7 bytes)
  is accepted with zero low bytes
* bytes after the last entry are ignored; a repeated actor overwrites (Go map store)
* a huge count cannot loop or allocate: every iteration needs ≥ 13 fresh bytes
-/
import YorkieModel.Model.Time
import YorkieModel.Model.ByteCodec
namespace Yorkie
namespace VVBytes
open ByteCodec

def actorSize : Nat := 12

def encodeEntry (p : Actor × Int) : Bytes := natToBE actorSize p.1 ++ writeInt64 p.2

def encodeEntries : VV → Bytes
  | [] => []
  | p :: r => encodeEntry p ++ encodeEntries r

/-- `VersionVector.Bytes()` for the map enumerated as `v` -/
def encode (v : VV) : Bytes := writeInt64 (v.length : Int) ++ encodeEntries v

/-- the `for i := 0; i < length; i++` loop of `VersionVectorFromBytes` -/
def decodeLoop : Nat → Bytes → VV → Option VV
  | 0, _, acc => some acc
  | n + 1, s, acc =>
    match readPad actorSize s with
    | none => none
    | some (a, s1) =>
      match readInt64 s1 with
      | none => none
      | some (x, s2) => decodeLoop n s2 (acc.set (beToNat a) x)

/-- `VersionVectorFromBytes` -/
def decode (s : Bytes) : Option VV :=
  match readInt64 s with
  | none => none
  | some (len, rest) => decodeLoop len.toNat rest []

/-- the exact accept set of `decodeLoop n s` in terms of the input length -/
def loopAccepts (n : Nat) (len : Nat) : Bool := n == 0 || decide (len ≥ 20 * (n - 1) + 13)

end VVBytes
end Yorkie
