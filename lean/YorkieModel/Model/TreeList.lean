/-
Model of pkg/treelist/treelist.go: the order-statistic tree that indexes the position
nodes of `RGATreeList` (Array).  It is a left-leaning red-black tree (NOT a splay tree)
over the structural sequence of nodes; every node caches
  * `weight` = number of live (not removed) nodes in its subtree  → `Find(index)`, `Len()`
  * `count`  = number of all nodes in its subtree (tombstones too) → `InsertAfter`, `Delete`
Rebalancing is the shared LLRB core (Model/RBCore.lean) instantiated with `cfg` below.
`IsRemoved()` belongs to the *value* and changes behind the tree's back; `mark` models
that and leaves the weights stale until `UpdateWeight(node)` walks up to the root.
-/
import YorkieModel.Model.RBCore
namespace Yorkie.TreeList
open Yorkie.RB Yorkie.RB.T

/-- payload: identity, `value.IsRemoved()`, cached `weight` and `count` -/
structure P where
  id : Nat
  rm : Bool
  w : Nat
  c : Nat
deriving Repr, DecidableEq, Inhabited

abbrev T := RB.T P

/-- `Node.Size()` -/
def sz (rm : Bool) : Nat := if rm then 0 else 1

def weight : T → Nat
  | nil => 0
  | node _ a _ _ => a.w

def count : T → Nat
  | nil => 0
  | node _ a _ _ => a.c

def cfg : Cfg P Nat where
  upd l a r := { a with w := weight l + sz a.rm + weight r, c := count l + 1 + count r }
  nav l _ idx := (if idx < count l then .lt else if idx = count l then .eq else .gt, idx - count l - 1)
  navI l _ idx := (if idx ≤ count l then .lt else .gt, idx - count l - 1)
  setV a _ := a
  strictFix := true

/-- structural in-order sequence of (id, removed) -/
def toList (t : T) : List (Nat × Bool) := t.toList.map (fun a => (a.id, a.rm))

def ids (t : T) : List Nat := t.toList.map (·.id)

/-- all cached aggregates are exact -/
def wf : T → Prop
  | nil => True
  | node l a _ r => wf l ∧ wf r ∧ a.w = weight l + sz a.rm + weight r ∧ a.c = count l + 1 + count r

instance decWf : (t : T) → Decidable (wf t)
  | nil => isTrue trivial
  | node l a _ r =>
    have := decWf l
    have := decWf r
    inferInstanceAs (Decidable (wf l ∧ wf r ∧ a.w = weight l + sz a.rm + weight r ∧ a.c = count l + 1 + count r))

/-- `NewNode(value)` -/
def newNode (id : Nat) (rm : Bool) : P := ⟨id, rm, sz rm, 1⟩

/-- `NewTree(NewNode(value))`: a black root -/
def newTree (id : Nat) (rm : Bool) : T := node nil (newNode id rm) false nil

/-- `structuralIndexOf(node)`: walks the parent pointers adding cached left counts -/
def sIndexOf (x : Nat) : T → Option Nat
  | nil => none
  | node l a _ r =>
    if a.id = x then some (count l)
    else match sIndexOf x l with
      | some i => some i
      | none => (sIndexOf x r).map (· + (count l + 1))

/-- `Tree.InsertAfter(prev, NewNode(value))` -/
def insertAfter (prev id : Nat) (rm : Bool) (t : T) : T :=
  match sIndexOf prev t with
  | none => t
  | some i => RB.insert cfg t (i + 1) (newNode id rm)

/-- `Tree.Delete(node)` -/
def delete (x : Nat) (t : T) : T :=
  match sIndexOf x t with
  | none => t
  | some i => RB.delete cfg t i

/-- `Tree.Len()` -/
def len (t : T) : Nat := weight t

/-- the loop of `Find`; `none` = nil dereference (only with stale weights) -/
def findGo : T → Nat → Option Nat
  | nil, _ => none
  | node l a _ r, i =>
    if i < weight l then findGo l i
    else if i < weight l + sz a.rm then some a.id
    else findGo r (i - (weight l + sz a.rm))

inductive FindRes where
  | outOfIndex
  | found (id : Nat)
  | panic
deriving Repr, DecidableEq, Inhabited

/-- `Tree.Find(index)` for `index ≥ 0` -/
def find (t : T) (i : Nat) : FindRes :=
  if t.isNil || i ≥ len t then .outOfIndex
  else match findGo t i with
    | some id => .found id
    | none => .panic

/-- the value of node `x` changes `IsRemoved()`; cached weights are NOT touched -/
def mark (x : Nat) (b : Bool) : T → T
  | nil => nil
  | node l a c r => node (mark x b l) (if a.id = x then { a with rm := b } else a) c (mark x b r)

/-- `Tree.UpdateWeight(node)`: recompute `weight` from the node up to the root
(`none`: the node is not in this subtree) -/
def updateWeightGo (x : Nat) : T → Option T
  | nil => none
  | node l a c r =>
    if a.id = x then some (node l { a with w := weight l + sz a.rm + weight r } c r)
    else match updateWeightGo x l with
      | some l' => some (node l' { a with w := weight l' + sz a.rm + weight r } c r)
      | none => match updateWeightGo x r with
        | some r' => some (node l { a with w := weight l + sz a.rm + weight r' } c r')
        | none => none

def updateWeight (x : Nat) (t : T) : T := (updateWeightGo x t).getD t

end Yorkie.TreeList
