/-
Model of pkg/llrb/llrb.go: the left-leaning red-black ordered map used as
`treeByID` of `RGATreeSplit` and `NodeMapByID` of `Tree` (`Put`, `Remove`, `Floor`,
`Len`).  Keys are modelled as `Nat` with the usual order (the Go keys are compared by
`Key.Compare`; the harness uses integer keys).  Rebalancing is the shared LLRB core
(Model/RBCore.lean) instantiated with `cfg` below.

`Remove(key)` of an absent key (or on an empty tree) dereferences nil in the Go code
(panic); the model's `remove` returns the map unchanged and `removePanics` says so.
-/
import YorkieModel.Model.RBCore
namespace Yorkie.Llrb
open Yorkie.RB Yorkie.RB.T

structure P where
  k : Nat
  v : Nat
deriving Repr, DecidableEq, Inhabited

abbrev T := RB.T P

def cfg : Cfg P Nat where
  upd _ a _ := a
  nav _ a q := (compare q a.k, q)
  navI _ a q := (compare q a.k, q)
  setV a new := { a with v := new.v }
  strictFix := false

/-- in-order sequence of (key, value) -/
def toList (t : T) : List (Nat × Nat) := t.toList.map (fun a => (a.k, a.v))

def keys (t : T) : List Nat := t.toList.map (·.k)

/-- does the search path of `k` end at a node (`put` creates a node iff it does not) -/
def memNav : T → Nat → Bool
  | nil, _ => false
  | node l a _ r, q =>
    match compare q a.k with
    | .lt => memNav l q
    | .eq => true
    | .gt => memNav r q

/-- the Go `Tree`: root and the separately maintained `size` -/
structure M where
  t : T := nil
  size : Nat := 0
deriving Repr, DecidableEq, Inhabited

/-- `Tree.Put(k, v)` -/
def put (m : M) (k v : Nat) : M :=
  { t := RB.insert cfg m.t k ⟨k, v⟩, size := if memNav m.t k then m.size else m.size + 1 }

/-- `Tree.Remove(k)` panics (nil dereference) iff the key is absent -/
def removePanics (m : M) (k : Nat) : Bool := !memNav m.t k

/-- `Tree.Remove(k)` -/
def remove (m : M) (k : Nat) : M :=
  if memNav m.t k then { t := RB.delete cfg m.t k, size := m.size - 1 } else m

/-- the loop of `Floor` -/
def floorGo : T → Nat → Option (Nat × Nat) → Option (Nat × Nat)
  | nil, _, acc => acc
  | node l a _ r, q, acc =>
    match compare q a.k with
    | .eq => some (a.k, a.v)
    | .lt => floorGo l q acc
    | .gt => floorGo r q (some (a.k, a.v))

/-- `Tree.Floor(k)`: `none` is the Go zero result `(nil, nil)` -/
def floor (m : M) (q : Nat) : Option (Nat × Nat) := floorGo m.t q none

/-- `Tree.Len()` -/
def len (m : M) : Nat := m.size

end Yorkie.Llrb
