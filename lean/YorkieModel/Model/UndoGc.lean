/-
L4-gc (fragment): the element GC registry of `crdt.Root` next to the undo/redo layer.

Go anchors: pkg/document/crdt/root.go (`RegisterRemovedElementPair`, `DeregisterElement`,
`GarbageCollect`), pkg/document/crdt/element_rht.go (`SetWithExecutedAt`, `purge`,
`ElementRHTNode.Remove`), pkg/document/operations/{set,remove}.go,
docs/tasks/active/20260816-remote-redo-replica-divergence-todo.md ("Mechanism").

What is modelled: next to the heap `Doc` a registry `Reg` (Go: `gcElementPairMap`, keyed by the
creation ticket; an entry is `{parent, elem}` and the purge decision reads `elem.RemovedAt()`).
  * `Set` that wins over a LIVE occupant registers the occupant with `removedAt = ts`;
    `Set` that loses LWW against a live occupant registers its own value with
    `removedAt = PositionedAt(occupant)` (only when that ticket is after the value's identity);
  * `Remove` in an object registers the target when `removedAt` is really updated: `ts` after the
    creation ticket and (not registered as removed, or `ts` after the registered `removedAt`);
  * ONLY under `Source.undoRedo` a `Set` first drops the entries of `val.id` and of everything
    below it (`DeregisterElement`); under `remote` and `loc` it does not - on `remote` this is the
    upstream-documented defect;
  * `purge` (= `Root.GarbageCollect`): every entry covered by the version vector is purged from
    its parent object: the key whose winner has the entry's creation ticket is unlinked (Go looks
    the RHT node up BY CREATION TICKET, so a live element restored under the same identity is the
    one that gets unlinked), the heap entries of the identity and of everything below it are
    erased, their registry entries dropped. The repaired tree (hooks/fix-c14-reconcile-parent.patch)
    adds an instance check to `Root.deregisterElement`: a registration is only dropped when it
    belongs to the element being collected. In the redo + GC history the peer's purge therefore
    still UNLINKS the live restored node from its parent object (visible result unchanged) but no
    longer erases its element-map entry. The model holds one heap entry per identity and follows
    this by the flag: when the heap entry under the collected identity is LIVE it is another
    instance (a restored copy) and is kept, otherwise it is erased with everything below it. The
    same check on `gcElementPairMap` inside `DeregisterElement` (the `undoRedo` gate) is not
    followed: `dereg` drops the entries by identity; inside the fragment the registered pair of a
    re-used identity is the instance the element map holds whenever the gate fires on it.

Scope (named gaps, everything else passes through `uexecute` with the registry unchanged):
  * object parents, values that are leaves (primitives, counters, empty containers). For a
    restored value WITH content Go's stale entries point at the old physical parent object while
    the model keeps one heap entry per identity; such histories are outside the fragment;
  * arrays (Add / Move / ArraySet / Remove in an array), text and tree node registries
    (`gcNodePairMap`) are not modelled: registry unchanged, `purge` leaves array parents alone;
  * a value that was captured while already removed (`UVal.removed = true`) carries a removal
    ticket the layer below does not keep; its own registration is omitted;
  * the old `removedAt` of an element is read from the registry (the heap keeps only a flag). An
    LWW loser against a removed occupant is unregistered here exactly as its `removedAt` is nil
    in Go;
  * Go iterates the registry map in random order; the result does not depend on it inside the
    fragment (entries below a purged identity are dropped with it), the model walks the list.
  * `DocSize` accounting is not modelled.
Core only, executable.
-/
import YorkieModel.Model.Undo
namespace Yorkie.Undo.Gc
open Yorkie Yorkie.Crdt Yorkie.Undo

/-- `gcElementPairMap[id] = {parent, elem}` with `elem.RemovedAt()` -/
structure GcEntry where
  id : Ticket
  parent : Ticket
  removedAt : Ticket
deriving DecidableEq, Repr

abbrev Reg := List GcEntry

def regFind (g : Reg) (t : Ticket) : Option GcEntry := g.find? (fun e => e.id = t)

/-- map assignment `gcElementPairMap[e.id] = e` -/
def regPut (g : Reg) (e : GcEntry) : Reg := g.filter (fun x => !(x.id = e.id)) ++ [e]

def gcFuel : Nat := 64

/-- `t` is `anc` or lies below it (parent chain of the heap) -/
def under (d : Doc) (anc : Ticket) : Nat → Ticket → Bool
  | 0, t => t = anc
  | f + 1, t => t = anc ||
    match d t with
    | some e =>
      match e.parent with
      | some p => under d anc f p
      | none => false
    | none => false

/-- `Root.DeregisterElement(registered)` restricted to the GC registry: the element and its
    descendants lose their entries -/
def dereg (d : Doc) (g : Reg) (id : Ticket) : Reg := g.filter (fun e => !(under d id gcFuel e.id))

def isLive (d : Doc) (t : Ticket) : Bool :=
  match d t with
  | some e => !e.removed
  | none => false

/-- registry effect of `Set.Execute` on the pre-state `d` -/
def regSet (d : Doc) (src : Source) (g : Reg) (p : Ticket) (k : String) (v : UVal) (ts : Ticket) : Reg :=
  let g1 := if src = .undoRedo then dereg d g v.id else g
  match d p with
  | some pe =>
    match pe.body with
    | .obj _ member =>
      match member k with
      | none => g1
      | some m =>
        if ts.after m.positionedAt then
          -- `node.Remove(executedAt)` on a live occupant
          if isLive d m.child && ts.after m.child then regPut g1 ⟨m.child, p, ts⟩ else g1
        else
          -- `v.Remove(PositionedAt(node.elem))`, then `value.RemovedAt() != nil`
          if isLive d m.child && m.positionedAt.after v.id then regPut g1 ⟨v.id, p, m.positionedAt⟩ else g1
    | _ => g1
  | none => g1

/-- registry effect of `Remove.Execute` (object parent) on the pre-state `d` -/
def regRemove (d : Doc) (g : Reg) (p target ts : Ticket) : Reg :=
  match d p with
  | some pe =>
    match pe.body with
    | .obj _ _ =>
      let newer := match regFind g target with
        | some e => ts.after e.removedAt
        | none => true
      if ts.after target && newer then regPut g ⟨target, p, ts⟩ else g
    | _ => g
  | none => g

/-- registry after `op` executed successfully on the pre-state `d` -/
def gstep (d : Doc) (src : Source) (g : Reg) : UOp → Reg
  | .set p k v ts => regSet d src g p k v ts
  | .remove p target ts => regRemove d g p target ts
  | _ => g

/-- document with its registry -/
structure GDoc where
  doc : Doc := Doc.init
  gc : Reg := []

/-- `Operation.Execute` with registry maintenance; the document part is `uexecute` -/
def gexecute (s : GDoc) (tw : Ticket → Bool) (src : Source) (op : UOp) : Except UErr (GDoc × Option UOp) :=
  (uexecute s.doc tw src op).map (fun r => ({ doc := r.1, gc := gstep s.doc src s.gc op }, r.2))

/-- `runOps` threading the registry (same skip / abort behaviour) -/
def grunOps (src : Source) : Run × Reg → List UOp → Run × Reg
  | rg, [] => rg
  | (r, g), op :: rest =>
    match uexecute r.doc (twOf fixReconcileParent r.tw) src op with
    | .ok (d', rev) =>
      grunOps src ({ r with doc := d', tw := addTwins r.tw (twinIds op),
                            revs := r.revs ++ rev.toList, executed := r.executed ++ [op] },
                   gstep r.doc src g op) rest
    | .error .skipped => grunOps src (r, g) rest
    | .error (.err _) => ({ r with failed := true }, g)

/-! ### purge -/

/-- `ElementRHT.purge`: the node found by creation ticket is unlinked from `nodeMapByKey` when it
    is the key's current node -/
def unlink (d : Doc) (parent id : Ticket) : Doc :=
  match d parent with
  | some pe =>
    match pe.body with
    | .obj keys member =>
      let keys' := keys.filter (fun k => !(memberChild member k == some id))
      let member' : String → Option Member :=
        fun k => if memberChild member k == some id then none else member k
      d.set parent { pe with body := Body.obj keys' member' }
    | _ => d
  | none => d

/-- `deregisterElement`: `elementMap` loses the identity and everything below it - unless the
    entry under that identity is another (live, restored) instance (the repaired instance check) -/
def erase (d : Doc) (id : Ticket) : Doc :=
  if isLive d id then d else fun t => if under d id gcFuel t then none else d t

def purgeOne (s : GDoc) (e : GcEntry) : GDoc :=
  if s.gc.contains e then
    { doc := erase (unlink s.doc e.parent e.id) e.id,
      gc := s.gc.filter (fun x => !(under s.doc e.id gcFuel x.id)) }
  else s   -- dropped together with a purged ancestor

/-- `Root.GarbageCollect(vector)` -/
def purge (s : GDoc) (vv : VV) : GDoc :=
  (s.gc.filter (fun e => vv.equalToOrAfter e.removedAt)).foldl purgeOne s

/-! ### history with registry -/

structure GHist where
  h : Hist := {}
  gc : Reg := []

/-- `Document.Update` -/
def gdoChange (g : GHist) (ops : List UOp) : GHist :=
  { h := doChange g.h ops,
    gc := (grunOps .loc ({ doc := g.h.doc, tw := g.h.tw }, g.gc) ops).2 }

/-- `executeUndoRedo`: only an appended change touched the root -/
def gundoRedo (g : GHist) (isUndo : Bool) : GHist × Outcome :=
  match undoRedo g.h isUndo with
  | (h', .change ops) =>
    ({ h := h', gc := (grunOps .undoRedo ({ doc := g.h.doc, tw := g.h.tw }, g.gc) ops).2 }, .change ops)
  | (h', out) => ({ h := h', gc := g.gc }, out)

def gundo (g : GHist) : GHist := (gundoRedo g true).1
def gredo (g : GHist) : GHist := (gundoRedo g false).1

/-- `ApplyChanges` with `OpSourceRemote` -/
def gapplyRemote (g : GHist) (changeLamport : Int) (ops : List UOp) : GHist :=
  { h := applyRemote g.h changeLamport ops,
    gc := (grunOps .remote ({ doc := g.h.doc, tw := g.h.tw }, g.gc) ops).2 }

/-- `Document.GarbageCollect(vector)` -/
def gpurge (g : GHist) (vv : VV) : GHist :=
  let s := purge { doc := g.h.doc, gc := g.gc } vv
  { h := { g.h with doc := s.doc }, gc := s.gc }

def gvisible (g : GHist) : String := visible g.h

end Yorkie.Undo.Gc
