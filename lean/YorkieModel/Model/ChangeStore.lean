/-
Model of `server/backend/database/mongo/changestore.go` (core Lean only).

`ChangeStore` = a list of fetched ranges + a B-tree of `*ChangeInfo` keyed by
`ServerSeq`.  The B-tree is modelled by its in-order item list (strictly increasing
`seq`); `ReplaceOrInsert` / `Delete` / `AscendGreaterOrEqual` are the list versions of
the same operations.  Every method is mirrored line by line, comparisons included:

  Go                                         model
  ---------------------------------------    -------------------------------
  EnsureChanges(from,to,fetcher)             `ensure`
  ExpandRange(r)                             `expandRange`
  ChangesInRange(from,to)                    `changesInRange`
  RemoveChangesByActor(actor)                `removeByActor`
  ReplaceOrInsert(changes)                   `replaceOrInsert`
  calcMissingRanges(from,to)                 `calcMissing`  (`found` = seqMap, `scan` = final loop)
  mergeAdjacentRanges(ranges)                `mergeAdjacent` (`sortLo` = sort.Slice, `mergeLoop`)

Not modelled: int64 (sequence numbers are unbounded `Nat`; negative numbers and the
overflow of `current.To+1` at MaxInt64 are outside the model), the RWMutex, pointer
identity of `*ChangeInfo` (a row is the value `Change`; `tag` stands for every field the
store never looks at).
-/
namespace Yorkie.CS

/-- `ChangeInfo.PresenceChange`: nil pointer / Put / Clear -/
inductive Pres
  | none | put | clear
  deriving DecidableEq, Repr, Inhabited

/-- the part of `database.ChangeInfo` the store can observe, plus an opaque payload tag -/
structure Change where
  seq : Nat
  actor : Nat
  pres : Pres
  tag : Nat
  deriving DecidableEq, Repr, Inhabited

/-- `ChangeRange{From, To}` -/
structure Range where
  lo : Nat
  hi : Nat
  deriving DecidableEq, Repr, Inhabited

structure Store where
  ranges : List Range := []
  tree : List Change := []
  deriving Repr, Inhabited

/-- `NewChangeStore()` -/
def Store.new : Store := {}

/-! ### B-tree (in-order list, less = `a.ServerSeq < b.ServerSeq`) -/

/-- `tree.ReplaceOrInsert(c)`: an item that is neither less nor greater is replaced -/
def treeInsert (c : Change) : List Change → List Change
  | [] => [c]
  | x :: xs =>
    if c.seq < x.seq then c :: x :: xs
    else if x.seq < c.seq then x :: treeInsert c xs
    else c :: xs

def treeInsertAll (t : List Change) (cs : List Change) : List Change :=
  cs.foldl (fun t c => treeInsert c t) t

/-- `tree.Delete(c)`: removes the item equal to `c` under the order (same `seq`) -/
def treeDelete (c : Change) : List Change → List Change
  | [] => []
  | x :: xs =>
    if c.seq < x.seq then x :: xs
    else if x.seq < c.seq then x :: treeDelete c xs
    else xs

/-- `AscendGreaterOrEqual({ServerSeq: lo}, f)` where `f` returns false at the first
    item with `ServerSeq > hi`: the items visited before the stop -/
def ascendRange (t : List Change) (lo hi : Nat) : List Change :=
  (t.dropWhile (fun c => c.seq < lo)).takeWhile (fun c => c.seq ≤ hi)

/-! ### mergeAdjacentRanges -/

/-- insertion into a list sorted by `From` (stable) -/
def insertLo (r : Range) : List Range → List Range
  | [] => [r]
  | x :: xs => if r.lo ≤ x.lo then r :: x :: xs else x :: insertLo r xs

/-- `sort.Slice(ranges, From <)`.  Go's sort is not stable; for ranges with `From ≤ To`
    the result of the merge loop does not depend on the order of equal `From`s. -/
def sortLo (rs : List Range) : List Range := rs.foldr insertLo []

/-- the loop of `mergeAdjacentRanges` with `current = cur` over the remaining slice -/
def mergeLoop (cur : Range) : List Range → List Range
  | [] => [cur]
  | r :: rs =>
    if r.lo ≤ cur.hi + 1 then mergeLoop { cur with hi := max cur.hi r.hi } rs
    else cur :: mergeLoop r rs

def mergeAdjacent (rs : List Range) : List Range :=
  if rs.length ≤ 1 then rs
  else match sortLo rs with
    | [] => []
    | c :: rest => mergeLoop c rest

/-! ### ChangesInRange / ReplaceOrInsert / ExpandRange / RemoveChangesByActor -/

def changesInRange (s : Store) (lo hi : Nat) : List Change :=
  if lo > hi then []
  else if s.tree.length = 0 then []
  else ascendRange s.tree lo hi

def replaceOrInsert (s : Store) (cs : List Change) : Store :=
  { s with tree := treeInsertAll s.tree cs }

def expandRange (s : Store) (r : Range) : Store :=
  if r.lo > r.hi then s
  else { s with ranges := mergeAdjacent (s.ranges ++ [r]) }

/-- the filter of `RemoveChangesByActor`'s `Ascend` callback -/
def removable (a : Nat) (c : Change) : Bool := c.actor == a && c.pres != Pres.clear

/-- `item.PresenceChange.IsClear()` dereferences a nil `PresenceChange`: the call
    panics (during the collecting `Ascend`, i.e. before anything is deleted) when an item
    of that actor has no presence change. -/
def removePanics (a : Nat) (t : List Change) : Bool :=
  t.any (fun c => c.actor == a && c.pres == Pres.none)

/-- `none` = the Go call panics (store unchanged, the deferred Unlock runs) -/
def removeByActor (s : Store) (a : Nat) : Option Store :=
  if removePanics a s.tree then none
  else some { s with tree := (s.tree.filter (removable a)).foldl (fun t c => treeDelete c t) s.tree }

/-! ### calcMissingRanges -/

/-- `seqMap[seq]` after both marking passes, for `lo ≤ seq ≤ hi` -/
def found (s : Store) (lo hi : Nat) (q : Nat) : Bool :=
  ((ascendRange s.tree lo hi).any (fun c => c.seq == q)) ||
  s.ranges.any (fun fr =>
    !(fr.hi < lo || fr.lo > hi) && (max fr.lo lo ≤ q && q ≤ min fr.hi hi))

/-- the "find contiguous missing ranges" loop over `q, q+1, …, q+n-1`;
    `cur = some start` ⇔ `inRange` with `startMissing = start` -/
def scan (fnd : Nat → Bool) (hi : Nat) : Nat → Nat → Option Nat → List Range
  | 0, _, none => []
  | 0, _, some st => [⟨st, hi⟩]
  | n + 1, q, cur =>
    if !fnd q then
      match cur with
      | none => scan fnd hi n (q + 1) (some q)
      | some st => scan fnd hi n (q + 1) (some st)
    else
      match cur with
      | some st => ⟨st, q - 1⟩ :: scan fnd hi n (q + 1) none
      | none => scan fnd hi n (q + 1) none

def calcMissing (s : Store) (lo hi : Nat) : List Range :=
  if s.tree.length = 0 ∧ s.ranges.length = 0 then [⟨lo, hi⟩]
  else
    let m := scan (found s lo hi) hi (hi + 1 - lo) lo none
    if m.length > 1 then mergeAdjacent m else m

/-! ### EnsureChanges -/

structure EnsureResult where
  store : Store
  /-- the ranges the fetcher was called with, in call order -/
  calls : List Range
  /-- `err == nil` -/
  ok : Bool
  deriving Repr, Inhabited

/-- step 2–4 of `EnsureChanges` for one missing range whose fetch succeeded -/
def ensureStep (fetch : Nat → Nat → List Change) (s : Store) (r : Range) : Store :=
  { tree := treeInsertAll s.tree (fetch r.lo r.hi),
    ranges := mergeAdjacent (s.ranges ++ [r]) }

/-- the loop over `missingRanges`; the fetcher succeeds `okCalls` times and then
    returns an error (a fetcher that never fails: `okCalls ≥ missing.length`) -/
def ensureLoop (fetch : Nat → Nat → List Change) (s : Store) : List Range → Nat → EnsureResult
  | [], _ => ⟨s, [], true⟩
  | r :: _, 0 => ⟨s, [r], false⟩
  | r :: rs, k + 1 =>
    let res := ensureLoop fetch (ensureStep fetch s r) rs k
    { res with calls := r :: res.calls }

def ensure (fetch : Nat → Nat → List Change) (s : Store) (lo hi : Nat) (okCalls : Nat) : EnsureResult :=
  if lo > hi then ⟨s, [], false⟩
  else ensureLoop fetch s (calcMissing s lo hi) okCalls

/-! ### ground truth -/

/-- The underlying store (MongoDB `changes` collection of one document): a partial map
    from server sequence to row; `none` = hole (presence-only change kept elsewhere,
    or no change). -/
abbrev Truth := Nat → Option Change

/-- `Find({server_seq: {$gte: lo, $lte: hi}}).Sort(server_seq)` -/
def Truth.fetch (t : Truth) (lo hi : Nat) : List Change :=
  (List.range' lo (hi + 1 - lo)).filterMap t

end Yorkie.CS
