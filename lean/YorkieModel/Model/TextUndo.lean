/-
L4 (undo/redo layer) for Text: the reverse operation of a text edit / style, its execution
(identity-preserving restore / retombstone on the block list) and the history machine of a document
holding ONE text. Core Lean only; built on Model/Text.lean (unchanged).

Go anchors:
  pkg/document/operations/edit.go   `Edit.Execute` (three paths: span reverse, refined no-op reverse,
                                     ordinary edit), `toReverseOperation`, `flipRestoreMode`,
                                     `validateRestoreIdentities`, `ReconcileOperation`
  pkg/document/operations/style.go  `Style.Execute`, `toReverseOperation`
  pkg/document/crdt/text.go         `Text.Edit` (removedSpans), `Text.Restore`, `Text.Retombstone`,
                                     `Text.Style` / `RemoveStyle` (prevAttrs of the FIRST styled node)
  pkg/document/crdt/rga_tree_split.go `restore`, `retombstone`, `findPiecesOverlapping`, `isolateRange`,
                                     `normalizePos`, `refinePos`
  pkg/document/history.go           `PushUndo/PopUndo/PushRedo/PopRedo/ClearRedo`, `ReconcileTextEdit`
  pkg/document/document.go          `Update` (push reverse, clear redo when observable),
                                     `executeUndoRedo` (pop, re-ticket, run on clone and root, push the
                                     reverse on the opposite stack, append the change only when observable)

What a reverse of an edit records (faithful to `toReverseOperation`):
  * `restoreSpans`  – one span per node the edit turned from live to tombstoned: the node's
                      `createdAt`, `[offset, offset+len)`, its content and live attributes;
  * `retombstoneSpans` – the inserted run: `(executedAt, [0, len UTF-16 units of content))`;
  * `from = to = normalizePos(from)` (offset from the head over live lengths; only read by the
    fallback anchor of a purged run and by the no-op reverse);
  * an edit that inserted and removed nothing gets an ordinary empty Edit with `isUndoOp`.
Spans are addressed by IDENTITY (`createdAt`, offsets inside that insertion), so they survive splits.

Modelling decisions (trusted base, tied by engine `textundo`):
  * `findPiecesOverlapping` (a probe loop over the LLRB `Floor`) is used through its specification:
    the restore / retombstone loops ask for "the piece of that insertion covering the cursor"
    (`covering`); under `WF` (pieces of one insertion are disjoint) that is the piece the Go loops
    look at;
  * a region of a span that no piece covers exists only after GC purged it (`recreate` path of
    `restore`, `findRestoreAnchor`): NOT modelled, the loops answer `unsupported` there (unreachable
    without GC: proved for tiled spans in Lemmas/TextUndoRestore.lean);
  * Go collects the removed nodes in a map, so the ORDER of `restoreSpans` is unspecified; the model
    lists them in document order (restoring tiled spans is order-independent);
  * presence entries of the stacks, GC registration and `DataSize` bookkeeping are not modelled;
  * `ReconcileTextEdit` is only called from `applyChanges` (REMOTE changes); C14's premise excludes
    them, the function is modelled (`reconcile`) but not exercised by the history machine.
-/
import YorkieModel.Model.Text
import YorkieModel.Generated.Consts
namespace Yorkie.TextUndo
open Yorkie Yorkie.Text

/-- `crdt.RestoreSpan` -/
structure Span where
  ca : Ticket
  start : Nat
  stop : Nat
  /-- `Content` as UTF-16 units and `Attributes` (sorted by key); only read when a purged region is
      recreated, which the model does not do -/
  content : List Nat := []
  attrs : List (String × String) := []
deriving DecidableEq, Repr

inductive RMode | restore | retombstone
deriving DecidableEq, Repr

/-- `flipRestoreMode` -/
def RMode.flip : RMode → RMode
  | .retombstone => .restore
  | .restore => .retombstone

/-- a stacked reverse operation (`isUndoOp` is true for all of them) -/
inductive TRev
  /-- identity-preserving reverse Edit -/
  | spans (fr : Pos) (restore : List Span) (mode : RMode) (retomb : List Span)
  /-- ordinary Edit with empty content (reverse of an edit that did nothing) -/
  | noop (fr to : Pos)
  /-- reverse Style: attributes to set and keys to remove -/
  | style (fr to : Pos) (attrs : List (String × String)) (keys : List String)
deriving DecidableEq, Repr

/-- forward operations of the json layer -/
inductive TOp
  | edit (fr to : Pos) (content : List Nat) (attrs : List (String × String))
  | style (fr to : Pos) (attrs : List (String × String))
deriving DecidableEq, Repr

/-! ### pieces of an insertion -/

def covers (ca : Ticket) (c : Nat) (n : TNode) : Bool :=
  n.id.1 = ca && decide (n.id.2 ≤ c) && decide (c < n.id.2 + n.len)

/-- the piece of insertion `ca` whose range contains offset `c` -/
def covering (s : TextSt) (ca : Ticket) (c : Nat) : Option TNode := s.find? (covers ca c)

def setRemoved (i : Id) (r : Option Ticket) (n : TNode) : TNode :=
  if n.id = i then { n with removedAt := r } else n

/-- `isolateRange(piece, from, to)`: split so that a node covering exactly `[from, to)` exists;
    returns its id. Requires `piece.offset ≤ from < to ≤ piece.offset + piece.len`. -/
def isolate (s : TextSt) (piece : TNode) (fr to : Nat) : TextSt × Id :=
  let s1 := if piece.id.2 < fr then splitNode s piece (fr - piece.id.2) else s
  let nid : Id := if piece.id.2 < fr then (piece.id.1, fr) else piece.id
  match findById s1 nid with
  | none => (s1, nid)
  | some node => (if to < node.id.2 + node.len then splitNode s1 node (to - node.id.2) else s1, nid)

/-- `restore` for one span: walk the cursor over the pieces; tombstoned → isolate and clear
    `removedAt`; live → skip; no piece → purged region (not modelled). The flag says whether a
    node was un-tombstoned. Fuel `stop - start` suffices (every step advances the cursor). -/
def restoreLoop (sp : Span) : Nat → Nat → TextSt → Bool → Except Err (TextSt × Bool)
  | 0, _, s, ch => .ok (s, ch)
  | fuel + 1, cur, s, ch =>
    if sp.stop ≤ cur then .ok (s, ch) else
    match covering s sp.ca cur with
    | none => .error .unsupported
    | some piece =>
      let e := min (piece.id.2 + piece.len) sp.stop
      if piece.live then restoreLoop sp fuel e s ch
      else
        let r := isolate s piece cur e
        restoreLoop sp fuel e (r.1.map (setRemoved r.2 none)) true

def restoreSpan (sp : Span) (s : TextSt) (ch : Bool) : Except Err (TextSt × Bool) :=
  restoreLoop sp (sp.stop - sp.start) sp.start s ch

/-- `retombstone` for one span: every LIVE piece overlapping the span is isolated and tombstoned
    at `ts`; removed pieces are skipped -/
def retombLoop (ts : Ticket) (sp : Span) : Nat → Nat → TextSt → Bool → Except Err (TextSt × Bool)
  | 0, _, s, ch => .ok (s, ch)
  | fuel + 1, cur, s, ch =>
    if sp.stop ≤ cur then .ok (s, ch) else
    match covering s sp.ca cur with
    | none => .error .unsupported
    | some piece =>
      let e := min (piece.id.2 + piece.len) sp.stop
      if piece.live then
        let r := isolate s piece cur e
        retombLoop ts sp fuel e (r.1.map (setRemoved r.2 (some ts))) true
      else retombLoop ts sp fuel e s ch

def retombSpan (ts : Ticket) (sp : Span) (s : TextSt) (ch : Bool) : Except Err (TextSt × Bool) :=
  retombLoop ts sp (sp.stop - sp.start) sp.start s ch

def restoreAll : List Span → TextSt → Bool → Except Err (TextSt × Bool)
  | [], s, ch => .ok (s, ch)
  | sp :: r, s, ch =>
    match restoreSpan sp s ch with
    | .error e => .error e
    | .ok (s1, ch1) => restoreAll r s1 ch1

def retombAll (ts : Ticket) : List Span → TextSt → Bool → Except Err (TextSt × Bool)
  | [], s, ch => .ok (s, ch)
  | sp :: r, s, ch =>
    match retombSpan ts sp s ch with
    | .error e => .error e
    | .ok (s1, ch1) => retombAll ts r s1 ch1

/-- `validateRestoreIdentities`: with a non-empty vector every span identity must be covered by it
    (`ErrUnknownRestoreIdentity`, printed as `err`) -/
def validSpans (vv : Option VV) (spans : List Span) : Bool :=
  match vv with
  | none => true
  | some v => v.isEmpty || spans.all (fun sp => v.equalToOrAfter sp.ca)

/-- result of executing one operation: new state, reverse operation (if any), `Observable` -/
structure Res where
  st : TextSt
  rev : Option TRev
  observable : Bool

/-- `Edit.Execute`, identity-preserving path: re-remove first, then revive; the reverse keeps both
    span sets and flips the direction -/
def execSpans (fr : Pos) (restore : List Span) (mode : RMode) (retomb : List Span) (ts : Ticket)
    (vv : Option VV) (s : TextSt) : Except Err Res :=
  if !(validSpans vv restore && validSpans vv retomb) then .error .notFound else
  let toRestore := match mode with | .restore => restore | .retombstone => retomb
  let toRetomb := match mode with | .restore => retomb | .retombstone => restore
  match retombAll ts toRetomb s false with
  | .error e => .error e
  | .ok (s1, c1) =>
    match restoreAll toRestore s1 c1 with
    | .error e => .error e
    | .ok (s2, c2) => .ok ⟨s2, some (.spans fr restore mode.flip retomb), c2⟩

/-! ### positions of a reverse -/

/-- sum of the live lengths of the nodes before the node with id `i` -/
def prefixLive : TextSt → Id → Nat
  | [], _ => 0
  | n :: r, i => if n.id = i then 0 else n.liveLen + prefixLive r i

/-- `normalizePos`: absolute live offset from the initial head -/
def normalizePos (s : TextSt) (p : Pos) : Option Pos :=
  match findFloor s p.id, s with
  | some node, h :: _ => some ⟨h.id, p.rel + prefixLive s node.id⟩
  | _, _ => none

def refineGo : List TNode → TNode → Nat → Nat → Pos
  | [], node, partLen, off => if off > partLen then ⟨node.id, partLen⟩ else ⟨node.id, off⟩
  | nx :: r, node, partLen, off =>
    if off > partLen then refineGo r nx nx.liveLen (off - partLen) else ⟨node.id, off⟩

/-- `refinePos`: remap an offset onto the current chain, counting live units only (the first node
    with its content length) -/
def refinePos (s : TextSt) (p : Pos) : Option Pos :=
  match findFloor s p.id with
  | none => none
  | some node =>
    match locate s node.id with
    | none => none
    | some (n, rest) => some (refineGo rest n n.len p.rel)

/-! ### forward edit with its reverse -/

/-- `RHT.Elements()` as a key-sorted list -/
def liveAttrList (as : List AttrNode) : List (String × String) :=
  (liveAttrs as).map (fun a => (a.key, a.val))

def spanOf (n : TNode) : Span :=
  { ca := n.id.1, start := n.id.2, stop := n.id.2 + n.len, content := n.units, attrs := liveAttrList n.attrs }

/-- the nodes `deleteNodes` turns from live to tombstoned (`Remove` returned true), as spans -/
def removedSpans (fr to : Pos) (ts : Ticket) (vv : Option VV) (s : TextSt) : List Span :=
  match findNodeWithSplit s to ts with
  | .error _ => []
  | .ok (s1, _, toRight) =>
    match findNodeWithSplit s1 fr ts with
    | .error _ => []
    | .ok (s2, _, fromRight) =>
      let cand := between s2 fromRight toRight
      (List.filter (fun n => cand.contains n.id && known vv n.id.1 && n.live) s2).map spanOf

/-- `toReverseOperation` -/
def reverseOfEdit (fromPos : Pos) (removed : List Span) (content : List Nat) (ts : Ticket) : TRev :=
  if !removed.isEmpty || !content.isEmpty then
    .spans fromPos removed .restore
      (if content.isEmpty then [] else [{ ca := ts, start := 0, stop := content.length, content := content }])
  else .noop fromPos ⟨fromPos.id, fromPos.rel + content.length⟩

/-- `Edit.Execute`, ordinary path (source needs a reverse) -/
def execEdit (fr to : Pos) (content : List Nat) (attrs : List (String × String)) (ts : Ticket)
    (vv : Option VV) (s : TextSt) : Except Err Res :=
  match edit fr to content attrs ts vv s with
  | .error e => .error e
  | .ok s' =>
    let removed := removedSpans fr to ts vv s
    match normalizePos s' fr with
    | none => .error .notFound
    | some fromPos =>
      .ok ⟨s', some (reverseOfEdit fromPos removed content ts), !content.isEmpty || !removed.isEmpty⟩

/-- `Edit.Execute`, `isUndoOp` without spans: refine both positions, then the ordinary path -/
def execNoop (fr to : Pos) (ts : Ticket) (vv : Option VV) (s : TextSt) : Except Err Res :=
  match refinePos s fr, refinePos s to with
  | some f, some t => execEdit f t [] [] ts vv s
  | _, _ => .error .notFound

/-! ### style with its reverse -/

/-- attribute register of the first node the styling loop touches (after the two splits) -/
def firstStyled (fr to : Pos) (ts : Ticket) (vv : Option VV) (s : TextSt) : Option (List AttrNode) :=
  match findNodeWithSplit s to ts with
  | .error _ => none
  | .ok (s1, _, toRight) =>
    match findNodeWithSplit s1 fr ts with
    | .error _ => none
    | .ok (s2, _, fromRight) =>
      let cand := between s2 fromRight toRight
      (s2.find? (fun n => cand.contains n.id && canStyle ts vv n)).map (·.attrs)

/-- `RHT.Has` -/
def attrHas (as : List AttrNode) (k : String) : Bool :=
  match attrGet as k with
  | some a => !a.removed
  | none => false

/-- `RHT.Get` -/
def attrVal (as : List AttrNode) (k : String) : String :=
  match attrGet as k with
  | some a => if a.removed then "" else a.val
  | none => ""

def insertKey (k : String) : List String → List String
  | [] => [k]
  | b :: r => if k < b then k :: b :: r else b :: insertKey k r

/-- `sort.Strings` -/
def sortKeys (ks : List String) : List String := ks.foldr insertKey []

/-- Go map assignment `m[k] = v` on a key-sorted association list -/
def mapPut (m : List (String × String)) (k v : String) : List (String × String) :=
  match m with
  | [] => [(k, v)]
  | (k', v') :: r => if k = k' then (k, v) :: r else if k < k' then (k, v) :: (k', v') :: r else (k', v') :: mapPut r k v

/-- `Style.Execute`: removal first, then setting; the reverse restores what the FIRST styled node
    held (`reversePrevAttributes`) and removes the keys it did not have (`reverseAttrsToRemove`) -/
def execStyle (fr to : Pos) (attrs : List (String × String)) (keys : List String) (ts : Ticket)
    (vv : Option VV) (s : TextSt) : Except Err Res :=
  -- 01 attributesToRemove
  let r1 : Except Err (TextSt × List (String × String)) :=
    if keys.isEmpty then .ok (s, []) else
    match removeStyle fr to keys ts vv s with
    | .error e => .error e
    | .ok s1 =>
      let prev := match firstStyled fr to ts vv s with
        | none => []
        | some as => (List.filter (attrHas as) (sortKeys keys)).foldl (fun m k => mapPut m k (attrVal as k)) []
      .ok (s1, prev)
  match r1 with
  | .error e => .error e
  | .ok (s1, prev1) =>
    -- 02 attributes
    let r2 : Except Err (TextSt × List (String × String) × List String) :=
      if attrs.isEmpty then .ok (s1, prev1, []) else
      match style fr to attrs ts vv s1 with
      | .error e => .error e
      | .ok s2 =>
        match firstStyled fr to ts vv s1 with
        | none => .ok (s2, prev1, [])
        | some as =>
          let ks := sortKeys (attrs.map (·.1))
          .ok (s2, (List.filter (attrHas as) ks).foldl (fun m k => mapPut m k (attrVal as k)) prev1,
               List.filter (fun k => !attrHas as k) ks)
    match r2 with
    | .error e => .error e
    | .ok (s2, prev, rem) =>
      let rev := if prev.isEmpty && rem.isEmpty then none else some (TRev.style fr to prev rem)
      .ok ⟨s2, rev, true⟩

/-! ### one operation, one change -/

def execFwd (op : TOp) (ts : Ticket) (vv : Option VV) (s : TextSt) : Except Err Res :=
  match op with
  | .edit fr to content attrs => execEdit fr to content attrs ts vv s
  | .style fr to attrs => execStyle fr to attrs [] ts vv s

def execRev (op : TRev) (ts : Ticket) (vv : Option VV) (s : TextSt) : Except Err Res :=
  match op with
  | .spans fr restore mode retomb => execSpans fr restore mode retomb ts vv s
  | .noop fr to => execNoop fr to ts vv s
  | .style fr to attrs keys => execStyle fr to attrs keys ts vv s

/-- result of `Change.Execute`: reverses are collected in execution order and reversed once -/
structure Run where
  st : TextSt
  revs : List TRev := []
  observable : Bool := false
  failed : Bool := false

def consRev (o : Option TRev) (l : List TRev) : List TRev :=
  match o with
  | some x => x :: l
  | none => l

def runWith {α} (exec : α → Ticket → Option VV → TextSt → Except Err Res) (lamport : Int)
    (actor : Actor) (vv : Option VV) : Nat → List α → Run → Run
  | _, [], r => r
  | i, op :: rest, r =>
    if r.failed then r else
    match exec op ⟨lamport, i, actor⟩ vv r.st with
    | .error _ => { r with failed := true }
    | .ok res =>
      runWith exec lamport actor vv (i + 1) rest
        { st := res.st, observable := r.observable || res.observable, revs := consRev res.rev r.revs }

/-! ### history machine -/

def maxDepth : Nat := Generated.Consts.maxUndoRedoStackDepth

/-- head = most recent entry -/
structure THist where
  st : TextSt := Text.init
  undo : List (List TRev) := []
  redo : List (List TRev) := []
  /-- lamport of `d.doc.changeID` -/
  lamport : Int := 0
  actor : Actor := 0

/-- `PushUndo` / `PushRedo`: drop the oldest entry when full -/
def push (stack : List (List TRev)) (e : List TRev) : List (List TRev) :=
  if stack.length ≥ maxDepth then e :: stack.dropLast else e :: stack

/-- version vector of the next local change of a replica that never applied a remote change -/
def THist.nextVV (h : THist) : Option VV := some [(h.actor, h.lamport + 1)]

/-- `Document.Update` with the operations the json layer produced (tickets `(lamport+1, i, actor)`,
    `i = first, first+1, …` in call order) -/
def doChangeFrom (h : THist) (first : Nat) (ops : List TOp) : THist × Bool :=
  let r := runWith execFwd (h.lamport + 1) h.actor h.nextVV first ops { st := h.st }
  if r.failed then ({ h with st := r.st }, false) else
  ({ h with st := r.st,
            undo := if r.revs.isEmpty then h.undo else push h.undo r.revs,
            redo := if r.observable then [] else h.redo,
            lamport := h.lamport + 1 }, true)

def doChange (h : THist) (ops : List TOp) : THist × Bool := doChangeFrom h 1 ops

inductive Outcome
  /-- empty stack: nothing happened -/
  | nothing
  /-- the entry ran but nothing was observable: no change is appended, the clock does not move -/
  | noop (ops : List TRev)
  /-- the change that was appended -/
  | change (ops : List TRev)
  /-- `Undo()`/`Redo()` returned an error -/
  | failed (ops : List TRev)

/-- `executeUndoRedo(isUndo)` -/
def undoRedo (h : THist) (isUndo : Bool) : THist × Outcome :=
  match (if isUndo then h.undo else h.redo) with
  | [] => (h, .nothing)
  | entry :: restStack =>
    let h0 : THist := if isUndo then { h with undo := restStack } else { h with redo := restStack }
    if entry.isEmpty then (h0, .nothing) else
    let r := runWith execRev (h.lamport + 1) h.actor h.nextVV 1 entry { st := h.st }
    -- the change runs on the clone first: an error returns before the root is touched
    if r.failed then (h0, .failed entry) else
    let h1 : THist :=
      if r.revs.isEmpty then h0
      else if isUndo then { h0 with redo := push h0.redo r.revs }
      else { h0 with undo := push h0.undo r.revs }
    if r.observable then ({ h1 with st := r.st, lamport := h.lamport + 1 }, .change entry)
    else ({ h1 with st := r.st }, .noop entry)

def undo (h : THist) : THist := (undoRedo h true).1
def redo (h : THist) : THist := (undoRedo h false).1

/-! ### `ReconcileOperation` (remote edits only; not used by the single-writer machine) -/

def reconcilePos (na nb : Int) (fr to : Pos) : Pos × Pos :=
  (⟨fr.id, (Max.max 0 na).toNat⟩, ⟨to.id, (Max.max 0 nb).toNat⟩)

/-- `Edit.ReconcileOperation(remoteFrom, remoteTo, contentLen)` on the from/to of a reverse Edit -/
def reconcileFT (rf rt cl : Int) (fr to : Pos) : Pos × Pos :=
  if rf > rt then (fr, to) else
  let rl := rt - rf
  let lf : Int := fr.rel
  let lt : Int := to.rel
  if rt ≤ lf then reconcilePos (lf - rl + cl) (lt - rl + cl) fr to
  else if lt ≤ rf then (fr, to)
  else if rf ≤ lf ∧ lt ≤ rt ∧ rf ≠ rt then reconcilePos rf rf fr to
  else if lf ≤ rf ∧ rt ≤ lt ∧ lf ≠ lt then reconcilePos lf (lt - rl + cl) fr to
  else if rf < lf ∧ lf < rt ∧ rt < lt then reconcilePos rf (rf + (lt - rt)) fr to
  else if lf < rf ∧ rf < lt ∧ lt < rt then reconcilePos lf rf fr to
  else (fr, to)

/-- the identity payload (spans) is never touched -/
def reconcile (rf rt cl : Int) : TRev → TRev
  | .spans fr restore mode retomb => .spans (reconcileFT rf rt cl fr fr).1 restore mode retomb
  | .noop fr to => let p := reconcileFT rf rt cl fr to; .noop p.1 p.2
  | .style fr to attrs keys => .style fr to attrs keys

/-- `History.ReconcileTextEdit` -/
def THist.reconcile (h : THist) (rf rt cl : Int) : THist :=
  { h with undo := h.undo.map (·.map (TextUndo.reconcile rf rt cl)),
           redo := h.redo.map (·.map (TextUndo.reconcile rf rt cl)) }

end Yorkie.TextUndo
