/-
YSON (C18): pieces of `Unmarshal` as they were on the pinned tree, kept only so that the
repaired defects stay documented by kernel-evaluated witnesses in `Props/C18.lean`; nothing
else refers to them.  Core Lean only.
* `V0`: the textual pre-pass BEFORE /repo commit 0cf3884e ("leave string literals alone
  when rewriting YSON type constructors") – `prepass_v0_in_string_witness`,
  `dedup_empty_v0_witness`.
* `V0Quote`: `Marshal` BEFORE the JSON-string-literal fix: strings printed with strconv.Quote
  (Go-only escapes `\a \v \xXX \UXXXXXXXX`), object keys printed raw – `go_quote_v0_witness`,
  `key_unescaped_v0_witness`.
* `V0Float`: the tree-level parser BEFORE the UseNumber fix: numbers decoded as float64
  (`int64(raw["value"].(float64))`, exact integer arithmetic: round to nearest even, 53
  bits; out-of-range conversions give the amd64 result) and unchecked type assertions that
  panic – `long_precision_v0_witness`, `type_member_panic_v0_witness`.
-/
import YorkieModel.Model.YsonText
namespace Yorkie.Yson.V0
open Yorkie.Yson

def spanNotQuote : Str → Str × Str
  | [] => ([], [])
  | c :: r => if c == 34 then ([], c :: r) else (c :: (spanNotQuote r).1, (spanNotQuote r).2)

/-- one attempt of `DedupCounter\(Int\((-?\d+)\),"([^"]+)"\)` at the head of `s`:
the two groups and the length of the match -/
def dedupMatch (s : Str) : Option (Str × Str × Nat) :=
  match stripPrefix cp%"DedupCounter(Int(" s with
  | none => none
  | some r1 =>
    let sign := (jSign r1).1
    let ds := (takeDigits (jSign r1).2).1
    let r3 := (takeDigits (jSign r1).2).2
    if ds.isEmpty then none else
    match stripPrefix cp%"),\"" r3 with
    | none => none
    | some r4 =>
      let body := (spanNotQuote r4).1
      if body.isEmpty then none else
      match (spanNotQuote r4).2 with
      | 34 :: 41 :: _ => some (sign ++ ds, body, 17 + sign.length + ds.length + 3 + body.length + 2)
      | _ => none

def dedupReplace : Nat → Str → Str
  | _, [] => []
  | skip + 1, _ :: r => dedupReplace skip r
  | 0, c :: r =>
    match dedupMatch (c :: r) with
    | some (g1, g2, len) =>
      cp%"{\"type\":\"DedupCounter\",\"counterType\":\"Int\",\"value\":" ++ g1 ++ cp%",\"hll\":\"" ++ g2 ++ cp%"\"}"
        ++ dedupReplace (len - 1) r
    | none => c :: dedupReplace 0 r

def replacements : List (Str × Str) := [
  (cp%"Text()", cp%"{\"type\":\"Text\",\"value\":[]}"),
  (cp%"Tree()", cp%"{\"type\":\"Tree\",\"value\":{}}"),
  (cp%"Counter(", cp%"{\"type\":\"Counter\",\"value\":"),
  (cp%"Text(", cp%"{\"type\":\"Text\",\"value\":"),
  (cp%"Tree(", cp%"{\"type\":\"Tree\",\"value\":"),
  (cp%"Int(", cp%"{\"type\":\"Int\",\"value\":"),
  (cp%"Long(", cp%"{\"type\":\"Long\",\"value\":"),
  (cp%"BinData(\"", cp%"{\"type\":\"BinData\",\"value\":\""),
  (cp%"Date(\"", cp%"{\"type\":\"Date\",\"value\":\""),
  (cp%")", cp%"}")
]

/-- the whole text went through one regexp and ten `strings.ReplaceAll`, string
literals included -/
def preprocess (s : Str) : Str := applyReplacements replacements (dedupReplace 0 s)

def parse (wantObj : Bool) (text : Str) : Res Yson :=
  match jsonParse (preprocess text) with
  | none => .err .unmarshalJSON
  | some j => fromJRoot wantObj j

/-- `Unmarshal(v.Marshal())` before the repair -/
def roundTrip (v : Yson) : Res Yson := parse v.isObj (marshal v)

end Yorkie.Yson.V0

namespace Yorkie.Yson.V0Float
open Yorkie.Yson

/-- round a natural to the nearest float64 (53-bit significand, ties to even); the
result is again a natural (no overflow below 2^1024, far above int64) -/
def roundF64 (n : Nat) : Nat :=
  if n < 2 ^ 53 then n else
  let sh := Nat.log2 n - 52
  let q := n >>> sh
  let r := n % 2 ^ sh
  let half := 2 ^ (sh - 1)
  let q' := if r > half || (r == half && q % 2 == 1) then q + 1 else q
  q' <<< sh

/-- Go `int64(f)` on amd64 (CVTTSD2SQ): truncation, out of range ⇒ MinInt64.
`neg`/`m`: sign and integral part of the (already rounded) double. -/
def toI64 (neg : Bool) (m : Nat) : Int :=
  if neg then (if m ≤ 2 ^ 63 then -(m : Int) else -(2 ^ 63 : Int))
  else (if m < 2 ^ 63 then (m : Int) else -(2 ^ 63 : Int))

/-- Go `int32(f)` on amd64 (CVTTSD2SL): truncation, out of range ⇒ MinInt32 -/
def toI32 (neg : Bool) (m : Nat) : Int :=
  if neg then (if m ≤ 2 ^ 31 then -(m : Int) else -(2 ^ 31 : Int))
  else (if m < 2 ^ 31 then (m : Int) else -(2 ^ 31 : Int))

/-- `int64(float64(i))` for an integer literal `i` read by encoding/json -/
def i64OfInt (i : Int) : Int := toI64 (decide (i < 0)) (roundF64 i.natAbs)
def i32OfInt (i : Int) : Int := toI32 (decide (i < 0)) (roundF64 i.natAbs)

/-- parse a JSON number literal into (neg, mantissa, exp10): value = ±mantissa·10^exp10.
Assumes the literal is well formed (it was accepted by the JSON scanner). -/
def decOfText (t : Str) : Bool × Nat × Int :=
  let (neg, t) := match t with
    | 45 :: r => (true, r)
    | _ => (false, t)
  let (ip, t) := takeDigits t
  let (fp, t) := match t with
    | 46 :: r => takeDigits r
    | _ => ([], t)
  let e : Int := match t with
    | c :: r =>
      if c == 101 || c == 69 then
        match r with
        | 43 :: r' => (digitsVal (takeDigits r').1 0 : Int)
        | 45 :: r' => -(digitsVal (takeDigits r').1 0 : Int)
        | _ => (digitsVal (takeDigits r).1 0 : Int)
      else 0
    | [] => 0
  (neg, digitsVal (ip ++ fp) 0, e - fp.length)

/-- integral part of the float64 nearest to p/q (q > 0), round-half-even, with
subnormals; `none` = the double is ±Inf or too large for any integer type. -/
def ratToF64Trunc (p q : Nat) : Option Nat :=
  if p == 0 then some 0 else
  -- first guess of e with 2^52 ≤ p / (q·2^e) < 2^53
  let e0 : Int := (Nat.log2 p : Int) - (Nat.log2 q : Int) - 52
  let scaled (e : Int) : Nat × Nat :=   -- p/(q·2^e) as a fraction
    if e ≥ 0 then (p, q * 2 ^ e.toNat) else (p * 2 ^ (-e).toNat, q)
  let e1 : Int :=
    let (a, b) := scaled e0
    if a / b < 2 ^ 52 then e0 - 1 else if a / b ≥ 2 ^ 53 then e0 + 1 else e0
  let e : Int := if e1 < -1074 then -1074 else e1
  if e > 971 then none else
  let (a, b) := scaled e
  let m0 := a / b
  let r := a % b
  let m := if 2 * r > b || (2 * r == b && m0 % 2 == 1) then m0 + 1 else m0
  if e ≥ 0 then (if e > 80 then none else some (m * 2 ^ e.toNat)) else some (m / 2 ^ (-e).toNat)

def decToF64Trunc (t : Str) : Bool × Option Nat :=
  let (neg, m, e) := decOfText t
  (neg, if e ≥ 0 then (if e > 400 then (if m == 0 then some 0 else none) else ratToF64Trunc (m * 10 ^ e.toNat) 1)
        else (if e < -800 then some 0 else ratToF64Trunc m (10 ^ (-e).toNat)))

def tokToI64 : NumTok → Int
  | .int i => i64OfInt i
  | .other t => match decToF64Trunc t with
    | (neg, some m) => toI64 neg m
    | (_, none) => -(2 ^ 63 : Int)

def tokToI32 : NumTok → Int
  | .int i => i32OfInt i
  | .other t => match decToF64Trunc t with
    | (neg, some m) => toI32 neg m
    | (_, none) => -(2 ^ 31 : Int)

/-- `x.(float64)` without ok: panics -/
def asNum (j : J) : Res NumTok :=
  match j with
  | .num n => .ok n
  | j => .panic j.ty .float64

/-- `x.(string)` without ok: panics -/
def asStr (j : J) : Res Str :=
  match j with
  | .str s => .ok s
  | j => .panic j.ty .string

/-- `attrs[k] = v.(string)` for every member -/
def parseAttrs : List (Str × J) → Res Attrs
  | [] => .ok []
  | (k, v) :: r => (asStr v).bind fun s => (parseAttrs r).bind fun rest => .ok ((k, s) :: rest)

/-- parseCounter -/
def parseCounter (raw : List (Str × J)) : Res Counter :=
  match J.get raw sValue with
  | .obj value =>
    match J.getStr? value sType with
    | some t =>
      if t == sInt then (asNum (J.get value sValue)).bind fun n => .ok (.int (tokToI32 n))
      else if t == sLong then (asNum (J.get value sValue)).bind fun n => .ok (.long (tokToI64 n))
      else .err .counterType
    | none => .err .counterType
  | _ => .err .counterValue

/-- parseDedupCounter -/
def parseDedupCounter (raw : List (Str × J)) : Res Counter :=
  match J.getStr? raw sCounterType with
  | none => .err .dedupType
  | some ct =>
    match J.getStr? raw sHll with
    | none => .err .dedupHll
    | some hll =>
      match b64Decode hll with
      | none => .err .dedupHllInvalid
      | some regs =>
        if ct == sInt then
          match J.get raw sValue with
          | .num n => .ok (.dedup (tokToI32 n) regs)
          | _ => .err .dedupValue
        else .err .dedupType

/-- one element of parseText's loop -/
def parseTextNode (node : J) : Res TextNode :=
  match node with
  | .obj n =>
    match J.getStr? n sVal with
    | none => .err .parseTextValue
    | some val =>
      match J.get n sAttrs with
      | .obj attrs => (parseAttrs attrs).bind fun a => .ok ⟨val, a⟩
      | _ => .ok ⟨val, []⟩
  | j => .panic j.ty .map

def parseText : List J → Res (List TextNode)
  | [] => .ok []
  | x :: r => (parseTextNode x).bind fun n => (parseText r).bind fun ns => .ok (n :: ns)

/-- `raw["attrs"].(map[string]interface{})` then the string assertions -/
def treeAttrsIn (raw : List (Str × J)) : Res Attrs :=
  match J.get raw sAttrs with
  | .obj attrs => parseAttrs attrs
  | _ => .ok []

mutual
/-- parseTreeNode on `child.(map[string]interface{})` -/
def parseTreeNode : J → Res TreeNode
  | .obj raw =>
    let ty := (J.getStr? raw sType).getD sRoot
    let value := (J.getStr? raw sValue).getD []
    (treeAttrsIn raw).bind fun attrs =>
    (treeChildrenIn raw).bind fun children => .ok (.mk ty value attrs children)
  | .null => .panic .nil .map
  | .bool _ => .panic .bool .map
  | .num _ => .panic .float64 .map
  | .str _ => .panic .string .map
  | .arr _ => .panic .slice .map
/-- `raw["children"].([]interface{})` and the loop over it -/
def treeChildrenIn : List (Str × J) → Res (List TreeNode)
  | [] => .ok []
  | (k, v) :: r =>
    if k == sChildren then
      match v with
      | .arr xs => parseTreeList xs
      | _ => .ok []
    else treeChildrenIn r
def parseTreeList : List J → Res (List TreeNode)
  | [] => .ok []
  | x :: r => (parseTreeNode x).bind fun n => (parseTreeList r).bind fun ns => .ok (n :: ns)
end

/-- parseTypedValue (the caller has checked that `raw["type"]` is the string `t`) -/
def parseTypedValue (raw : List (Str × J)) (t : Str) : Res Yson :=
  if t == sInt then (asNum (J.get raw sValue)).bind fun n => .ok (.int (tokToI32 n))
  else if t == sLong then (asNum (J.get raw sValue)).bind fun n => .ok (.long (tokToI64 n))
  else if t == sBinData then
    (asStr (J.get raw sValue)).bind fun s =>
      match b64Decode s with
      | some b => .ok (.bytes b)
      | none => .err .parseBinData
  else if t == sDate then
    (asStr (J.get raw sValue)).bind fun s => if dateValid s then .ok (.date s) else .err .parseDate
  else if t == sCounter then (parseCounter raw).map .counter
  else if t == sDedupCounter then (parseDedupCounter raw).map .counter
  else if t == sTree then
    match J.get raw sValue with
    | .obj v => (parseTreeNode (.obj v)).map .tree
    | _ => .err .parseCounterSic
  else if t == sTextW then
    match J.get raw sValue with
    | .arr v => (parseText v).map .text
    | _ => .err .parseText
  else .err .unsupported

mutual
/-- the `switch v := v.(type)` shared by parseObject and parseArray -/
def parseMember : J → Res Yson
  | .obj kvs =>
    match J.getStr? kvs sType with
    | some t => parseTypedValue kvs t
    | none => (parseObject kvs).map .obj
  | .arr xs => (parseArray xs).map .arr
  | .null => .ok .null
  | .bool b => .ok (.bool b)
  | .num n => .ok (.double (.fin n.text))
  | .str s => .ok (.str s)
def parseObject : List (Str × J) → Res (List (Str × Yson))
  | [] => .ok []
  | (k, v) :: r => (parseMember v).bind fun y => (parseObject r).bind fun ys => .ok ((k, y) :: ys)
def parseArray : List J → Res (List Yson)
  | [] => .ok []
  | x :: r => (parseMember x).bind fun y => (parseArray r).bind fun ys => .ok (y :: ys)
end

/-- the `switch e := elem.(type)` of `Unmarshal` for `*Object` / `*Array` targets:
the target kind is the kind of the value that was marshalled -/
def fromJRoot (wantObj : Bool) (raw : J) : Res Yson :=
  if wantObj then
    match raw with
    | .obj kvs => (parseObject kvs).map .obj
    | _ => .err .unmarshalObject
  else
    match raw with
    | .arr xs => (parseArray xs).map .arr
    | _ => .err .unmarshalArray

def parse (wantObj : Bool) (text : Str) : Res Yson :=
  match jsonParse (preprocess text) with
  | none => .err .unmarshalJSON
  | some j => fromJRoot wantObj j

/-- `Unmarshal(v.Marshal())` with the current pre-pass and the float64 / unchecked parser -/
def roundTrip (v : Yson) : Res Yson := parse v.isObj (marshal v)

end Yorkie.Yson.V0Float

namespace Yorkie.Yson.V0Quote
open Yorkie.Yson

/-- strconv's appendEscapedRune for quote `"` (valid runes only) -/
def quoteChar (c : Nat) : Str :=
  if c == 34 then [92, 34]
  else if c == 92 then [92, 92]
  else if isPrint c then [c]
  else if c == 7 then [92, 97]
  else if c == 8 then [92, 98]
  else if c == 12 then [92, 102]
  else if c == 10 then [92, 110]
  else if c == 13 then [92, 114]
  else if c == 9 then [92, 116]
  else if c == 11 then [92, 118]
  else if c < 32 || c == 127 then [92, 120, hexDigit (c / 16), hexDigit (c % 16)]
  else if c < 0x10000 then
    [92, 117, hexDigit (c / 4096), hexDigit (c / 256 % 16), hexDigit (c / 16 % 16), hexDigit (c % 16)]
  else
    [92, 85, hexDigit (c / 0x10000000 % 16), hexDigit (c / 0x1000000 % 16), hexDigit (c / 0x100000 % 16),
     hexDigit (c / 0x10000 % 16), hexDigit (c / 4096 % 16), hexDigit (c / 256 % 16), hexDigit (c / 16 % 16),
     hexDigit (c % 16)]

def quoteBody : Str → Str
  | [] => []
  | c :: r => quoteChar c ++ quoteBody r

/-- strconv.Quote -/
def quote (s : Str) : Str := 34 :: (quoteBody s ++ [34])

def renderAttr (p : Str × Str) : Str := quote p.1 ++ [58] ++ quote p.2

/-- the body of `"attrs":{…}`: the rendered pairs, sorted as strings (Go sorts the
rendered `"k":"v"` strings, not the keys) -/
def renderAttrs (a : Attrs) : Str := joinWith [44] (sortStrs (a.map renderAttr))

def marshalTextNode (n : TextNode) : Str :=
  if n.attrs.isEmpty then cp%"{\"val\":" ++ quote n.val ++ cp%"}"
  else cp%"{\"val\":" ++ quote n.val ++ cp%",\"attrs\":{" ++ renderAttrs n.attrs ++ cp%"}}"

mutual
def marshalTree : TreeNode → Str
  | .mk ty v a c =>
    if ty == sText then cp%"{\"type\":" ++ quote ty ++ cp%",\"value\":" ++ quote v ++ cp%"}"
    else if a.isEmpty then
      cp%"{\"type\":" ++ quote ty ++ cp%",\"children\":[" ++ joinWith [44] (marshalTreeList c) ++ cp%"]}"
    else
      cp%"{\"type\":" ++ quote ty ++ cp%",\"attrs\":{" ++ renderAttrs a ++ cp%"},\"children\":["
        ++ joinWith [44] (marshalTreeList c) ++ cp%"]}"
def marshalTreeList : List TreeNode → List Str
  | [] => []
  | x :: r => marshalTree x :: marshalTreeList r
end

def marshalDbl : Dbl → Str
  | .nan => cp%"NaN"
  | .posInf => cp%"+Inf"
  | .negInf => cp%"-Inf"
  | .fin t => t

def marshalCounter : Counter → Str
  | .int n => cp%"Counter(Int(" ++ showInt n ++ cp%"))"
  | .long n => cp%"Counter(Long(" ++ showInt n ++ cp%"))"
  | .dedup n regs => cp%"DedupCounter(Int(" ++ showInt n ++ cp%"),\"" ++ b64Encode regs ++ cp%"\")"

mutual
/-- `Marshal()` / marshalElement / marshalPrimitive -/
def marshal : Yson → Str
  | .null => cp%"null"
  | .bool true => cp%"true"
  | .bool false => cp%"false"
  | .double d => marshalDbl d
  | .str s => quote s
  | .int n => cp%"Int(" ++ showInt n ++ cp%")"
  | .long n => cp%"Long(" ++ showInt n ++ cp%")"
  | .bytes b => cp%"BinData(\"" ++ b64Encode b ++ cp%"\")"
  | .date t => cp%"Date(\"" ++ t ++ cp%"\")"
  | .counter c => marshalCounter c
  | .text ns => cp%"Text([" ++ joinWith [44] (ns.map marshalTextNode) ++ cp%"])"
  | .tree r => cp%"Tree(" ++ marshalTree r ++ cp%")"
  | .arr xs => [91] ++ joinWith [44] (marshalList xs) ++ [93]
  | .obj kvs => [123] ++ joinWith [44] (marshalKvs kvs) ++ [125]
def marshalList : List Yson → List Str
  | [] => []
  | x :: r => marshal x :: marshalList r
/-- `"%s":%s` – the key is NOT escaped -/
def marshalKvs : List (Str × Yson) → List Str
  | [] => []
  | (k, x) :: r => ([34] ++ k ++ [34, 58] ++ marshal x) :: marshalKvs r
end

/-- `Unmarshal(v.Marshal())` with the old printer and the current reader -/
def roundTrip (v : Yson) : Res Yson := Yorkie.Yson.parse v.isObj (marshal v)

end Yorkie.Yson.V0Quote
