/-
YSON (C18): the textual pre-pass of `Unmarshal` as it was on the pinned tree, BEFORE
/repo commit 0cf3884e ("leave string literals alone when rewriting YSON type
constructors").  Kept only so that the repaired defect stays documented by a
kernel-evaluated witness (`Props/C18.lean`: `prepass_v0_in_string_witness`,
`dedup_empty_v0_witness`); nothing else refers to it.  Core Lean only.
-/
import YorkieModel.Model.YsonText
namespace Yorkie.Yson.V0
open Yorkie.Yson

def spanNotQuote : Str → Str × Str
  | [] => ([], [])
  | c :: r => if c == 34 then ([], c :: r) else (c :: (spanNotQuote r).1, (spanNotQuote r).2)

/-- one attempt of `DedupCounter\(Int\((-?\d+)\),"([^"]+)"\)` at the head of `s`:
the two groups and the length of the match -/
def dedupMatch (s : Str) : Option (Str × Str × Nat) :=
  match stripPrefix cp%"DedupCounter(Int(" s with
  | none => none
  | some r1 =>
    let sign := (jSign r1).1
    let ds := (takeDigits (jSign r1).2).1
    let r3 := (takeDigits (jSign r1).2).2
    if ds.isEmpty then none else
    match stripPrefix cp%"),\"" r3 with
    | none => none
    | some r4 =>
      let body := (spanNotQuote r4).1
      if body.isEmpty then none else
      match (spanNotQuote r4).2 with
      | 34 :: 41 :: _ => some (sign ++ ds, body, 17 + sign.length + ds.length + 3 + body.length + 2)
      | _ => none

def dedupReplace : Nat → Str → Str
  | _, [] => []
  | skip + 1, _ :: r => dedupReplace skip r
  | 0, c :: r =>
    match dedupMatch (c :: r) with
    | some (g1, g2, len) =>
      cp%"{\"type\":\"DedupCounter\",\"counterType\":\"Int\",\"value\":" ++ g1 ++ cp%",\"hll\":\"" ++ g2 ++ cp%"\"}"
        ++ dedupReplace (len - 1) r
    | none => c :: dedupReplace 0 r

def replacements : List (Str × Str) := [
  (cp%"Text()", cp%"{\"type\":\"Text\",\"value\":[]}"),
  (cp%"Tree()", cp%"{\"type\":\"Tree\",\"value\":{}}"),
  (cp%"Counter(", cp%"{\"type\":\"Counter\",\"value\":"),
  (cp%"Text(", cp%"{\"type\":\"Text\",\"value\":"),
  (cp%"Tree(", cp%"{\"type\":\"Tree\",\"value\":"),
  (cp%"Int(", cp%"{\"type\":\"Int\",\"value\":"),
  (cp%"Long(", cp%"{\"type\":\"Long\",\"value\":"),
  (cp%"BinData(\"", cp%"{\"type\":\"BinData\",\"value\":\""),
  (cp%"Date(\"", cp%"{\"type\":\"Date\",\"value\":\""),
  (cp%")", cp%"}")
]

/-- the whole text went through one regexp and ten `strings.ReplaceAll`, string
literals included -/
def preprocess (s : Str) : Str := applyReplacements replacements (dedupReplace 0 s)

def parse (wantObj : Bool) (text : Str) : Res Yson :=
  match jsonParse (preprocess text) with
  | none => .err .unmarshalJSON
  | some j => fromJRoot wantObj j

/-- `Unmarshal(v.Marshal())` before the repair -/
def roundTrip (v : Yson) : Res Yson := parse v.isObj (marshal v)

end Yorkie.Yson.V0
