/-
Model of the watch-stream glue around `server/backend/pubsub` (C17), core Lean only.

One level above Model/PubSub.lean: a step here is one *request* as seen by the PubSub –
  * `server/rpc/yorkie_server.go`  `Watch` / `subscribeResources` / `subscribeDocument` /
    `watchDoc` / `unwatchDoc` : a unified Watch request subscribes its document resources in
    order; when one cannot be subscribed the `cleanup()` closure unsubscribes the ones already
    made and the request fails; a stream that ends runs the deferred `unwatchDoc` of all;
  * `server/packs/pushpull.go`  `PushPull` step 04 : after a pack has been stored, a
    `DocChanged` event of the pushing client is handed to `PubSub.Publish` when
    `len(pushedChanges) > 0 || reqPack.IsRemoved`.
What the PubSub then does with a subscription / an event (critical sections, batching, the
one-slot buffer …) is Model/PubSub.lean and `Props.C17.notification_after_change`; this file
only says *which* Subscribe / Unsubscribe / Publish calls the glue makes.

The two places where the glue decides are parameters (`Cfg`) so that the seeded variants can be
stated; `Generated/Watch.lean` (factgen/watch.go) re-reads them from the Go source on every run
and `Props/C17Watch.lean` proves by evaluation that the source is `Cfg.real`.
-/
namespace Yorkie.Watch

abbrev Doc := Nat
abbrev Client := Nat
abbrev Stream := Nat

/-- an event handed to `PubSub.Publish` (type, document, actor) -/
inductive Ev where
  | changed (d : Doc) (a : Client)
  | watched (d : Doc) (a : Client)
  | unwatched (d : Doc) (a : Client)
deriving DecidableEq, Repr, Inhabited

/-- one `DocSubscription` made by a Watch request -/
structure Sub where
  doc : Doc
  client : Client
  stream : Stream
deriving DecidableEq, Repr, Inhabited

structure Cfg where
  /-- `project.MaxSubscribersPerDocument` (0 = unlimited) -/
  limit : Nat := 0
  /-- `subscribeResources` calls `cleanup()` before returning the error of a document resource -/
  cleanupOnError : Bool := true
  /-- step 04 of `PushPull` is entered on `reqPack.OperationsLen() > 0 || reqPack.IsRemoved`
  instead of `len(pushedChanges) > 0 || reqPack.IsRemoved` -/
  publishOnOpsOnly : Bool := false
deriving DecidableEq, Repr, Inhabited

/-- the glue as it is written -/
def Cfg.real (limit : Nat) : Cfg := { limit := limit }

inductive Err where
  | limit      -- ErrTooManySubscribers (resource_exhausted)
  | notFound   -- the document id does not exist
deriving DecidableEq, Repr, Inhabited

structure State where
  /-- every `DocSubscription` currently registered in the PubSub, oldest first -/
  subs : List Sub := []
  /-- documents that exist, with the head (`server_seq`) of their change log -/
  heads : List (Doc × Nat) := []
  /-- every event handed to `PubSub.Publish` so far, oldest first -/
  published : List Ev := []
  /-- Watch streams that are established -/
  live : List Stream := []
  /-- stream names that have been used (a request is a fresh stream) -/
  used : List Stream := []
  /-- result of the last Watch request -/
  last : Option Err := none
deriving Repr, Inhabited

def init : State := {}

def State.head (s : State) (d : Doc) : Nat :=
  match s.heads.find? (·.1 == d) with
  | some p => p.2
  | none => 0

def State.known (s : State) (d : Doc) : Bool := s.heads.any (·.1 == d)

def State.setHead (s : State) (d : Doc) (n : Nat) : State :=
  { s with heads := (d, n) :: s.heads.filter (·.1 != d) }

/-- number of subscriptions of document `d` (`subs.Len()` in the Upsert of `PubSub.Subscribe`) -/
def State.count (s : State) (d : Doc) : Nat := (s.subs.filter (·.doc == d)).length

/-- subscriber ids of document `d` in subscription order (`PubSub.ClientIDs`, a multiset) -/
def State.clientIDs (s : State) (d : Doc) : List Client := (s.subs.filter (·.doc == d)).map (·.client)

/-- `subscribeDocument` + `watchDoc` for one resource -/
def subscribeOne (cfg : Cfg) (s : State) (c : Client) (st : Stream) (d : Doc) : Except Err State :=
  if !s.known d then .error .notFound
  else if cfg.limit > 0 ∧ s.count d ≥ cfg.limit then .error .limit
  else .ok { s with subs := s.subs ++ [{ doc := d, client := c, stream := st }],
                    published := s.published ++ [.watched d c] }

/-- `cleanup()` / the deferred block of `Watch`: `unwatchDoc` for every subscription the stream
has made, in order (`Unsubscribe`, then publish `DocUnwatched`) -/
def unwatchAll (s : State) (st : Stream) : State :=
  { s with subs := s.subs.filter (·.stream != st),
           published := s.published ++
             (s.subs.filter (·.stream == st)).map (fun x => Ev.unwatched x.doc x.client) }

/-- the loop of `subscribeResources` over the document resources of one request -/
def subscribeAll (cfg : Cfg) (s : State) (c : Client) (st : Stream) : List Doc → State × Option Err
  | [] => (s, none)
  | d :: ds =>
    match subscribeOne cfg s c st d with
    | .error e => ((if cfg.cleanupOnError then unwatchAll s st else s), some e)
    | .ok s1 => subscribeAll cfg s1 c st ds

inductive Label where
  /-- a Watch request of client `c` for the documents `docs`, as stream `st` -/
  | watchOpen (st : Stream) (c : Client) (docs : List Doc)
  /-- stream `st` ends (client went away) -/
  | watchClose (st : Stream)
  /-- a PushPull of client `c` on document `d` was accepted: `n` changes were stored
  (`len(pushedChanges)`), the pack carried `ops` operations, `removed` = `reqPack.IsRemoved`;
  the first push creates the document -/
  | push (d : Doc) (c : Client) (n ops : Nat) (removed : Bool)
deriving Repr, Inhabited

/-- the guard of step 04 of `PushPull` -/
def publishes (cfg : Cfg) (n ops : Nat) (removed : Bool) : Bool :=
  if cfg.publishOnOpsOnly then decide (ops > 0) || removed else decide (n > 0) || removed

def step (cfg : Cfg) (s : State) : Label → State
  | .watchOpen st c docs =>
    if st ∈ s.used then s
    else
      let s0 := { s with used := st :: s.used }
      match subscribeAll cfg s0 c st docs with
      | (s1, none) => { s1 with live := st :: s1.live, last := none }
      | (s1, some e) => { s1 with last := some e }
  | .watchClose st =>
    if st ∈ s.live then { unwatchAll s st with live := s.live.filter (· != st) } else s
  | .push d c n ops removed =>
    let s1 := s.setHead d (s.head d + n)
    if publishes cfg n ops removed then { s1 with published := s1.published ++ [.changed d c] } else s1

def run (cfg : Cfg) (ls : List Label) : State := ls.foldl (step cfg) init

inductive Reachable (cfg : Cfg) : State → Prop
  | init : Reachable cfg init
  | step {s : State} (h : Reachable cfg s) (l : Label) : Reachable cfg (step cfg s l)

theorem Reachable.foldl {cfg : Cfg} {s : State} (h : Reachable cfg s) (ls : List Label) :
    Reachable cfg (ls.foldl (Watch.step cfg) s) := by
  induction ls generalizing s with
  | nil => exact h
  | cons l ls ih => exact ih (h.step l)

theorem Reachable.run (cfg : Cfg) (ls : List Label) : Reachable cfg (run cfg ls) :=
  Reachable.init.foldl ls

/-- who has to be told about a change of `d` by `c`: every subscription of `d` of another client
(the `Filter` of doc_subscription.go skips the publisher's own subscriptions); that each of them
*is* told is `Props.C17.notification_after_change` -/
def State.receivers (s : State) (d : Doc) (c : Client) : List Sub :=
  s.subs.filter (fun x => x.doc == d && x.client != c)

end Yorkie.Watch
