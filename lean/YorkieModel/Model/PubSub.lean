/-
Model of `server/backend/pubsub` for one document key (C17), core Lean only.

A small-step transition system at the granularity of the Go code's critical
sections: every `step` is one mutex / cmap-shard critical section or one channel
operation.  Pointers obtained in one critical section and used in a later one
(`subs` in `Unsubscribe`, `Publish`, `ClientIDs`; the `Values()` snapshot, the
taken `events` and `deadIDs` of `BatchPublisher.publish`) are program-counter
locals of the in-flight operation, exactly as in the Go code.

  pubsub.go            Subscribe / Unsubscribe / Publish / ClientIDs
  subscription.go      Subscription.Close / Publish / IsDead, Subscriptions.Delete
  batch_publisher.go   BatchPublisher.Publish / processLoop / publish / Close
  doc_subscription.go  buffer size 1, DocChanged dedup (OnEnqueue/OnPublish), self filter
  pkg/cmap             Upsert / Get / Delete(with callback) are atomic per key

Objects are never freed in the model: `objs o` is the o-th `Subscriptions`
object ever created (with its `BatchPublisher` and process loop), `subs i` the
i-th `Subscription` ever created, `ops k` the k-th API call ever started.
Fields marked *ghost* do not influence any transition; they only record history
for the statements in `Props/C17.lean`.
-/
namespace Yorkie.PubSub

/-- `events.DocEvent` restricted to what the pub/sub layer looks at -/
structure Event where
  eid : Nat            -- identity of the Publish call (carried in Body.Topic by the harness)
  actor : Nat          -- `Actor`
  changed : Bool       -- `Type == DocChanged`
deriving DecidableEq, Repr, Inhabited

/-- `NewDocSubscription`: `make(chan DocEvent, 1)` -/
def bufCap : Nat := 1

/-- `Subscription[E]` -/
structure Sub where
  owner : Nat := 0
  closed : Bool := false
  /-- the real state of the Go channel `events` (send/close on a closed channel panics) -/
  chanClosed : Bool := false
  buffer : List Event := []
  failures : Nat := 0
  maxFailures : Nat := 100
  /-- ghost: the `Subscriptions` object this subscription was `Set` into -/
  home : Nat := 0
  /-- ghost: clock of the last receive by the watcher -/
  lastConsume : Nat := 0
  /-- ghost: clock of the last send to this subscription that timed out -/
  lastDrop : Nat := 0
  /-- ghost: clock of the last successful send of a `DocChanged` event into the buffer -/
  lastChanged : Nat := 0
deriving Repr, Inhabited

/-- `Subscription.Close`: returns the new value and whether `close(ch)` hit a closed channel -/
def Sub.close (x : Sub) : Sub × Bool :=
  if x.closed then (x, false)
  else ({ x with closed := true, chanClosed := true }, x.chanClosed)

/-- `Subscription.Publish` (one critical section of `mu`, including the select):
new value, `ok`, and whether the send hit a closed channel (`now` only feeds ghost stamps) -/
def Sub.publish (x : Sub) (e : Event) (now : Nat) : Sub × Bool × Bool :=
  if x.closed then (x, false, false)
  else if x.chanClosed then (x, false, true)
  else if x.buffer.length < bufCap then
    ({ x with buffer := x.buffer ++ [e], failures := 0,
              lastChanged := if e.changed then now else x.lastChanged }, true, false)
  else if x.failures + 1 ≥ x.maxFailures then
    ({ x with failures := x.failures + 1, closed := true, chanClosed := true, lastDrop := now },
      false, false)
  else ({ x with failures := x.failures + 1, lastDrop := now }, false, false)

/-- program counter (with locals) of `BatchPublisher.processLoop` / `publish` -/
inductive Loop where
  /-- parked in the `select` of `processLoop` -/
  | wait
  /-- `publish()` entered, about to lock `bp.mutex`; `final` = entered from the `closeChan` case -/
  | take (final : Bool)
  /-- events taken, about to call `bp.subs.Values()` -/
  | snap (final : Bool) (evs : List Event)
  /-- about to call `IsDead()` on `cur`; `todo` = the rest of the `Values()` snapshot, in the
  (unspecified) order of Go's map iteration: the next element is chosen by the step label -/
  | isDead (final : Bool) (evs : List Event) (cur : Nat) (todo dead : List Nat)
  /-- about to call `cur.Publish(head of rest)`; `rest` = events not filtered out for `cur` -/
  | send (final : Bool) (evs : List Event) (cur : Nat) (rest : List Event) (todo dead : List Nat)
  /-- a send failed, about to call `IsDead()` again -/
  | isDead2 (final : Bool) (evs : List Event) (cur : Nat) (rest : List Event) (todo dead : List Nat)
  /-- about to call `bp.subs.Delete(head of dead)` -/
  | reap (final : Bool) (dead : List Nat)
  /-- `processLoop` returned -/
  | exited
deriving Repr, Inhabited, DecidableEq

/-- `Subscriptions[E]` together with its `BatchPublisher` -/
structure Subs where
  members : List Nat := []
  batch : List Event := []
  /-- `closeChan` has been closed -/
  closed : Bool := false
  loop : Loop := .wait
  /-- ghost: number of times `publish()` has taken the batch -/
  takes : Nat := 0
  /-- ghost: number of enqueues executed after `closeChan` was closed -/
  lateEnq : Nat := 0
deriving Repr, Inhabited

/-- `OnEnqueue` of doc_subscription.go.  `docChangedCountMap[a]` always equals the number of
`DocChanged` events of actor `a` in `bp.events` (both are reset together in `publish()`), so the
count is computed from the batch. -/
def dedupCount (batch : List Event) (a : Nat) : Nat :=
  (batch.filter (fun x => x.changed && x.actor == a)).length

def enqueue (batch : List Event) (e : Event) : List Event :=
  if e.changed && decide (dedupCount batch e.actor ≥ 2) then batch else batch ++ [e]

inductive SubPc where
  | upsert
  | idsGet (sid : Nat)
  | idsVals (sid p : Nat)
  | done (res : Option Nat)
deriving Repr, Inhabited, DecidableEq

inductive UnsubPc where
  | close
  | get
  | delete (p : Nat)
  | mapDelete
  | done
deriving Repr, Inhabited, DecidableEq

inductive PubPc where
  | get
  | enqueue (p : Nat)
  | done (target : Option Nat)
deriving Repr, Inhabited, DecidableEq

/-- an API call in flight (or finished) -/
inductive Op where
  | none
  | subscribe (actor limit maxF : Nat) (pc : SubPc)
  | unsubscribe (sid : Nat) (pc : UnsubPc)
  /-- `n0` ghost: number of subscriptions that existed when the call began;
  `enqAt`, `enqTake` ghost: clock and `takes` of the target at the enqueue step -/
  | publish (e : Event) (n0 enqAt enqTake : Nat) (pc : PubPc)
deriving Repr, Inhabited, DecidableEq

structure State where
  /-- `docSubsMap[docKey]` -/
  entry : Option Nat := none
  objs : Nat → Subs := fun _ => {}
  nObjs : Nat := 0
  subs : Nat → Sub := fun _ => {}
  nSubs : Nat := 0
  ops : Nat → Op := fun _ => .none
  nOps : Nat := 0
  /-- ghost: number of steps taken + 1 -/
  clock : Nat := 1
  /-- a send on / close of a closed subscription channel happened -/
  panicSub : Bool := false
  /-- `close(closeChan)` on a closed channel happened -/
  panicPub : Bool := false

def init : State := {}

@[simp] def State.setSub (s : State) (i : Nat) (x : Sub) : State :=
  { s with subs := fun j => if j = i then x else s.subs j }

@[simp] def State.setObj (s : State) (o : Nat) (x : Subs) : State :=
  { s with objs := fun j => if j = o then x else s.objs j }

@[simp] def State.setOp (s : State) (k : Nat) (x : Op) : State :=
  { s with ops := fun j => if j = k then x else s.ops j }

/-- `sub.Close()` on subscription `i` -/
def State.closeSub (s : State) (i : Nat) : State :=
  { s.setSub i (s.subs i).close.1 with panicSub := s.panicSub || (s.subs i).close.2 }

/-- `Subscriptions.Delete(id)` on object `o`: cmap Delete whose callback closes the subscription -/
def State.deleteMember (s : State) (o id : Nat) : State :=
  let s1 := if id ∈ (s.objs o).members then s.closeSub id else s
  s1.setObj o { s1.objs o with members := (s1.objs o).members.filter (· != id) }

inductive Label where
  | startSub (actor limit maxF : Nat)
  | startUnsub (sid : Nat)
  | startPub (e : Event)
  /-- one critical section of API call `k` -/
  | op (k : Nat)
  /-- the `select` of loop `o` takes the ticker case -/
  | tick (o : Nat)
  /-- the `select` of loop `o` takes the `closeChan` case -/
  | wake (o : Nat)
  /-- one critical section of `publish()` of loop `o`; when the step moves on to the next
  subscription of the snapshot, `pick` says which one Go's map iteration yields -/
  | loop (o : Nat) (pick : Nat)
  /-- the watcher of subscription `sid` receives one event from its channel -/
  | consume (sid : Nat)
deriving Repr, Inhabited

/-! ### API calls -/

def stepSubscribe (s : State) (k actor limit maxF : Nat) : SubPc → State
  | .upsert =>
    -- cmap.Upsert(docKey, …) : one critical section of the shard lock
    match s.entry with
    | some o =>
      -- (the callback returns the same pointer, `shard.items[key] = res` re-stores it)
      if limit > 0 ∧ (s.objs o).members.length ≥ limit then
        s.setOp k (.subscribe actor limit maxF (.done none))
      else
        { (s.setSub s.nSubs { owner := actor, maxFailures := maxF, home := o }).setObj o
            { s.objs o with members := (s.objs o).members ++ [s.nSubs] } with
          nSubs := s.nSubs + 1 }.setOp k (.subscribe actor limit maxF (.idsGet s.nSubs))
    | none =>
      -- `newSubscriptions(docKey)` creates object number `nObjs` and starts its process loop;
      -- the limit test `limit > 0 && 0 >= limit` cannot fail on the empty new object
      { (s.setSub s.nSubs { owner := actor, maxFailures := maxF, home := s.nObjs }).setObj s.nObjs
          { members := [s.nSubs] } with
        nSubs := s.nSubs + 1, nObjs := s.nObjs + 1, entry := some s.nObjs }.setOp k
          (.subscribe actor limit maxF (.idsGet s.nSubs))
  | .idsGet sid =>
    match s.entry with
    | none => s.setOp k (.subscribe actor limit maxF (.done (some sid)))
    | some p => s.setOp k (.subscribe actor limit maxF (.idsVals sid p))
  | .idsVals sid _ => s.setOp k (.subscribe actor limit maxF (.done (some sid)))
  | .done _ => s

def stepUnsubscribe (s : State) (k sid : Nat) : UnsubPc → State
  | .close => (s.closeSub sid).setOp k (.unsubscribe sid .get)
  | .get =>
    match s.entry with
    | none => s.setOp k (.unsubscribe sid .done)
    | some p => s.setOp k (.unsubscribe sid (.delete p))
  | .delete p => (s.deleteMember p sid).setOp k (.unsubscribe sid .mapDelete)
  | .mapDelete =>
    -- cmap.Delete(docKey, cb): the callback looks at the *current* map value
    match s.entry with
    | none => s.setOp k (.unsubscribe sid .done)
    | some o =>
      if 0 < (s.objs o).members.length then s.setOp k (.unsubscribe sid .done)
      else
        let s1 : State := { s.setObj o { s.objs o with closed := true } with
                            panicPub := s.panicPub || (s.objs o).closed, entry := none }
        s1.setOp k (.unsubscribe sid .done)
  | .done => s

def stepPublish (s : State) (k : Nat) (e : Event) (n0 enqAt enqTake : Nat) : PubPc → State
  | .get =>
    match s.entry with
    | none => s.setOp k (.publish e n0 enqAt enqTake (.done none))
    | some p => s.setOp k (.publish e n0 enqAt enqTake (.enqueue p))
  | .enqueue p =>
    let b := s.objs p
    let s1 := s.setObj p { b with batch := enqueue b.batch e,
                                  lateEnq := if b.closed then b.lateEnq + 1 else b.lateEnq }
    s1.setOp k (.publish e n0 s.clock b.takes (.done (some p)))
  | .done _ => s

def stepOp (s : State) (k : Nat) : State :=
  match s.ops k with
  | .none => s
  | .subscribe a l m pc => stepSubscribe s k a l m pc
  | .unsubscribe sid pc => stepUnsubscribe s k sid pc
  | .publish e n0 t1 t2 pc => stepPublish s k e n0 t1 t2 pc

/-! ### the process loop -/

def Loop.finish (final : Bool) : Loop := if final then .exited else .wait

def Loop.afterSubs (final : Bool) (dead : List Nat) : Loop :=
  match dead with
  | [] => Loop.finish final
  | _ :: _ => .reap final dead

def Loop.nextSub (pick : Nat) (final : Bool) (evs : List Event) (todo dead : List Nat) : Loop :=
  match todo with
  | [] => Loop.afterSubs final dead
  | c :: _ =>
    let cur := if pick ∈ todo then pick else c
    .isDead final evs cur (todo.erase cur) dead

def Loop.nextEvent (pick : Nat) (final : Bool) (evs : List Event) (cur : Nat) (rest : List Event)
    (todo dead : List Nat) : Loop :=
  match rest with
  | [] => Loop.nextSub pick final evs todo dead
  | _ :: _ => .send final evs cur rest todo dead

/-- the events of the batch that the `Filter` does not skip for subscriber `owner` -/
def relevant (evs : List Event) (owner : Nat) : List Event :=
  evs.filter (fun e => e.actor != owner)

def State.setLoop (s : State) (o : Nat) (l : Loop) : State :=
  s.setObj o { s.objs o with loop := l }

def stepLoop (s : State) (o pick : Nat) : State :=
  match (s.objs o).loop with
  | .wait => s
  | .exited => s
  | .take f =>
    let b := s.objs o
    s.setObj o { b with batch := [], takes := b.takes + 1, loop := .snap f b.batch }
  | .snap f evs => s.setLoop o (Loop.nextSub pick f evs (s.objs o).members [])
  | .isDead f evs c todo dead =>
    if (s.subs c).closed then s.setLoop o (Loop.nextSub pick f evs todo (dead ++ [c]))
    else s.setLoop o (Loop.nextEvent pick f evs c (relevant evs (s.subs c).owner) todo dead)
  | .send f evs _ [] todo dead => s.setLoop o (Loop.nextSub pick f evs todo dead)
  | .send f evs c (e :: rest) todo dead =>
    let r := (s.subs c).publish e s.clock
    let s1 : State := { s.setSub c r.1 with panicSub := s.panicSub || r.2.2 }
    if r.2.1 then s1.setLoop o (Loop.nextEvent pick f evs c rest todo dead)
    else s1.setLoop o (.isDead2 f evs c rest todo dead)
  | .isDead2 f evs c rest todo dead =>
    if (s.subs c).closed then s.setLoop o (Loop.nextSub pick f evs todo (dead ++ [c]))
    else s.setLoop o (Loop.nextEvent pick f evs c rest todo dead)
  | .reap f [] => s.setLoop o (Loop.finish f)
  | .reap f (d :: dead) => (s.deleteMember o d).setLoop o (Loop.afterSubs f dead)

def stepTick (s : State) (o : Nat) : State :=
  match (s.objs o).loop with
  | .wait => if o < s.nObjs then s.setLoop o (.take false) else s
  | _ => s

def stepWake (s : State) (o : Nat) : State :=
  match (s.objs o).loop with
  | .wait => if o < s.nObjs ∧ (s.objs o).closed then s.setLoop o (.take true) else s
  | _ => s

def stepConsume (s : State) (sid : Nat) : State :=
  match (s.subs sid).buffer with
  | [] => s
  | _ :: rest => s.setSub sid { s.subs sid with buffer := rest, lastConsume := s.clock }

def stepCore (s : State) : Label → State
  | .startSub a l m => { s.setOp s.nOps (.subscribe a l m .upsert) with nOps := s.nOps + 1 }
  | .startUnsub sid =>
    if sid < s.nSubs then { s.setOp s.nOps (.unsubscribe sid .close) with nOps := s.nOps + 1 } else s
  | .startPub e => { s.setOp s.nOps (.publish e s.nSubs 0 0 .get) with nOps := s.nOps + 1 }
  | .op k => stepOp s k
  | .tick o => stepTick s o
  | .wake o => stepWake s o
  | .loop o pick => if o < s.nObjs then stepLoop s o pick else s
  | .consume sid => stepConsume s sid

def step (s : State) (l : Label) : State :=
  { stepCore s l with clock := s.clock + 1 }

def run (ls : List Label) : State := ls.foldl step init

/-- every state the system can be in, for any number of calls and any interleaving -/
inductive Reachable : State → Prop
  | init : Reachable PubSub.init
  | step {s : State} (h : Reachable s) (l : Label) : Reachable (PubSub.step s l)

theorem Reachable.foldl {s : State} (h : Reachable s) (ls : List Label) :
    Reachable (ls.foldl PubSub.step s) := by
  induction ls generalizing s with
  | nil => exact h
  | cons l ls ih => exact ih (h.step l)

theorem Reachable.run (ls : List Label) : Reachable (run ls) := Reachable.init.foldl ls

end Yorkie.PubSub
