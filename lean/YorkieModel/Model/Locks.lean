/-
Model of the server's named-lock layer (server/backend/sync + pkg/locker) for C16.

Two parts, both core Lean only.

1. The *schema* of the facts `factgen` extracts from the Go source
   (`Generated/Locks.lean`): acquisition sites, per-function event lists, the call
   graph between them, and `flatten`, which computes (with fuel) the acquisition /
   release script a function executes including its callees.

2. The *lock table model*: threads that each execute a finite script of
   acquire/release operations on named locks.  Every named lock is a Go
   `sync.RWMutex` (pkg/locker `lockCtr`): `Lock` (mode `W`), `RLock` (mode `R`)
   and `TryLock` (mode `T`, never blocks).  Go's RWMutex is *writer preferring*:
   once a writer has called `Lock`, new readers block until that writer has had
   the lock.  An exclusive acquisition therefore takes two steps in the model:
   the call of `Lock` (the thread becomes a *pending writer*) and the grant.
   `blockedOn` is the blocking predicate; `succs` enumerates the successor
   states (which waiter is granted is left open, which includes Go's policy);
   `violations` is the executable check of the lock-order discipline that
   `Props/C16.lean` evaluates on the generated table and that
   `lock_order_deadlock_free` takes as its hypothesis.
-/
namespace Yorkie.Locks

/-! ## 1. Schema of the generated facts -/

/-- `W` = `Lockers.Locker` (exclusive, blocking), `R` = `LockerWithRLock` (shared, blocking),
    `T` = `LockerWithTryLock` (exclusive, never blocks) -/
inductive Mode | W | R | T
  deriving DecidableEq, Repr, Inhabited

inductive RelKind | deferred | explicit | none
  deriving DecidableEq, Repr, Inhabited

/-- one syntactic acquisition site -/
structure Site where
  fn : String
  cls : String
  mode : Mode
  /-- how the lock is released -/
  rel : RelKind
  /-- `Unlock` for W/T, `RUnlock` for R -/
  relMatches : Bool
  /-- statements between the acquisition and its `defer` -/
  gap : Nat
  /-- W/R: the `defer` is the very next statement; T: the next statement is
      `if !ok { return … }` and the `defer` follows it -/
  guarded : Bool
  inLoop : Bool
  explicitRels : Nat
  returnsBeforeRel : Nat
  /-- the condition under which the acquisition is executed: source text (whitespace
      collapsed) of the conditions of the enclosing `if` statements, outermost first,
      `(c₁) && (c₂)` when nested, `!(c)` for an `else` branch, `case <tag>: <exprs>` for a
      switch clause; `""` = unconditional.  Early returns before the acquisition are not
      part of it. -/
  cond : String := ""
  file : String
  line : Nat
  deriving Repr, Inhabited

/-- events of a function body in source order; deferred releases are appended at the
    end in LIFO order by the extractor -/
inductive Ev
  | acq (cls : String) (mode : Mode) (site : Nat)
  | rel (cls : String)
  /-- call of the function at index `fn`; `rpc` = through the cluster client -/
  | call (fn : Nat) (rpc : Bool) (inLoop : Bool)
  /-- function literal started on its own goroutine -/
  | spawn (fn : Nat)
  deriving DecidableEq, Repr, Inhabited

structure Fn where
  name : String
  file : String
  line : Nat
  /-- exported method of yorkieServer / adminServer / clusterServer -/
  handler : Bool
  /-- body of a goroutine (`go`, `Backend.Go`, `AttachGoroutine`) -/
  spawned : Bool
  /-- not called by another listed function -/
  root : Bool
  body : List Ev
  deriving Repr, Inhabited

/-! ## 2. Scripts -/

/-- script operation on lock names of type `α`.  `origin` is the index of the
    function in which the operation is written (used to attribute a violation). -/
inductive Op (α : Type) where
  | acq (l : α) (m : Mode) (origin : Nat)
  | rel (l : α) (origin : Nat)
  deriving DecidableEq, Repr, Inhabited

def Op.map {α β} (f : α → β) : Op α → Op β
  | .acq l m o => .acq (f l) m o
  | .rel l o => .rel (f l) o

/-- marker emitted when `flatten` runs out of fuel (recursion in the call graph);
    it has no rank, so it is reported as a violation -/
def recursionMarker : String := "!recursion"

/-- The acquisition/release script of function `i` with its callees inlined.
    `inlineRpc = true` also inlines intra-cluster RPC calls (the caller waits for
    the callee, so for the purpose of deadlock analysis the callee's locks are
    taken "by" the caller).  Spawned goroutines are never inlined: they are threads
    of their own. -/
def flatten (fns : List Fn) (inlineRpc : Bool) : Nat → Nat → List (Op String)
  | 0, i => [.acq recursionMarker .W i]
  | fuel + 1, i =>
    match fns[i]? with
    | none => []
    | some f => f.body.flatMap (fun e =>
        match e with
        | .acq c m _ => [Op.acq c m i]
        | .rel c => [Op.rel c i]
        | .call j rpc _ => if rpc && !inlineRpc then [] else flatten fns inlineRpc fuel j
        | .spawn _ => [])

section Script
variable {α : Type} [DecidableEq α]

def holdsName (held : List (α × Mode)) (l : α) : Bool := held.any (fun h => decide (h.1 = l))

/-- remove the most recent entry for `l` -/
def release (l : α) : List (α × Mode) → List (α × Mode)
  | [] => []
  | h :: t => if h.1 = l then t else h :: release l t

/-- continuation after a failed try-lock of `l`: the function returns at once, i.e.
    everything up to and including the release that belongs to it is skipped -/
def dropThrough (l : α) : List (Op α) → List (Op α)
  | [] => []
  | .rel l' _ :: r => if l' = l then r else dropThrough l r
  | .acq _ _ _ :: r => dropThrough l r

inductive ViolKind
  /-- blocking acquisition while holding a lock that is not strictly lower -/
  | order
  /-- lock without a rank -/
  | unranked
  /-- release of a lock that is not held -/
  | unheld
  /-- script ends while the lock is still held -/
  | leak
  deriving DecidableEq, Repr, Inhabited

structure Viol (α : Type) where
  origin : Nat
  kind : ViolKind
  lock : α
  held : Option α
  deriving DecidableEq, Repr

def noOrigin : Nat := 1000000

def rankLt (rank : α → Option Nat) (h : α) (rl : Nat) : Bool :=
  match rank h with
  | some rh => decide (rh < rl)
  | none => false

/-- violations of one blocking/try acquisition against the current held set -/
def acqViolations (rank : α → Option Nat) (held : List (α × Mode)) (l : α) (m : Mode) (o : Nat) : List (Viol α) :=
  match rank l with
  | none => [⟨o, .unranked, l, none⟩]
  | some rl =>
    if m = .T then [] else
      (held.filter (fun h => !rankLt rank h.1 rl)).map (fun h => ⟨o, .order, l, some h.1⟩)

/-- The lock-order discipline as an executable check.  `skip = some l` means: a
    try-lock of `l` has failed and the operations up to its release are skipped.
    A script has no violations iff on every path (every try-lock outcome)
    * every blocking acquisition is of a lock strictly above all locks held,
    * every release is of a held lock,
    * nothing is held at the end. -/
def violations (rank : α → Option Nat) : Option α → List (α × Mode) → List (Op α) → List (Viol α)
  | _, held, [] => held.map (fun h => ⟨noOrigin, .leak, h.1, none⟩)
  | some s, held, .acq _ _ _ :: r => violations rank (some s) held r
  | some s, held, .rel l _ :: r => if l = s then violations rank none held r else violations rank (some s) held r
  | none, held, .acq l m o :: r =>
      acqViolations rank held l m o
        ++ violations rank none ((l, m) :: held) r
        ++ (if m = .T then violations rank (some l) held r else [])
  | none, held, .rel l o :: r =>
      (if holdsName held l then [] else [⟨o, .unheld, l, none⟩])
        ++ violations rank none (release l held) r

/-! ## 3. Threads and the lock table -/

structure Thread (α : Type) where
  held : List (α × Mode)
  rest : List (Op α)
  /-- the thread has called `Lock` for the exclusive acquisition at the head of `rest`
      and is waiting for the holders to drain (a *pending writer*) -/
  pending : Bool := false
  deriving DecidableEq, Repr

abbrev State (α : Type) := List (Thread α)

def Thread.holds (t : Thread α) (l : α) : Bool := holdsName t.held l

/-- holds `l` exclusively (acquired by `Lock` or `TryLock`) -/
def Thread.holdsExcl (t : Thread α) (l : α) : Bool :=
  t.held.any (fun h => decide (h.1 = l) && decide (h.2 ≠ .R))

/-- the thread's next operation is a blocking exclusive acquisition of `l` -/
def Thread.wantsW (t : Thread α) (l : α) : Bool :=
  match t.rest with
  | .acq l' .W _ :: _ => decide (l' = l)
  | _ => false

/-- pending writer of `l`: has announced itself (called `Lock`) and waits -/
def Thread.pendingW (t : Thread α) (l : α) : Bool := t.pending && t.wantsW l

def anyHolds (S : State α) (l : α) : Bool := S.any (fun t => t.holds l)
def anyHoldsExcl (S : State α) (l : α) : Bool := S.any (fun t => t.holdsExcl l)
def anyPendingW (S : State α) (l : α) : Bool := S.any (fun t => t.pendingW l)

/-- Blocking predicate of Go's writer-preferring RWMutex:
    `Lock` waits while anybody holds the lock (shared or exclusive);
    `RLock` waits while somebody holds it exclusively **or a writer is pending**;
    `TryLock` and the releases never block. -/
def blockedOn (S : State α) : Op α → Bool
  | .acq l .W _ => anyHolds S l
  | .acq l .R _ => anyHoldsExcl S l || anyPendingW S l
  | _ => false

/-- All outcomes of `t` executing its next operation in state `S` (empty when `t` is
    finished or blocked).  An exclusive blocking acquisition takes two steps: the
    call of `Lock` (the thread becomes a pending writer – from then on new readers
    are held back) and the grant.  Which waiter is granted is left open (any), which
    includes Go's actual policy.  A try-lock can succeed only when nobody holds the
    lock and can always fail (Go's `TryLock` also fails on a pending writer). -/
def Thread.next (S : State α) (t : Thread α) : List (Thread α) :=
  match t.rest with
  | [] => []
  | .acq l m o :: r =>
    if m = .T then
      (if anyHolds S l then [] else [{ held := (l, .T) :: t.held, rest := r }])
        ++ [{ held := t.held, rest := dropThrough l r }]
    else if m = .W ∧ t.pending = false then [{ t with pending := true }]
    else if blockedOn S (.acq l m o) then []
    else [{ held := (l, m) :: t.held, rest := r }]
  | .rel l _ :: r => [{ held := release l t.held, rest := r }]

/-- successor states: any thread performs its next operation -/
def succs (S : State α) : List (State α) :=
  (List.range S.length).flatMap (fun i =>
    match S[i]? with
    | none => []
    | some t => (t.next S).map (fun t' => S.set i t'))

def Step (S S' : State α) : Prop := S' ∈ succs S

inductive Reach (S₀ : State α) : State α → Prop
  | init : Reach S₀ S₀
  | step {S S'} : Reach S₀ S → Step S S' → Reach S₀ S'

def Thread.done (t : Thread α) : Bool := t.rest.isEmpty
def allDone (S : State α) : Bool := S.all (fun t => t.done)

/-- remaining work: decreases with every step -/
def Thread.measure (t : Thread α) : Nat := 2 * t.rest.length + (if t.pending then 0 else 1)
def measure (S : State α) : Nat := (S.map (fun t => t.measure)).sum

/-- every thread's remaining script respects the discipline relative to what it holds -/
def StateOK (rank : α → Option Nat) (S : State α) : Prop :=
  ∀ t ∈ S, violations rank none t.held t.rest = []

/-- initial state: nothing held -/
def initState (scripts : List (List (Op α))) : State α :=
  scripts.map (fun s => { held := [], rest := s })

/-- `t` waits for `u` (used for the wait-cycle witnesses): `t` is blocked and `u`
    holds the lock `t` wants, or `t` wants a shared lock and `u` is a pending writer -/
def waitsFor (t u : Thread α) : Bool :=
  match t.rest with
  | .acq l .W _ :: _ => t.pending && u.holds l
  | .acq l .R _ :: _ => u.holdsExcl l || u.pendingW l
  | _ => false

/-- thread `i` performs its next operation (first outcome: a try-lock succeeds when it can) -/
def exec1 (S : State α) (i : Nat) : Option (State α) :=
  match S[i]? with
  | none => none
  | some t =>
    match t.next S with
    | [] => none
    | t' :: _ => some (S.set i t')

/-- run a schedule (list of thread indices); `none` if a scheduled thread cannot move -/
def execSchedule : State α → List Nat → Option (State α)
  | S, [] => some S
  | S, i :: is => match exec1 S i with
    | none => none
    | some S' => execSchedule S' is

/-- stuck = somebody is unfinished and nobody can move -/
def stuck (S : State α) : Bool := !allDone S && (succs S).isEmpty

/-- bounded breadth-first search for a stuck state (used by the driver engine to
    predict whether a forced interleaving of given scripts deadlocks, and by the
    witness theorems) -/
def findStuck : Nat → List (State α) → List (State α) → Option (State α)
  | 0, _, _ => none
  | fuel + 1, frontier, seen =>
    match frontier.find? stuck with
    | some S => some S
    | none =>
      let next := (frontier.flatMap succs).foldl (fun acc S => if acc.contains S || seen.contains S then acc else S :: acc) []
      if next.isEmpty then none else findStuck fuel next (next ++ seen)

end Script

/-! ## 4. The expected order on the lock classes of the pinned tree

`docs/design/fine-grained-document-locking.md`: doc → doc.pull → doc.attachment →
doc.push.  The remaining classes are not part of the documented order: the three
housekeeping keys and the snapshot key are only ever try-locked (theorem
`try_only_classes`), the watch-stream key is taken with nothing else held.  They get
ranks below `doc` because the housekeeping tasks hold their key around requests
that take document locks. -/
def rankTable : List (String × Nat) :=
  [("deactivationKey", 1), ("compactionKey", 2), ("statsRefreshKey", 3),
   ("DocWatchStreamKey", 4), ("SnapshotKey", 5),
   ("DocKey", 10), ("DocPullKey", 20), ("DocAttachmentKey", 30), ("DocPushKey", 40)]

def classRank (c : String) : Option Nat := rankTable.lookup c

/-- call-graph depth bound for `flatten` (exhaustion is reported as a violation) -/
def flattenFuel : Nat := 12

def showMode : Mode → String
  | .W => "W" | .R => "R" | .T => "T"

end Yorkie.Locks
