/-
L1–L3 (observable layer): JSON-like document as a heap of elements addressed by
their creation ticket, and the operation executor over it.

Go anchors: pkg/document/crdt/{root,object,element_rht,array,rga_tree_list,counter,primitive}.go,
pkg/document/operations/{set,add,move,remove,array_set,increase}.go.

This is the *observable* model used for C01/C07: it keeps exactly what `Marshal()` and the
operation executor read, and deliberately forgets
  * the ticket values of `removedAt` (kept as a flag): they only decide purge timing (C03);
  * whether an LWW *loser* of an object key was tombstoned: a loser is never reachable from
    `nodeMapByKey` again, so the flag is unobservable through `Marshal()`; the model marks every
    loser removed (canonical), the Go code only when the occupant was live;
  * `Root`'s GC registries and `DocSize`.
Children are referenced by ticket (Go: pointers, identified by `createdAt` in `Root.elementMap`).
Identity reuse by undo/redo is outside this layer.
Value `createdAt` and the operation's `executedAt` are the same ticket for every operation the
json layer or a remote peer produces (they differ only for undo/redo reverse operations).
-/
import YorkieModel.Model.Time
namespace Yorkie.Crdt
open Yorkie

/-- the ticket of the root object (`time.InitialTicket`) -/
def rootId : Ticket := ⟨0, 0, 0⟩

/-- winner of an object key: the child and its `PositionedAt` -/
structure Member where
  child : Ticket
  positionedAt : Ticket
deriving DecidableEq, Repr

/-- a position node of `RGATreeList`: its position identity and the element occupying it -/
structure PosNode where
  pos : Ticket
  elem : Option Ticket
deriving DecidableEq, Repr

inductive Body
  /-- primitive; `repr` is its `Marshal()` text (Primitive.Marshal is trusted, see Props) -/
  | prim (repr : String)
  /-- object: sorted key list and `nodeMapByKey` -/
  | obj (keys : List String) (member : String → Option Member)
  /-- array: position nodes in list order (without the dummy head) and `posMovedAt` per element -/
  | arr (nodes : List PosNode) (moved : Ticket → Option Ticket)
  /-- counter: `long = false` ⇒ int32 -/
  | counter (long : Bool) (v : Int)
  /-- element kinds this layer does not interpret (text, tree) -/
  | opaque (repr : String)

structure Elem where
  /-- the container whose by-identity map holds this element -/
  parent : Option Ticket
  removed : Bool
  body : Body

/-- `Root.elementMap` -/
abbrev Doc := Ticket → Option Elem

def Doc.set (d : Doc) (t : Ticket) (e : Elem) : Doc := fun t' => if t' = t then some e else d t'

def emptyObj : Body := .obj [] (fun _ => none)

def Doc.init : Doc := fun t => if t = rootId then some ⟨none, false, emptyObj⟩ else none

/-- values carried by operations: a primitive or a freshly created empty container -/
inductive Val
  | prim (repr : String)
  | newObj
  | newArr
  | newCounter (long : Bool) (v : Int)
  | newOpaque (repr : String)
deriving Repr

def wrap (long : Bool) (v : Int) : Int :=
  if long then v.bmod (2 ^ 64) else v.bmod (2 ^ 32)

def Val.body : Val → Body
  | .prim r => .prim r
  | .newObj => emptyObj
  | .newArr => .arr [] (fun _ => none)
  | .newCounter l v => .counter l (wrap l v)
  | .newOpaque r => .opaque r

inductive Op
  | set (parent : Ticket) (key : String) (val : Val) (ts : Ticket)
  | add (parent prev : Ticket) (val : Val) (ts : Ticket)
  | move (parent prev target ts : Ticket)
  | remove (parent target ts : Ticket)
  | arraySet (parent target : Ticket) (val : Val) (ts : Ticket)
  | increase (parent : Ticket) (delta : Int) (ts : Ticket)

inductive Err | notApplicable | childNotFound | unsupported
deriving DecidableEq, Repr

/-! ### sorted key list -/

def insertKey (k : String) : List String → List String
  | [] => [k]
  | x :: r => if k < x then k :: x :: r else if k = x then x :: r else x :: insertKey k r

/-! ### RGA position list -/

/-- `findNextBeforeExecutedAt` + insertion: skip right while the next node was positioned after
    the new one, then insert (the textbook RGA `insertBody`). -/
def insertSkip (new : PosNode) : List PosNode → List PosNode
  | [] => [new]
  | n :: rest => if n.pos.after new.pos then n :: insertSkip new rest else new :: n :: rest

/-- insert `new` after the node selected by `start` (first match), applying the skip rule. -/
def insertAfterWhere (start : PosNode → Bool) (new : PosNode) : List PosNode → Option (List PosNode)
  | [] => none
  | n :: rest =>
    if start n then some (n :: insertSkip new rest)
    else (insertAfterWhere start new rest).map (n :: ·)

/-- start-node lookup of `RGATreeList.insertAfter`: by position identity first, then by element;
    `prev = rootId`-like head anchors are handled by the caller. -/
def insertAfterNodes (prev : Ticket) (new : PosNode) (nodes : List PosNode) : Option (List PosNode) :=
  if nodes.any (fun n => n.pos = prev) then insertAfterWhere (fun n => n.pos = prev) new nodes
  else insertAfterWhere (fun n => n.elem = some prev) new nodes

/-- the dummy head has the initial ticket as position identity -/
def headId : Ticket := rootId

def insertAfter (prev : Ticket) (new : PosNode) (nodes : List PosNode) : Option (List PosNode) :=
  if prev = headId then some (insertSkip new nodes)
  else insertAfterNodes prev new nodes

/-- `insertPositionAfter`: anchor is looked up by position identity only -/
def insertPosAfter (prev : Ticket) (new : PosNode) (nodes : List PosNode) : Option (List PosNode) :=
  if prev = headId then some (insertSkip new nodes)
  else insertAfterWhere (fun n => n.pos = prev) new nodes

def vacate (target : Ticket) (nodes : List PosNode) : List PosNode :=
  nodes.map (fun n => if n.elem = some target then { n with elem := none } else n)

def holds (nodes : List PosNode) (target : Ticket) : Bool := nodes.any (fun n => n.elem = some target)

/-! ### executor -/

def markRemoved (d : Doc) (target ts : Ticket) : Doc :=
  match d target with
  | some e => if ts.after target then d.set target { e with removed := true } else d
  | none => d

def newElem (parent : Ticket) (v : Val) : Elem := ⟨some parent, false, v.body⟩

def isChildOf (d : Doc) (target parent : Ticket) : Bool :=
  match d target with
  | some e => e.parent == some parent
  | none => false

def applySet (d : Doc) (parent : Ticket) (key : String) (val : Val) (ts : Ticket) : Except Err Doc :=
  match d parent with
  | some pe =>
    match pe.body with
    | .obj keys member =>
      match member key with
      | none =>
        let pe' := { pe with body := .obj (insertKey key keys) (fun k => if k = key then some ⟨ts, ts⟩ else member k) }
        .ok ((d.set ts (newElem parent val)).set parent pe')
      | some m =>
        if ts.after m.positionedAt then
          let pe' := { pe with body := .obj keys (fun k => if k = key then some ⟨ts, ts⟩ else member k) }
          .ok (((markRemoved d m.child ts).set ts (newElem parent val)).set parent pe')
        else
          .ok (d.set ts { newElem parent val with removed := true })
    | _ => .error .notApplicable
  | none => .error .notApplicable

/-! ### array-level transitions (pure functions of the array body) -/

structure ArrSt where
  nodes : List PosNode
  moved : Ticket → Option Ticket

def hasPos (nodes : List PosNode) (t : Ticket) : Bool := nodes.any (fun n => n.pos = t)

/-- `RGATreeList.InsertAfter` of a new element `ts` -/
def arrAdd (prev ts : Ticket) (a : ArrSt) : Option ArrSt :=
  (insertAfter prev ⟨ts, some ts⟩ a.nodes).map (fun ns => { a with nodes := ns })

/-- LWW on `posMovedAt`: the move loses when the element was already moved by a later ticket -/
def movedLoses (moved : Ticket → Option Ticket) (target ts : Ticket) : Bool :=
  match moved target with
  | some m => !(ts.after m)
  | none => false

/-- `RGATreeList.MoveAfter` -/
def arrMove (prev target ts : Ticket) (a : ArrSt) : Option ArrSt :=
  if !(prev = headId || hasPos a.nodes prev) then none
  else if !(holds a.nodes target) then none
  else if movedLoses a.moved target ts then
    if hasPos a.nodes ts then some a
    else (insertPosAfter prev ⟨ts, none⟩ a.nodes).map (fun ns => { a with nodes := ns })
  else
    (insertPosAfter prev ⟨ts, some target⟩ (vacate target a.nodes)).map
      (fun ns => { nodes := ns, moved := fun t => if t = target then some ts else a.moved t })

/-- the list part of `RGATreeList.Set` / `ArraySet.Execute`: insert next to the target -/
def arrSet (target ts : Ticket) (a : ArrSt) : Option ArrSt :=
  if !(holds a.nodes target) then none
  else (insertAfterNodes target ⟨ts, some ts⟩ a.nodes).map (fun ns => { a with nodes := ns })

def applyAdd (d : Doc) (parent prev : Ticket) (val : Val) (ts : Ticket) : Except Err Doc :=
  match d parent with
  | some pe =>
    match pe.body with
    | .arr nodes moved =>
      match arrAdd prev ts ⟨nodes, moved⟩ with
      | some a => .ok ((d.set ts (newElem parent val)).set parent { pe with body := .arr a.nodes a.moved })
      | none => .error .childNotFound
    | _ => .error .notApplicable
  | none => .error .notApplicable

def applyMove (d : Doc) (parent prev target ts : Ticket) : Except Err Doc :=
  match d parent with
  | some pe =>
    match pe.body with
    | .arr nodes moved =>
      if !(isChildOf d target parent) then .error .childNotFound
      else match arrMove prev target ts ⟨nodes, moved⟩ with
        | some a => .ok (d.set parent { pe with body := .arr a.nodes a.moved })
        | none => .error .childNotFound
    | _ => .error .notApplicable
  | none => .error .notApplicable

def applyRemove (d : Doc) (parent target ts : Ticket) : Except Err Doc :=
  match d parent with
  | some pe =>
    match pe.body with
    | .obj _ _ => if isChildOf d target parent then .ok (markRemoved d target ts) else .error .childNotFound
    | .arr nodes _ =>
      if isChildOf d target parent && holds nodes target then .ok (markRemoved d target ts) else .error .childNotFound
    | _ => .error .notApplicable
  | none => .error .notApplicable

def applyArraySet (d : Doc) (parent target : Ticket) (val : Val) (ts : Ticket) : Except Err Doc :=
  match d parent with
  | some pe =>
    match pe.body with
    | .arr nodes moved =>
      if !(isChildOf d target parent) then .error .childNotFound
      else match arrSet target ts ⟨nodes, moved⟩ with
        | some a =>
          .ok (markRemoved ((d.set ts (newElem parent val)).set parent { pe with body := .arr a.nodes a.moved }) target ts)
        | none => .error .childNotFound
    | _ => .error .notApplicable
  | none => .error .notApplicable

def applyIncrease (d : Doc) (parent : Ticket) (delta : Int) : Except Err Doc :=
  match d parent with
  | some pe =>
    match pe.body with
    | .counter long v => .ok (d.set parent { pe with body := .counter long (wrap long (v + delta)) })
    | _ => .error .notApplicable
  | none => .error .notApplicable

/-- `Operation.Execute` (sources local / remote / replay behave alike ts this layer) -/
def execute (d : Doc) : Op → Except Err Doc
  | .set p k v t => applySet d p k v t
  | .add p prev v t => applyAdd d p prev v t
  | .move p prev target t => applyMove d p prev target t
  | .remove p target t => applyRemove d p target t
  | .arraySet p target v t => applyArraySet d p target v t
  | .increase p delta _ => applyIncrease d p delta

/-- total version: a failing operation leaves the document unchanged -/
def apply (d : Doc) (op : Op) : Doc :=
  match execute d op with
  | .ok d' => d'
  | .error _ => d

/-! ### `Marshal()` -/

def joinComma : List String → String
  | [] => ""
  | [x] => x
  | x :: r => x ++ "," ++ joinComma r

/-- `Element.Marshal()` with fuel (nesting depth) -/
def marshal (d : Doc) : Nat → Ticket → String
  | 0, _ => "?"
  | fuel + 1, t =>
    match d t with
    | none => "?"
    | some e =>
      match e.body with
      | .prim r => r
      | .opaque r => r
      | .counter _ v => toString v
      | .obj keys member =>
        let parts := keys.filterMap (fun k =>
          match member k with
          | some m =>
            match d m.child with
            | some ce => if ce.removed then none else some ("\"" ++ k ++ "\":" ++ marshal d fuel m.child)
            | none => none
          | none => none)
        "{" ++ joinComma parts ++ "}"
      | .arr nodes _ =>
        let parts := nodes.filterMap (fun n =>
          match n.elem with
          | some c =>
            match d c with
            | some ce => if ce.removed then none else some (marshal d fuel c)
            | none => none
          | none => none)
        "[" ++ joinComma parts ++ "]"

end Yorkie.Crdt

namespace Yorkie.Crdt

/-- `marshal` that additionally refuses to enter a cell twice on one path. On well-formed
    (acyclic) documents it prints the same text as `marshal`; the drivers use it so that a
    malformed operation stream (which can tie a cell to itself) cannot make printing explode. -/
def marshalV (d : Doc) : Nat → List Ticket → Ticket → String
  | 0, _, _ => "?"
  | fuel + 1, seen, t =>
    if seen.contains t then "?" else
    match d t with
    | none => "?"
    | some e =>
      match e.body with
      | .prim r => r
      | .opaque r => r
      | .counter _ v => toString v
      | .obj keys member =>
        let parts := keys.filterMap (fun k =>
          match member k with
          | some m =>
            match d m.child with
            | some ce => if ce.removed then none else some ("\"" ++ k ++ "\":" ++ marshalV d fuel (t :: seen) m.child)
            | none => none
          | none => none)
        "{" ++ joinComma parts ++ "}"
      | .arr nodes _ =>
        let parts := nodes.filterMap (fun n =>
          match n.elem with
          | some c =>
            match d c with
            | some ce => if ce.removed then none else some (marshalV d fuel (t :: seen) c)
            | none => none
          | none => none)
        "[" ++ joinComma parts ++ "]"

end Yorkie.Crdt
