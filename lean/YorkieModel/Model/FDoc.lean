/-
L1–L3 (faithful layer): the JSON-like document with everything garbage collection and the
snapshot codec read and write.  Used by C03 (GC) and C02 (snapshots).

Go anchors: pkg/document/crdt/{root,object,element_rht,array,rga_tree_list,counter,primitive}.go,
pkg/document/operations/{set,add,move,remove,array_set,increase}.go,
api/converter/{to_bytes,from_bytes}.go (objects, arrays, primitives, counters).

Where Model/Crdt.lean (observable layer) forgets, this layer keeps:
  * `removedAt` / `movedAt` ticket values of every element and `removedAt` of every dead slot;
  * whether an LWW loser was tombstoned (`ElementRHT.SetWithExecutedAt` tombstones a loser only
    when the occupant is live; otherwise the loser stays live but outside `nodeMapByKey`);
  * `nodeMapByCreatedAt` of objects (insertion ordered list) next to `nodeMapByKey`;
  * `Root.gcElementPairMap` / `Root.gcNodePairMap` with the exact registration calls of each
    `Operation.Execute` (`ArraySet` registers nothing for the replaced element; `Remove` on an
    array registers even when `Element.Remove` declined; `RegisterGCPair` toggles).
It models the code that exists, defects included.  One switch records repair (a) (`addAnchorsOnPosition`,
committed in /repo as 13fe0442; the snapshot / deep-copy functions also exist in parameterised form `…P onPos` so
that the repaired defect stays stated).  Repair (b) (json `Array.addInternal` / `MoveLast` anchor) needs no switch:
the json layer is not part of this model (operations are fed).

Representation: Go pointers are creation tickets; `Root.elementMap` is the heap `elems` (association list, first
match wins, insertion ordered).  A Go map is an association list; where Go iterates a map (`toRHTNodes`) the order
is a parameter (`perm`).  `RGATreeList.nodeMapByCreatedAt` / `elementMapByCreatedAt` are derived from the node list
(first node with that position identity / holding that element); the dummy head is implicit (`headId`).
DocSize is not modelled.

Choices on states the code cannot reach (pointer structures the ticket representation cannot express; they do
not affect any reachable state and the engine compares full structural dumps after every step):
  * `purgeBody` on an array drops every node holding the element (Go: the one `positionNode`; at most one exists);
  * `releaseSlot` drops every dead slot with the registry entry's position identity (Go: the one node; position
    identities are unique);
  * `purgeElem` leaves a pair alone whose registered parent is no longer in the heap (Go would purge from the
    detached container; a purged container takes its descendants' registrations with it, so no such pair exists);
  * a registered element without `removedAt` is skipped (Go would dereference nil).
-/
import YorkieModel.Model.Crdt
namespace Yorkie.FDoc
open Yorkie
open Yorkie.Crdt (Op Val Err rootId headId wrap insertKey joinComma)

/-! ### association lists -/

def alGet {α β} [DecidableEq α] : List (α × β) → α → Option β
  | [], _ => none
  | (k, v) :: r, a => if k = a then some v else alGet r a

/-- Go map assignment: replace in place when present, else append -/
def alSet {α β} [DecidableEq α] : List (α × β) → α → β → List (α × β)
  | [], a, b => [(a, b)]
  | (k, v) :: r, a, b => if k = a then (a, b) :: r else (k, v) :: alSet r a b

def alErase {α β} [DecidableEq α] (l : List (α × β)) (a : α) : List (α × β) :=
  List.filter (fun p => !decide (p.1 = a)) l

def alHas {α β} [DecidableEq α] (l : List (α × β)) (a : α) : Bool := (alGet l a).isSome

/-! ### state -/

/-- `RGATreeListNode`: position identity, the element occupying it (none: dead slot), and the
    slot's own `removedAt` (set when a move vacates it / for a losing move's slot) -/
structure PosNode where
  pos : Ticket
  elem : Option Ticket
  removedAt : Option Ticket
deriving DecidableEq, Repr

inductive Body
  | prim (repr : String)
  /-- `nodes`: nodeMapByCreatedAt as (child, key) in insertion order; `byKey`: nodeMapByKey -/
  | obj (nodes : List (Ticket × String)) (byKey : List (String × Ticket))
  /-- `nodes`: linked list without the dummy head; `moved`: `ElementEntry.posMovedAt` -/
  | arr (nodes : List PosNode) (moved : List (Ticket × Ticket))
  | counter (long : Bool) (v : Int)
  | opaque (repr : String)
deriving DecidableEq, Repr

structure Elem where
  parent : Option Ticket
  movedAt : Option Ticket
  removedAt : Option Ticket
  body : Body
deriving DecidableEq, Repr

/-- entry of `gcNodePairMap`: the list (its array), the dead slot and the slot's `removedAt`
    (immutable once set, so caching it here is faithful; Go keeps the node pointer, which stays
    valid even after the array itself was purged) -/
structure GcNode where
  arr : Ticket
  pos : Ticket
  removedAt : Ticket
deriving DecidableEq, Repr

structure Root where
  /-- `elementMap` (and the elements themselves) -/
  elems : List (Ticket × Elem)
  /-- `gcElementPairMap`: removed element ↦ parent container -/
  gcElems : List (Ticket × Ticket)
  /-- `gcNodePairMap`, keyed by the slot's position identity -/
  gcNodes : List GcNode
deriving DecidableEq, Repr

def emptyObj : Body := .obj [] []

def Root.init : Root := ⟨[(rootId, ⟨none, none, none, emptyObj⟩)], [], []⟩

def Root.get (r : Root) (t : Ticket) : Option Elem := alGet r.elems t
def Root.put (r : Root) (t : Ticket) (e : Elem) : Root := { r with elems := alSet r.elems t e }

/-- repair (a), committed in /repo as 13fe0442: `RGATreeList.Add` anchors on the last node's POSITION
    identity (`a.LastCreatedAt()`) instead of `a.last.CreatedAt()`.  `true` = the current tree.  The
    snapshot / deep-copy functions take the flag as a parameter (`…P`) so that the repaired defect stays
    stated (witness at `false`) next to the theorem about the current code (`true`). -/
def addAnchorsOnPosition : Bool := true

def Val.body : Val → Body
  | .prim r => .prim r
  | .newObj => emptyObj
  | .newArr => .arr [] []
  | .newCounter l v => .counter l (wrap l v)
  | .newOpaque r => .opaque r

/-! ### `Element.Remove` -/

/-- the guard shared by `Primitive/Object/Array/Counter.Remove` and `ElementRHTNode.Remove` -/
def canRemove (created : Ticket) (cur : Option Ticket) (at_ : Ticket) : Bool :=
  at_.after created && (match cur with | none => true | some c => at_.after c)

/-- `elem.Remove(at)`; returns the new root and whether the tombstone was (re)written -/
def removeElem (r : Root) (t at_ : Ticket) : Root × Bool :=
  match r.get t with
  | some e => if canRemove t e.removedAt at_ then (r.put t { e with removedAt := some at_ }, true) else (r, false)
  | none => (r, false)

def isRemoved (r : Root) (t : Ticket) : Bool :=
  match r.get t with
  | some e => e.removedAt.isSome
  | none => true

/-- `crdt.PositionedAt(elem)` -/
def positionedAt (r : Root) (t : Ticket) : Ticket :=
  match r.get t with
  | some e => e.movedAt.getD t
  | none => t

def setMovedAt (r : Root) (t m : Ticket) : Root :=
  match r.get t with
  | some e => r.put t { e with movedAt := some m }
  | none => r

/-! ### ElementRHT -/

/-- `ElementRHT.SetWithExecutedAt(k, v, executedAt)` on the object `o`; `v` is already in the heap.
    Returns the evicted live occupant, if any. -/
def rhtSet (r : Root) (o : Ticket) (k : String) (v exec : Ticket) : Root × Option Ticket :=
  match r.get o with
  | some oe =>
    match oe.body with
    | .obj nodes byKey =>
      let nodes' := alSet nodes v k
      match alGet byKey k with
      | none =>
        let r1 := r.put o { oe with body := .obj nodes' (alSet byKey k v) }
        (setMovedAt r1 v exec, none)
      | some occ =>
        if exec.after (positionedAt r occ) then
          let (r1, removed) :=
            if !isRemoved r occ then
              let (r1, ok) := removeElem r occ exec
              (r1, if ok then some occ else none)
            else (r, none)
          match r1.get o with
          | some oe1 =>
            let r2 := r1.put o { oe1 with body := .obj nodes' (alSet byKey k v) }
            (setMovedAt r2 v exec, removed)
          | none => (r1, removed)
        else
          let r1 := r.put o { oe with body := .obj nodes' byKey }
          if !isRemoved r1 occ then ((removeElem r1 v (positionedAt r1 occ)).1, none)
          else (r1, none)
    | _ => (r, none)
  | none => (r, none)

/-- `ElementRHT.purge(elem)` on the object body -/
def rhtPurge (nodes : List (Ticket × String)) (byKey : List (String × Ticket)) (c : Ticket) :
    Option (List (Ticket × String) × List (String × Ticket)) :=
  match alGet nodes c with
  | none => none
  | some k =>
    let byKey' := if alGet byKey k = some c then alErase byKey k else byKey
    some (alErase nodes c, byKey')

/-! ### RGATreeList -/

/-- `RGATreeListNode.PositionedAt()` -/
def nodePositionedAt (moved : List (Ticket × Ticket)) (n : PosNode) : Ticket :=
  match n.elem with
  | some e => (alGet moved e).getD e
  | none => n.pos

/-- `RGATreeListNode.CreatedAt()`: the ELEMENT's identity when the node holds one -/
def nodeCreatedAt (n : PosNode) : Ticket :=
  match n.elem with
  | some e => e
  | none => n.pos

/-- `findNextBeforeExecutedAt` + link: skip right while the next node was positioned after
    `exec`, then insert -/
def insertSkip (moved : List (Ticket × Ticket)) (exec : Ticket) (new : PosNode) : List PosNode → List PosNode
  | [] => [new]
  | n :: rest =>
    if (nodePositionedAt moved n).after exec then n :: insertSkip moved exec new rest
    else new :: n :: rest

def insertAfterWhere (moved : List (Ticket × Ticket)) (exec : Ticket) (start : PosNode → Bool) (new : PosNode) :
    List PosNode → Option (List PosNode)
  | [] => none
  | n :: rest =>
    if start n then some (n :: insertSkip moved exec new rest)
    else (insertAfterWhere moved exec start new rest).map (n :: ·)

def hasPos (nodes : List PosNode) (t : Ticket) : Bool := nodes.any (fun n => n.pos = t)
def holds (nodes : List PosNode) (t : Ticket) : Bool := nodes.any (fun n => n.elem = some t)

/-- start-node lookup of `insertAfter`: `nodeMapByCreatedAt` (position identity, the dummy head
    included) first, then `elementMapByCreatedAt` -/
def insertAfter (moved : List (Ticket × Ticket)) (prev exec : Ticket) (new : PosNode) (nodes : List PosNode) :
    Option (List PosNode) :=
  if prev = headId then some (insertSkip moved exec new nodes)
  else if hasPos nodes prev then insertAfterWhere moved exec (fun n => n.pos = prev) new nodes
  else insertAfterWhere moved exec (fun n => n.elem = some prev) new nodes

/-- `insertPositionAfter`: position identity only -/
def insertPosAfter (moved : List (Ticket × Ticket)) (prev exec : Ticket) (new : PosNode) (nodes : List PosNode) :
    Option (List PosNode) :=
  if prev = headId then some (insertSkip moved exec new nodes)
  else insertAfterWhere moved exec (fun n => n.pos = prev) new nodes

/-- first node satisfying `p` removed (`release` of one node) -/
def eraseFirst (p : PosNode → Bool) : List PosNode → List PosNode
  | [] => []
  | n :: rest => if p n then rest else n :: eraseFirst p rest

/-- `RGATreeList.LastCreatedAt()`: the last node's POSITION identity -/
def lastPos (nodes : List PosNode) : Ticket :=
  match nodes.getLast? with
  | some n => n.pos
  | none => headId

/-- the anchor `RGATreeList.Add` uses: `a.last.CreatedAt()` (before the repair, `onPos = false`) or
    `a.LastCreatedAt()` (`onPos = true`) -/
def lastAnchorP (onPos : Bool) (nodes : List PosNode) : Ticket :=
  match nodes.getLast? with
  | some n => if onPos then n.pos else nodeCreatedAt n
  | none => headId

/-! ### executor (`Operation.Execute`, sources remote / replay / local behave alike here) -/

def newElem (parent : Ticket) (v : Val) : Elem := ⟨some parent, none, none, Val.body v⟩

/-- `RegisterRemovedElementPair` -/
def regRemoved (r : Root) (parent elem : Ticket) : Root := { r with gcElems := alSet r.gcElems elem parent }

/-- `RegisterGCPair`: TOGGLES – registering a key that is present deletes it -/
def regGcNode (r : Root) (g : GcNode) : Root :=
  if r.gcNodes.any (fun x => x.pos = g.pos) then { r with gcNodes := List.filter (fun x => !decide (x.pos = g.pos)) r.gcNodes }
  else { r with gcNodes := r.gcNodes ++ [g] }

/-- `Set.Execute` with separate value identity `created` and execution ticket `exec` (they coincide for
    every operation the json layer or a peer produces; undo/redo reverse operations restore an older
    identity under a fresh `exec`) -/
def applySetAt (r : Root) (parent : Ticket) (key : String) (val : Val) (created exec : Ticket) : Except Err Root :=
  match r.get parent with
  | some pe =>
    match pe.body with
    | .obj _ _ =>
      let r0 := r.put created (newElem parent val)
      let (r1, removed) := rhtSet r0 parent key created exec
      let r2 := match removed with
        | some occ => regRemoved r1 parent occ
        | none => r1
      .ok (if isRemoved r2 created then regRemoved r2 parent created else r2)
    | _ => .error .notApplicable
  | none => .error .notApplicable

def applySet (r : Root) (parent : Ticket) (key : String) (val : Val) (ts : Ticket) : Except Err Root :=
  applySetAt r parent key val ts ts

def applyAdd (r : Root) (parent prev : Ticket) (val : Val) (ts : Ticket) : Except Err Root :=
  match r.get parent with
  | some pe =>
    match pe.body with
    | .arr nodes moved =>
      match insertAfter moved prev ts ⟨ts, some ts, none⟩ nodes with
      | some ns => .ok ((r.put ts (newElem parent val)).put parent { pe with body := .arr ns moved })
      | none => .error .childNotFound
    | _ => .error .notApplicable
  | none => .error .notApplicable

/-- LWW on `posMovedAt` -/
def movedLoses (moved : List (Ticket × Ticket)) (target ts : Ticket) : Bool :=
  match alGet moved target with
  | some m => !(ts.after m)
  | none => false

/-- winner branch after the bare slot `exec` has been linked: vacate the old slot, attach the
    element to the new one -/
def relink (target exec : Ticket) (n : PosNode) : PosNode :=
  if n.elem = some target then { n with elem := none, removedAt := some exec }
  else if n.pos = exec then { n with elem := some target }
  else n

/-- position identity of the slot currently holding `target` -/
def posOf (nodes : List PosNode) (target : Ticket) : Option Ticket :=
  match nodes.find? (fun n => n.elem = some target) with
  | some n => some n.pos
  | none => none

def applyMove (r : Root) (parent prev target ts : Ticket) : Except Err Root :=
  match r.get parent with
  | some pe =>
    match pe.body with
    | .arr nodes moved =>
      if !(prev = headId || hasPos nodes prev) then .error .childNotFound
      else match posOf nodes target with
      | none => .error .childNotFound
      | some oldPos =>
        if movedLoses moved target ts then
          if hasPos nodes ts then .ok r
          else match insertPosAfter moved prev ts ⟨ts, none, some ts⟩ nodes with
            | some ns => .ok (regGcNode (r.put parent { pe with body := .arr ns moved }) ⟨parent, ts, ts⟩)
            | none => .error .childNotFound
        else
          match insertPosAfter moved prev ts ⟨ts, none, none⟩ nodes with
          | some ns =>
            let r1 := r.put parent { pe with body := .arr (ns.map (relink target ts)) (alSet moved target ts) }
            .ok (regGcNode (setMovedAt r1 target ts) ⟨parent, oldPos, ts⟩)
          | none => .error .childNotFound
    | _ => .error .notApplicable
  | none => .error .notApplicable

def applyRemove (r : Root) (parent target ts : Ticket) : Except Err Root :=
  match r.get parent with
  | some pe =>
    match pe.body with
    | .obj nodes _ =>
      if !(alHas nodes target) then .error .childNotFound
      else
        let (r1, ok) := removeElem r target ts
        .ok (if ok then regRemoved r1 parent target else r1)
    | .arr nodes _ =>
      if !(holds nodes target) then .error .childNotFound
      else .ok (regRemoved (removeElem r target ts).1 parent target)
    | _ => .error .notApplicable
  | none => .error .notApplicable

/-- `ArraySet.Execute`: `InsertAfter(target, value, ts)`, `DeleteByCreatedAt(target, ts)`,
    `RegisterElement(value)`; nothing is registered for the replaced element (TODO in the code) -/
def applyArraySet (r : Root) (parent target : Ticket) (val : Val) (ts : Ticket) : Except Err Root :=
  match r.get parent with
  | some pe =>
    match pe.body with
    | .arr nodes moved =>
      match insertAfter moved target ts ⟨ts, some ts, none⟩ nodes with
      | none => .error .childNotFound
      | some ns =>
        if !(holds nodes target) then .error .childNotFound
        else
          let r1 := (r.put ts (newElem parent val)).put parent { pe with body := .arr ns moved }
          .ok (removeElem r1 target ts).1
    | _ => .error .notApplicable
  | none => .error .notApplicable

def applyIncrease (r : Root) (parent : Ticket) (delta : Int) : Except Err Root :=
  match r.get parent with
  | some pe =>
    match pe.body with
    | .counter long v => .ok (r.put parent { pe with body := .counter long (wrap long (v + delta)) })
    | _ => .error .notApplicable
  | none => .error .notApplicable

def fexecute (r : Root) : Op → Except Err Root
  | .set p k v t => applySet r p k v t
  | .add p prev v t => applyAdd r p prev v t
  | .move p prev target t => applyMove r p prev target t
  | .remove p target t => applyRemove r p target t
  | .arraySet p target v t => applyArraySet r p target v t
  | .increase p delta _ => applyIncrease r p delta

/-! ### garbage collection -/

/-- structural children (`Object.Descendants` walks `nodeMapByCreatedAt`, `Array.Descendants`
    walks the nodes that hold an element) -/
def bodyChildren : Body → List Ticket
  | .obj nodes _ => nodes.map (·.1)
  | .arr nodes _ => nodes.filterMap (·.elem)
  | _ => []

def children (r : Root) (t : Ticket) : List Ticket :=
  match r.get t with
  | some e => bodyChildren e.body
  | none => []

/-- `Container.Descendants` (pre-order), fuel = nesting depth -/
def descendants (r : Root) : Nat → Ticket → List Ticket
  | 0, _ => []
  | f + 1, t => (children r t).flatMap (fun c => c :: descendants r f c)

/-- nesting depth bound used for walks -/
def Root.fuel (r : Root) : Nat := r.elems.length + 1

/-- `Container.Purge(elem)` on a body; none = `ErrChildNotFound` (a non-container parent cannot occur).
    For arrays Go releases the one node `elementMapByCreatedAt[c].positionNode`; at most one node holds an
    element, so dropping every node that holds `c` is the same function on reachable states. -/
def purgeBody (b : Body) (c : Ticket) : Option Body :=
  match b with
  | .obj nodes byKey => (rhtPurge nodes byKey c).map (fun p => .obj p.1 p.2)
  | .arr nodes moved =>
    if holds nodes c then some (.arr (List.filter (fun n => !decide (n.elem = some c)) nodes) (alErase moved c)) else none
  | _ => none

def eraseAll (r : Root) (ts : List Ticket) : Root :=
  { r with elems := List.filter (fun p => !(ts.contains p.1)) r.elems,
           gcElems := List.filter (fun p => !(ts.contains p.1)) r.gcElems }

/-- one iteration of the first loop of `Root.GarbageCollect` for the pair `(c, parent)` -/
def purgeElem (v : VV) (r : Root) (c parent : Ticket) : Except Err (Root × Nat) :=
  if !(alHas r.gcElems c) then .ok (r, 0)   -- entry deleted earlier in this pass: not visited
  else match r.get c with
  | none => .ok (r, 0)
  | some ce =>
    match ce.removedAt with
    | none => .ok (r, 0)
    | some ra =>
      if !(v.equalToOrAfter ra) then .ok (r, 0)
      else
        let dead := c :: descendants r r.fuel c
        match r.get parent with
        | none => .ok (r, 0)   -- unreachable: a purged container takes its descendants' registrations with it
        | some pe =>
          match purgeBody pe.body c with
          | none => .error .childNotFound
          | some b => .ok (eraseAll (r.put parent { pe with body := b }) dead, dead.length)

def purgeElems (v : VV) : List (Ticket × Ticket) → Root → Nat → Except Err (Root × Nat)
  | [], r, n => .ok (r, n)
  | (c, p) :: rest, r, n =>
    match purgeElem v r c p with
    | .ok (r', k) => purgeElems v rest r' (n + k)
    | .error e => .error e

/-- `RGATreeList.Purge(deadSlot)` = `release`.  Go unlinks the one node the registry entry points to;
    position identities are unique, so dropping every dead slot with that identity is the same function
    on reachable states. -/
def releaseSlot (r : Root) (g : GcNode) : Root :=
  match r.get g.arr with
  | some ae =>
    match ae.body with
    | .arr nodes moved =>
      r.put g.arr { ae with body := .arr (List.filter (fun n => !(n.pos = g.pos && n.elem.isNone)) nodes) moved }
    | _ => r
  | none => r

def purgeNodes (v : VV) : List GcNode → Root → Nat → Root × Nat
  | [], r, n => (r, n)
  | g :: rest, r, n =>
    if v.equalToOrAfter g.removedAt then
      let r1 := releaseSlot r g
      purgeNodes v rest { r1 with gcNodes := List.filter (fun x => !decide (x.pos = g.pos)) r1.gcNodes } (n + 1)
    else purgeNodes v rest r n

/-- `Root.GarbageCollect(vector)` -/
def garbageCollect (v : VV) (r : Root) : Except Err (Root × Nat) :=
  match purgeElems v r.gcElems r 0 with
  | .ok (r1, n1) => .ok (purgeNodes v r1.gcNodes r1 n1)
  | .error e => .error e

def dedup : List Ticket → List Ticket
  | [] => []
  | t :: r => if r.contains t then dedup r else t :: dedup r

/-- `Root.GarbageLen()` -/
def garbageLen (r : Root) : Nat :=
  (dedup (r.gcElems.flatMap (fun p => p.1 :: descendants r r.fuel p.1))).length + r.gcNodes.length

/-! ### `Marshal()` -/

def liveChild (r : Root) (c : Ticket) : Bool :=
  match r.get c with
  | some ce => ce.removedAt.isNone
  | none => false

/-- `ElementRHT.Elements()`: live occupants of `nodeMapByKey`, keys sorted -/
def liveMembers (r : Root) (byKey : List (String × Ticket)) : List (String × Ticket) :=
  let live := List.filter (fun p => liveChild r p.2) byKey
  (live.foldl (fun acc p => insertKey p.1 acc) []).filterMap (fun k => (alGet live k).map (fun c => (k, c)))

/-- live elements of an array in list order -/
def liveElems (r : Root) (nodes : List PosNode) : List Ticket :=
  nodes.filterMap (fun n => match n.elem with
    | some c => if liveChild r c then some c else none
    | none => none)

def marshalAt (r : Root) : Nat → Ticket → String
  | 0, _ => "?"
  | fuel + 1, t =>
    match r.get t with
    | none => "?"
    | some e =>
      match e.body with
      | .prim s => s
      | .opaque s => s
      | .counter _ v => toString v
      | .obj _ byKey => "{" ++ joinComma ((liveMembers r byKey).map (fun p => "\"" ++ p.1 ++ "\":" ++ marshalAt r fuel p.2)) ++ "}"
      | .arr nodes _ => "[" ++ joinComma ((liveElems r nodes).map (fun c => marshalAt r fuel c)) ++ "]"

def marshal (r : Root) : String := marshalAt r 64 rootId

/-! ### snapshot codec and `DeepCopy` -/

/-- `fromJSONArray` / `Array.DeepCopy`: rebuild the list node by node through `AddDeadPosition`,
    `AddMovedElement` and `Add` (the shared path) -/
def rebuildStepP (onPos : Bool) (moved : List (Ticket × Ticket)) (acc : List PosNode × List (Ticket × Ticket))
    (n : PosNode) : List PosNode × List (Ticket × Ticket) :=
  match n.elem with
  | none =>
    match n.removedAt with
    | some ra => (acc.1 ++ [⟨n.pos, none, some ra⟩], acc.2)
    | none => acc   -- never produced by the code; DeepCopy skips it
  | some e =>
    match alGet moved e with
    | some m => (acc.1 ++ [⟨n.pos, some e, none⟩], alSet acc.2 e m)
    | none =>
      match insertAfter acc.2 (lastAnchorP onPos acc.1) e ⟨e, some e, none⟩ acc.1 with
      | some ns => (ns, acc.2)
      | none => acc   -- unreachable: the anchor is taken from the list itself

def rebuildArrP (onPos : Bool) (nodes : List PosNode) (moved : List (Ticket × Ticket)) :
    List PosNode × List (Ticket × Ticket) :=
  nodes.foldl (rebuildStepP onPos moved) ([], [])

/-- order in which `toRHTNodes` walks `nodeMapByCreatedAt`: the nodes named by `perm` first, in
    that order, then the others in insertion order -/
def orderNodes (perm : List Ticket) (nodes : List (Ticket × String)) : List (Ticket × String) :=
  perm.filterMap (fun t => (alGet nodes t).map (fun k => (t, k))) ++ List.filter (fun p => !(perm.contains p.1)) nodes

/-- `fromJSONObject`: re-`SetWithExecutedAt` every node with its own `PositionedAt` -/
def rebuildObj (perm : List Ticket) (r : Root) (o : Ticket) : Root :=
  match r.get o with
  | some oe =>
    match oe.body with
    | .obj nodes _ =>
      (orderNodes perm nodes).foldl (fun acc p => (rhtSet acc o p.2 p.1 (positionedAt acc p.1)).1)
        (r.put o { oe with body := .obj [] [] })
    | _ => r
  | none => r

def rebuildArrAtP (onPos : Bool) (r : Root) (a : Ticket) : Root :=
  match r.get a with
  | some ae =>
    match ae.body with
    | .arr nodes moved =>
      let p := rebuildArrP onPos nodes moved
      r.put a { ae with body := .arr p.1 p.2 }
    | _ => r
  | none => r

/-- `NewRoot`'s walk: every tombstoned element and every dead slot is registered again -/
def reRegister (r : Root) : Root :=
  let all := descendants r r.fuel rootId
  let gcE := all.filterMap (fun t => match r.get t with
    | some e => if e.removedAt.isSome then e.parent.map (fun p => (t, p)) else none
    | none => none)
  let gcN := (rootId :: all).flatMap (fun t => match r.get t with
    | some e => match e.body with
      | .arr nodes _ => nodes.filterMap (fun n => match n.elem, n.removedAt with
          | none, some ra => some (⟨t, n.pos, ra⟩ : GcNode)
          | _, _ => none)
      | _ => []
    | none => [])
  { r with gcElems := gcE, gcNodes := gcN }

/-- `BytesToSnapshot ∘ SnapshotToBytes` followed by `NewRoot` (struct level, heap form: the wire
    carries, per object, its node list `(key, child)` in walk order and each child's
    `createdAt/movedAt/removedAt`; per array its slot list with `position_created_at /
    position_moved_at` for moved elements and `position_created_at / position_removed_at` for
    dead slots; not: `nodeMapByKey`, the position identity of unmoved elements, the registries).
    Each container's rebuild touches only its own structure and the `movedAt/removedAt` of its
    direct children, so the order in which containers are rebuilt is immaterial. -/
def normP (onPos : Bool) (perm : List Ticket) (r : Root) : Root :=
  let ids := r.elems.map (·.1)
  let r1 := ids.foldl (rebuildObj perm) r
  reRegister (ids.foldl (rebuildArrAtP onPos) r1)

/-- `Root.DeepCopy`: objects are copied structurally (`ElementRHT.DeepCopy`), arrays are rebuilt
    (`Array.DeepCopy`), then `NewRoot` -/
def deepCopyP (onPos : Bool) (r : Root) : Root :=
  reRegister ((r.elems.map (·.1)).foldl (rebuildArrAtP onPos) r)

/-- the current tree -/
def norm (perm : List Ticket) (r : Root) : Root := normP addAnchorsOnPosition perm r
def deepCopy (r : Root) : Root := deepCopyP addAnchorsOnPosition r

/-! ### histories of one replica (used by the property statements) -/

/-- what one replica executes: operations in arrival order, the purges `ApplyChangePack` runs with
    the vector the server handed over, and snapshot round trips -/
inductive Step
  | op (o : Op)
  | gc (v : VV)
  | snap (perm : List Ticket)

/-- `gcOn = false` is the GC-off twin: the same history with no vector handed over -/
def runStep (gcOn : Bool) (r : Root) : Step → Except Err Root
  | .op o => fexecute r o
  | .gc v =>
    if gcOn then
      match garbageCollect v r with
      | .ok p => .ok p.1
      | .error e => .error e
    else .ok r
  | .snap perm => .ok (norm perm r)

def run (gcOn : Bool) : List Step → Root → Except Err Root
  | [], r => .ok r
  | s :: rest, r =>
    match runStep gcOn r s with
    | .ok r' => run gcOn rest r'
    | .error e => .error e

/-- live elements of the array `a` in list order (what `Marshal()` prints for it) -/
def arrayContent (r : Root) (a : Ticket) : List Ticket :=
  match r.get a with
  | some e => match e.body with
    | .arr nodes _ => liveElems r nodes
    | _ => []
  | none => []

end Yorkie.FDoc
