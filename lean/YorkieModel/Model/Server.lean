/-
L5 Server protocol model (one project).

Go anchors (read line by line; comparisons mirrored exactly):
  server/rpc/yorkie_server.go   ActivateClient, DeactivateClient, AttachDocument,
                                DetachDocument, PushPullChanges, RemoveDocument
  server/rpc/cluster_server.go  DetachDocument (used by clients.Deactivate)
  server/clients/clients.go     Activate, Deactivate, AttachDocument, FindActiveClientInfo
  server/backend/database/client_info.go   all status logic
  server/packs/pushpull.go      PushPull and its phases, strip.go, serverpack.go
  server/backend/database/memory/database.go  ActivateClient, TryAttaching, DeactivateClient,
        FindClientInfoByRefKey, UpdateClientInfoAfterPushPull, FindOrCreateDocInfo,
        FindDocInfoByRefKey, FindDocInfosByIDs, CreateChangeInfos,
        FindChangeInfosBetweenServerSeqs, FindLatestChangeInfoByActor,
        updateVersionVector, GetMinVersionVector, IsDocumentAttachedOrAttaching

Structure: every handler loads a DeepCopy `ClientInfo` (`Flight.info`) at its start and mutates
only that copy; the store is written by the phases `pushPack` (log, head, removed flag),
`updateMinVV` (version-vector rows) and `persistClientInfo` (client row), and by `TryAttaching`
/ `DeactivateClient`.  Each phase is a function `Server → Flight → Server × Except ErrKind Flight`
(`Phase`), so an error keeps the store changes made by earlier phases – exactly the fidelity
point behind the C11 defect (push happens before `UpdateDocStatus` can reject).

Modelling decisions (trusted base):
  * ids: clients and documents are numbered by creation order (the server's ObjectIDs increase
    with creation order inside one process; the harness checks that on every trace); actor of a
    client = its client id.
  * a Go map is an association list with unique keys (`AL`).
  * int64/uint32 are unbounded Int/Nat.
  * the snapshot branch of `preparePack` is NOT covered: it is modelled as `snapshot := true`,
    no change list; the harness configures a huge threshold so it never triggers.
  * compaction is not modelled here (epoch fields and every epoch comparison are); see `compact`.
  * `Row.gen`, `ClientDoc.gen` are ghost fields (attachment generation); they never influence
    behaviour (no function below branches on them) and are not printed by the driver.
  * `clients.Deactivate` ranges over a Go map: the order in which it detaches the documents is
    chosen by the runtime.  It is an explicit parameter (`order`) of the request; theorems
    quantify over every order.
-/
import YorkieModel.Model.Time
namespace Yorkie.Server
open Yorkie

/-- ONE-LINE SWITCH.  `false` = pinned tree: `DetachDocument`/`RemoveDocument` call `PushPull`
without checking that the document is attached (C11 defect).  `true` = tree with the fix
`hooks/fix-c11-detach-guard.patch` (guard `EnsureDocumentAttachedOrAttaching` right after
`FindActiveClientInfo` in both handlers).  Only `Server.init` reads it (into `Config`). -/
def detachGuardFirst : Bool := true

/-- ONE-LINE SWITCH.  `false` = pinned tree: `pushPack` stores changes pushed to a document that is
already REMOVED (C11 finding F-C11-push-after-remove).  `true` = tree with
`hooks/fix-c11-push-after-remove.patch` (the pushables are discarded when `currentDocInfo.IsRemoved()`,
the way a stale epoch discards them; the response still carries the removed flag).  Only `Server.init`
reads it (into `Config`). -/
def pushAfterRemoveDiscards : Bool := true

/-- ONE-LINE SWITCH.  `false` = tree before `hooks/fix-c11-deactivate-without-own-change.patch`:
`clusterServer.DetachDocument` gives up with `ErrChangeNotFound` when the memory DB finds no change
of the client at or below its checkpoint (presenceless document, attachment that opted out of
presence, push-only syncs only) – such a client can never be deactivated (C11 finding).  `true` =
tree with the fix: the presence-clear change is built from the initial lamport and an empty vector
(it is presence-only, so neither reaches the log).  Only `Server.init` reads it (into `Config`). -/
def detachWithoutOwnChange : Bool := true

/-- ONE-LINE SWITCH.  `false` = tree before the repair: `preparePack` returns on `SyncModePushOnly` BEFORE
it compares epochs, so after a compaction a push-only sync of a client of the old generation is
answered ok (C10 finding F-C10-stale-pushonly-not-refused).  `true` = tree with
`hooks/fix-c10-stale-pushonly-epoch.patch` (the epoch comparison comes first; the stale push-only sync
is refused with `ErrEpochMismatch` like every other stale sync; the push-only cluster detach still
passes through the detach/remove escape of `pullPack`).  Only `Server.init` reads it (into `Config`). -/
def stalePushOnlyRefused : Bool := true

/-- ONE-LINE SWITCH.  `false` = tree before `hooks/fix-c11-deactivate-holding-removed.patch`: the memory DB's
`FindDocInfosByIDs` skips removed documents, so `clients.Deactivate` of a client that still holds a document
a PEER removed fails on the count (plain error) – and `DB.DeactivateClient` refuses while a document is
attached: such a client can never be deactivated (C11 deviation D1).  `true` = tree with the fix: the lookup
by id returns removed documents too (as the MongoDB implementation does), the removed document is detached
like any other (its pushables are discarded, the response carries the removed flag, the client's entry
becomes detached, its version-vector row goes) and the deactivation completes.  Only `Server.init` reads it
(into `Config`). -/
def deactivateDetachesRemoved : Bool := true

abbrev ClientId := Nat
abbrev DocId := Nat

/-! ### association lists -/

abbrev AL (α : Type) := List (Nat × α)

namespace AL
variable {α : Type}

def get? : AL α → Nat → Option α
  | [], _ => none
  | (k, v) :: r, a => if k = a then some v else get? r a

/-- replace in place, else append (creation order is kept) -/
def set : AL α → Nat → α → AL α
  | [], a, x => [(a, x)]
  | (k, v) :: r, a, x => if k = a then (a, x) :: r else (k, v) :: set r a x

def erase : AL α → Nat → AL α
  | [], _ => []
  | (k, v) :: r, a => if k = a then erase r a else (k, v) :: erase r a

def has (m : AL α) (a : Nat) : Bool := (m.get? a).isSome

end AL

/-! ### data -/

inductive DocStatus
  | attaching | attached | detached | removed
  /-- the zero value `""` of a fresh `&ClientDocInfo{}` (only inside `UpdateClientInfoAfterPushPull`) -/
  | none
deriving DecidableEq, Repr, Inhabited

/-- `database.ClientDocInfo` (+ ghost `gen`) -/
structure ClientDoc where
  status : DocStatus
  serverSeq : Int
  clientSeq : Nat
  epoch : Int
  gen : Nat := 0
deriving DecidableEq, Repr, Inhabited

/-- `database.ClientInfo` -/
structure Client where
  activated : Bool
  docs : AL ClientDoc
deriving Repr, Inhabited

/-- a stored `database.ChangeInfo` -/
structure Row where
  serverSeq : Int
  actor : Actor
  clientSeq : Nat
  lamport : Int
  vv : VV
  hasOps : Bool
  hasPresence : Bool
  tag : Nat
  gen : Nat := 0
deriving DecidableEq, Repr, Inhabited

/-- `database.DocInfo` + its rows in `changes` and `versionvectors` -/
structure Doc where
  key : Nat
  log : List Row
  serverSeq : Int
  epoch : Int
  removed : Bool
  disablePresence : Bool
  vvRows : AL VV
deriving Repr, Inhabited

structure Config where
  removeOnDetach : Bool := false
  snapshotThreshold : Int := 1000000000
  detachGuardFirst : Bool := Server.detachGuardFirst
  pushAfterRemoveDiscards : Bool := Server.pushAfterRemoveDiscards
  detachWithoutOwnChange : Bool := Server.detachWithoutOwnChange
  deactivateDetachesRemoved : Bool := Server.deactivateDetachesRemoved
  stalePushOnlyRefused : Bool := Server.stalePushOnlyRefused
deriving Repr, Inhabited

structure Server where
  cfg : Config
  clients : AL Client
  docs : AL Doc
  nextClient : Nat
  nextDoc : Nat
deriving Repr, Inhabited

def Server.init (cfg : Config := {}) : Server :=
  { cfg := cfg, clients := [], docs := [], nextClient := 0, nextDoc := 0 }

/-- a change as it arrives in a request pack -/
structure ChangeReq where
  clientSeq : Nat
  lamport : Int
  vv : VV
  actor : Actor
  hasOps : Bool
  hasPresence : Bool
  tag : Nat
deriving DecidableEq, Repr, Inhabited

/-- `change.Pack` of a request -/
structure Pack where
  cp : Checkpoint
  changes : List ChangeReq
  vv : VV
  isRemoved : Bool := false
deriving Repr, Inhabited

inductive Request
  | activate
  | deactivate (c : ClientId) (order : List DocId)
  | attach (c : ClientId) (key : Nat) (pack : Pack) (disablePresence disableGC : Bool)
  | pushpull (c : ClientId) (d : DocId) (pack : Pack) (pushOnly disableGC : Bool)
  | detach (c : ClientId) (d : DocId) (pack : Pack)
  | remove (c : ClientId) (d : DocId) (pack : Pack)
deriving Repr, Inhabited

inductive ErrKind
  | clientNotFound | clientNotActivated
  | documentNotAttached | documentNeverAttached | documentAlreadyAttached | documentAlreadyDetached
  | documentNotFound | changeNotFound
  | invalidClientSeq | invalidServerSeq | epochMismatch
  /-- a plain `fmt.Errorf` (connect code `internal`) -/
  | internal
deriving DecidableEq, Repr, Inhabited

structure Resp where
  cp : Checkpoint := Checkpoint.initial
  /-- what is returned, in order -/
  changes : List Row := []
  snapshot : Bool := false
  minVV : Option VV := none
  isRemoved : Bool := false
  /-- `AttachDocumentResponse.DocumentId` -/
  doc : Option DocId := none
  /-- `ActivateClientResponse.ClientId` -/
  client : Option ClientId := none
deriving Repr, Inhabited

/-- `opts.Status` -/
inductive ReqStatus
  | attached | detached | removed
deriving DecidableEq, Repr, Inhabited

/-- the in-flight request record threaded through the phases of `PushPull` -/
structure Flight where
  client : ClientId
  doc : DocId
  /-- the handler's DeepCopy `clientInfo` -/
  info : Client
  pack : Pack
  pushOnly : Bool
  status : ReqStatus
  disableGC : Bool
  /-- `opts.DisablePresence` (read from DocInfo by the handler) -/
  disablePresence : Bool
  -- results of the phases
  pushed : List Row := []
  /-- DocInfo returned by `CreateChangeInfos` -/
  docInfo : Doc := default
  initialSeq : Int := 0
  cpAfterPush : Checkpoint := Checkpoint.initial
  resp : Resp := {}
deriving Repr, Inhabited

/-- the flight a handler hands to `PushPull` -/
def mkFlight (c : ClientId) (d : DocId) (info : Client) (pack : Pack) (pushOnly : Bool) (status : ReqStatus)
    (disableGC disablePresence : Bool) : Flight :=
  { client := c, doc := d, info := info, pack := pack, pushOnly := pushOnly, status := status,
    disableGC := disableGC, disablePresence := disablePresence }

abbrev PhaseResult := Server × Except ErrKind Flight
abbrev Phase := Server → Flight → PhaseResult

/-- sequential composition; an error keeps the store as the failing phase left it -/
def Phase.andThen (p q : Phase) : Phase := fun s f =>
  match p s f with
  | (s', .ok f') => q s' f'
  | (s', .error e) => (s', .error e)

infixl:60 " ⨟ " => Phase.andThen

/-! ### ClientInfo methods (client_info.go) -/

namespace Client

def zeroDoc : ClientDoc := { status := .none, serverSeq := 0, clientSeq := 0, epoch := 0 }

/-- `ClientInfo.Checkpoint` -/
def checkpoint (i : Client) (d : DocId) : Checkpoint :=
  match i.docs.get? d with
  | none => Checkpoint.initial
  | some cd => ⟨cd.serverSeq, cd.clientSeq⟩

def statusOf (i : Client) (d : DocId) : Option DocStatus := (i.docs.get? d).map (·.status)

def genOf (i : Client) (d : DocId) : Nat :=
  match i.docs.get? d with
  | none => 0
  | some cd => cd.gen

/-- `IsAlreadyDetached` -/
def isAlreadyDetached (i : Client) (d : DocId) (alreadyAttached : Bool) : Bool :=
  alreadyAttached && i.statusOf d == some .detached

/-- `IsAttaching` -/
def isAttaching (i : Client) (d : DocId) : Bool := i.statusOf d == some .attaching

/-- `IsAttached` : error `documentNeverAttached` without an entry -/
def isAttached (i : Client) (d : DocId) : Except ErrKind Bool :=
  match i.docs.get? d with
  | none => .error .documentNeverAttached
  | some cd => .ok (cd.status == .attached)

/-- `EnsureDocumentAttached` -/
def ensureAttached (i : Client) (d : DocId) : Except ErrKind Unit :=
  if !i.activated then .error .clientNotActivated
  else if i.statusOf d == some .attached then .ok ()
  else .error .documentNotAttached

/-- `EnsureDocumentAttachedOrAttaching` -/
def ensureAttachedOrAttaching (i : Client) (d : DocId) : Except ErrKind Unit :=
  if !i.activated then .error .clientNotActivated
  else if i.statusOf d == some .attached || i.statusOf d == some .attaching then .ok ()
  else .error .documentNotAttached

/-- `ClientInfo.AttachDocument` (on the in-flight copy) -/
def attachDocument (i : Client) (d : DocId) (alreadyAttached : Bool) (epoch : Int) : Except ErrKind Client :=
  if !i.activated then .error .clientNotActivated
  else if i.isAlreadyDetached d alreadyAttached then .error .documentAlreadyDetached
  else if i.statusOf d == some .attached then .error .documentAlreadyAttached
  else
    let cd : ClientDoc := { status := .attached, serverSeq := 0, clientSeq := 0, epoch := epoch, gen := i.genOf d }
    .ok { i with docs := i.docs.set d cd }

def closeDoc (i : Client) (d : DocId) (st : DocStatus) : Client :=
  match i.docs.get? d with
  | none => i
  | some cd => { i with docs := i.docs.set d { cd with status := st, clientSeq := 0, serverSeq := 0 } }

/-- `ClientInfo.DetachDocument` -/
def detachDocument (i : Client) (d : DocId) : Except ErrKind Client :=
  match i.ensureAttachedOrAttaching d with
  | .error e => .error e
  | .ok _ => .ok (i.closeDoc d .detached)

/-- `ClientInfo.RemoveDocument` -/
def removeDocument (i : Client) (d : DocId) : Except ErrKind Client :=
  match i.ensureAttachedOrAttaching d with
  | .error e => .error e
  | .ok _ => .ok (i.closeDoc d .removed)

/-- `ClientInfo.UpdateCheckpoint` -/
def updateCheckpoint (i : Client) (d : DocId) (cp : Checkpoint) : Except ErrKind Client :=
  match i.docs.get? d with
  | none => .error .documentNeverAttached
  | some cd => .ok { i with docs := i.docs.set d { cd with serverSeq := cp.serverSeq, clientSeq := cp.clientSeq } }

/-- `ClientInfo.UpdateDocStatus` -/
def updateDocStatus (i : Client) (d : DocId) (st : ReqStatus) (cp : Checkpoint) : Except ErrKind Client :=
  match st with
  | .removed => i.removeDocument d
  | .detached => i.detachDocument d
  | .attached => i.updateCheckpoint d cp

end Client

/-! ### store access (memory/database.go) -/

namespace Server

def findDoc (s : Server) (d : DocId) : Option Doc := s.docs.get? d
def setDoc (s : Server) (d : DocId) (x : Doc) : Server := { s with docs := s.docs.set d x }
def findClient (s : Server) (c : ClientId) : Option Client := s.clients.get? c
def setClient (s : Server) (c : ClientId) (x : Client) : Server := { s with clients := s.clients.set c x }

/-- `FindClientInfoByRefKey` + `EnsureActivated` (`clients.FindActiveClientInfo`) -/
def findActiveClient (s : Server) (c : ClientId) : Except ErrKind Client :=
  match s.findClient c with
  | none => .error .clientNotFound
  | some i => if i.activated then .ok i else .error .clientNotActivated

/-- the document with id `d` has this key and is not removed (lookup by id) -/
def keyMatches (s : Server) (key : Nat) (d : DocId) : Bool :=
  match s.findDoc d with
  | some x => x.key == key && !x.removed
  | none => false

/-- `findDocInfoByKey`: the (last) document with this key that is not removed -/
def findDocIdByKey (s : Server) (key : Nat) : Option DocId :=
  ((s.docs.map (·.1)).filter (keyMatches s key)).getLast?

/-- `findDocInfoByID` (used by `FindDocInfosByIDs`): removed documents are invisible -/
def findLiveDoc (s : Server) (d : DocId) : Option Doc :=
  match s.findDoc d with
  | some x => if x.removed then none else some x
  | none => none

/-- what `FindDocInfosByIDs` (used by `clients.Deactivate`) finds for one id -/
def findHeldDoc (s : Server) (d : DocId) : Option Doc :=
  if s.cfg.deactivateDetachesRemoved then s.findDoc d else s.findLiveDoc d

def othersHold (c : ClientId) (d : DocId) (p : Nat × Client) : Bool :=
  p.1 != c && (p.2.statusOf d == some .attached || p.2.statusOf d == some .attaching)

/-- `IsDocumentAttachedOrAttaching(doc, excludeClientID)` -/
def isDocHeldByOther (s : Server) (d : DocId) (c : ClientId) : Bool := s.clients.any (othersHold c d)

def rowByActor (a : Actor) (r : Row) : Bool := r.actor == a
def rowByActorUpTo (a : Actor) (ss : Int) (r : Row) : Bool := r.actor == a && decide (r.serverSeq ≤ ss)

def lowerDocHasActor (d : DocId) (a : Actor) (p : Nat × Doc) : Bool :=
  decide (p.1 < d) && p.2.log.any (rowByActor a)

/-- `FindLatestChangeInfoByActor(doc, actor, serverSeq)` succeeds: the reverse scan of the index
`(doc_id, actor_id, server_seq)` starts at the bound and runs through *all* smaller entries until
it meets one whose actor matches – it does not re-check the document id, so a row of the same
actor in a document with a smaller id also counts. -/
def hasLatestChange (s : Server) (d : DocId) (a : Actor) (ss : Int) : Bool :=
  (match s.findDoc d with
   | some x => x.log.any (rowByActorUpTo a ss)
   | none => false) || s.docs.any (lowerDocHasActor d a)

end Server

/-! ### the phases of `packs.PushPull` -/

/-- `validateClientSeqContinuity` loop -/
def seqsContinuous (cpSeq : Nat) : Nat → List ChangeReq → Bool
  | _, [] => true
  | expected, c :: r =>
    if c.clientSeq ≤ cpSeq then seqsContinuous cpSeq expected r
    else if c.clientSeq ≠ expected then false
    else seqsContinuous cpSeq (expected + 1) r

/-- phase 00 -/
def validateClientSeq : Phase := fun s f =>
  if seqsContinuous (f.info.checkpoint f.doc).clientSeq ((f.info.checkpoint f.doc).clientSeq + 1) f.pack.changes
  then (s, .ok f)
  else (s, .error .invalidClientSeq)

/-- `stripPresenceChanges` (strip.go) -/
def stripChanges : List ChangeReq → List ChangeReq
  | [] => []
  | c :: r =>
    if c.hasPresence then
      if !c.hasOps then stripChanges r else { c with hasPresence := false } :: stripChanges r
    else c :: stripChanges r

/-- phase 01 -/
def stripPresence : Phase := fun s f =>
  if f.disablePresence then (s, .ok { f with pack := { f.pack with changes := stripChanges f.pack.changes } })
  else (s, .ok f)

def isPushable (cpSeq : Nat) (c : ChangeReq) : Bool := decide (c.clientSeq > cpSeq)

def mkRow (gen : Nat) (ss : Int) (c : ChangeReq) : Row :=
  { serverSeq := ss, actor := c.actor, clientSeq := c.clientSeq, lamport := c.lamport, vv := c.vv,
    hasOps := c.hasOps, hasPresence := c.hasPresence, tag := c.tag, gen := gen }

/-- the loop of `CreateChangeInfos`: assign server sequences, forward the checkpoint -/
def assignSeqs (gen : Nat) : Int → Checkpoint → List ChangeReq → List Row × Int × Checkpoint
  | head, cp, [] => ([], head, cp)
  | head, cp, c :: r =>
    let ss := head + 1
    let cp' := (cp.nextServerSeq ss).syncClientSeq c.clientSeq
    let (rows, head', cp'') := assignSeqs gen ss cp' r
    (mkRow gen ss c :: rows, head', cp'')

def epochDiffers (i : Client) (d : DocId) (docEpoch : Int) : Bool :=
  match i.docs.get? d with
  | some cd => cd.epoch != docEpoch
  | none => false

/-- steps 01–02 of `pushPack` before `CreateChangeInfos`: dedup filter, then (only when there is
something to write) epoch test and `checkpoint.serverSeq > doc.serverSeq`; with the repair switch
`cfg.pushAfterRemoveDiscards` the pushables are discarded when the document is already removed -/
def pushablesOf (f : Flight) : List ChangeReq :=
  f.pack.changes.filter (isPushable (f.info.checkpoint f.doc).clientSeq)

def pushGuard (s : Server) (f : Flight) : Except ErrKind (List ChangeReq) :=
  if !(pushablesOf f).isEmpty || f.pack.isRemoved then
    match s.findDoc f.doc with
    | none => .error .documentNotFound
    | some cur =>
      if epochDiffers f.info f.doc cur.epoch then .ok []
      else if f.pack.cp.serverSeq > cur.serverSeq then .error .invalidServerSeq
      else if s.cfg.pushAfterRemoveDiscards && cur.removed then .ok []
      else .ok (pushablesOf f)
  else .ok (pushablesOf f)

/-- `DB.CreateChangeInfos` -/
def createChangeInfos (s : Server) (f : Flight) (pushables : List ChangeReq) : PhaseResult :=
  match s.findDoc f.doc with
  | none => (s, .error .documentNotFound)
  | some doc =>
    let a := assignSeqs (f.info.genOf f.doc) doc.serverSeq (f.info.checkpoint f.doc) pushables
    let doc' := { doc with log := doc.log ++ a.1, serverSeq := a.2.1,
                           removed := doc.removed || f.pack.isRemoved }
    (s.setDoc f.doc doc',
     .ok { f with pushed := a.1, docInfo := doc', initialSeq := a.2.1 - a.1.length, cpAfterPush := a.2.2 })

/-- phase 02 -/
def pushPack : Phase := fun s f =>
  match pushGuard s f with
  | .error e => (s, .error e)
  | .ok pushables => createChangeInfos s f pushables

def inRange (lo hi : Int) (r : Row) : Bool := decide (lo ≤ r.serverSeq) && decide (r.serverSeq ≤ hi)

/-- own-change filter of `pullChangeInfos`: `clientInfo.ID == ActorID && cpAfterPush.ClientSeq >= ClientSeq` -/
def isOwnAcked (c : ClientId) (cpSeq : Nat) (r : Row) : Bool := r.actor == c && decide (cpSeq ≥ r.clientSeq)

/-- filter loop of `pullChangeInfos` -/
def pullFilter (c : ClientId) (cpSeq : Nat) (dp : Bool) : List Row → List Row
  | [] => []
  | r :: rest =>
    if isOwnAcked c cpSeq r then pullFilter c cpSeq dp rest
    else if dp && r.hasPresence then
      if !r.hasOps then pullFilter c cpSeq dp rest
      else { r with hasPresence := false } :: pullFilter c cpSeq dp rest
    else r :: pullFilter c cpSeq dp rest

/-- `FindChangeInfosBetweenServerSeqs(from, to)` on the stored log -/
def findBetween (log : List Row) (lo hi : Int) : List Row :=
  if lo > hi then [] else log.filter (inRange lo hi)

/-- `pullChangeInfos`: reads the store at the time it runs -/
def storedLog (s : Server) (d : DocId) : List Row :=
  match s.findDoc d with
  | some x => x.log
  | none => []

def pullChangeInfos (s : Server) (f : Flight) : Checkpoint × List Row :=
  ((f.cpAfterPush.nextServerSeq f.docInfo.serverSeq),
   pullFilter f.client f.cpAfterPush.clientSeq f.docInfo.disablePresence
     (findBetween (storedLog s f.doc) (f.pack.cp.serverSeq + 1) f.initialSeq))

/-- `preparePack` -/
def preparePackCore (s : Server) (f : Flight) : Except ErrKind Resp :=
  if s.cfg.stalePushOnlyRefused && epochDiffers f.info f.doc f.docInfo.epoch then .error .epochMismatch
  else if f.pushOnly then .ok { cp := ⟨f.pack.cp.serverSeq, f.cpAfterPush.clientSeq⟩ }
  else if epochDiffers f.info f.doc f.docInfo.epoch then .error .epochMismatch
  else if f.initialSeq < f.pack.cp.serverSeq then .error .invalidServerSeq
  else if f.initialSeq - f.pack.cp.serverSeq < s.cfg.snapshotThreshold then
    .ok { cp := (pullChangeInfos s f).1, changes := (pullChangeInfos s f).2 }
  else
    -- pullSnapshot: NOT covered by this model (never reached with the configured threshold)
    .ok { cp := f.cpAfterPush.nextServerSeq f.docInfo.serverSeq, snapshot := true }

/-- phase 03a: `pullPack` step 01 (`preparePack`, the epoch-mismatch escape for detach/remove,
`ApplyDocInfo`) -/
def pullPackResp (s : Server) (f : Flight) : Except ErrKind Resp :=
  match preparePackCore s f with
  | .ok r => .ok r
  | .error e =>
    if e = .epochMismatch ∧ (f.status = .detached ∨ f.status = .removed) then
      .ok { cp := ⟨f.pack.cp.serverSeq, f.cpAfterPush.clientSeq⟩ }
    else .error e

def preparePack : Phase := fun s f =>
  match pullPackResp s f with
  | .error e => (s, .error e)
  | .ok r => (s, .ok { f with resp := { r with isRemoved := f.docInfo.removed } })

/-- phase 03b: `clientInfo.UpdateDocStatus` on the in-flight copy -/
def updateDocStatus : Phase := fun s f =>
  match f.info.updateDocStatus f.doc f.status f.resp.cp with
  | .error e => (s, .error e)
  | .ok i => (s, .ok { f with info := i })

/-- `DB.updateVersionVector` -/
def updateVersionVector (s : Server) (f : Flight) : Except ErrKind Server :=
  match f.info.isAttached f.doc with
  | .error e => .error e
  | .ok att =>
    match s.findDoc f.doc with
    | none => .ok s
    | some doc =>
      if att then .ok (s.setDoc f.doc { doc with vvRows := doc.vvRows.set f.client f.pack.vv })
      else .ok (s.setDoc f.doc { doc with vvRows := doc.vvRows.erase f.client })

/-- `DB.GetMinVersionVector(doc, vector)` -/
def getMinVV (s : Server) (d : DocId) (v : VV) : VV :=
  match s.findDoc d with
  | some doc => minVV (v :: doc.vvRows.map (·.2))
  | none => minVV [v]

/-- phase 03c: `UpdateMinVersionVector` or the DisableGC branch -/
def updateMinVV : Phase := fun s f =>
  if f.disableGC then (s, .ok { f with resp := { f.resp with minVV := none } })
  else
    match updateVersionVector s f with
    | .error e => (s, .error e)
    | .ok s' =>
      (s', .ok (if f.resp.snapshot then f
                else { f with resp := { f.resp with minVV := some (getMinVV s' f.doc f.pack.vv) } }))

/-- `DB.UpdateClientInfoAfterPushPull`: max-merge into the *stored* row -/
def mergeClientDoc (inflight loaded : ClientDoc) : ClientDoc :=
  { status := inflight.status,
    serverSeq := Max.max inflight.serverSeq loaded.serverSeq,
    clientSeq := Max.max inflight.clientSeq loaded.clientSeq,
    epoch := inflight.epoch, gen := inflight.gen }

def persistEntry (cd : ClientDoc) (loaded : Client) (d : DocId) : ClientDoc :=
  if cd.status == .attached then mergeClientDoc cd ((loaded.docs.get? d).getD Client.zeroDoc)
  else { status := cd.status, serverSeq := 0, clientSeq := 0, epoch := 0, gen := cd.gen }

/-- phase 03d -/
def persistClientInfo : Phase := fun s f =>
  match f.info.docs.get? f.doc with
  | none => (s, .error .documentNeverAttached)
  | some cd =>
    match s.findClient f.client with
    | none => (s, .error .clientNotFound)
    | some loaded =>
      (s.setClient f.client { loaded with docs := loaded.docs.set f.doc (persistEntry cd loaded f.doc) }, .ok f)

/-- `packs.PushPull` (without the background snapshot/event step) -/
def pushPull : Phase :=
  validateClientSeq ⨟ stripPresence ⨟ pushPack ⨟ preparePack ⨟ updateDocStatus ⨟
  updateMinVV ⨟ persistClientInfo

def finish (r : PhaseResult) : Server × Except ErrKind Resp :=
  match r with
  | (s, .ok f) => (s, .ok f.resp)
  | (s, .error e) => (s, .error e)

/-! ### handlers -/

abbrev Result := Server × Except ErrKind Resp

/-- `DB.ActivateClient` (a fresh id on every call; the client key is not looked up) -/
def activate (s : Server) : Result :=
  let id := s.nextClient
  ({ s with clients := s.clients.set id { activated := true, docs := [] }, nextClient := id + 1 },
   .ok { client := some id })

/-- `DB.FindOrCreateDocInfo` -/
def findOrCreateDoc (s : Server) (key : Nat) (disablePresence : Bool) : Server × DocId :=
  match s.findDocIdByKey key with
  | some d => (s, d)
  | none =>
    let d := s.nextDoc
    ({ s with docs := s.docs.set d { key := key, log := [], serverSeq := 0, epoch := 0, removed := false,
                                      disablePresence := disablePresence, vvRows := [] },
              nextDoc := d + 1 }, d)

def Client.nextGen (i : Client) (d : DocId) : Nat :=
  match i.docs.get? d with
  | some cd => cd.gen + 1
  | none => 0

def Client.markAttaching (i : Client) (d : DocId) : Client :=
  { i with docs := i.docs.set d { status := .attaching, serverSeq := 0, clientSeq := 0, epoch := 0, gen := i.nextGen d } }

/-- `DB.TryAttaching`: "not activated" and "already attached" are both reported as
`ErrClientNotFound` -/
def tryAttaching (s : Server) (c : ClientId) (d : DocId) : Server × Except ErrKind Client :=
  match s.findClient c with
  | none => (s, .error .clientNotFound)
  | some i =>
    if !i.activated then (s, .error .clientNotFound)
    else if i.statusOf d == some .attached then (s, .error .clientNotFound)
    else (s.setClient c (i.markAttaching d), .ok (i.markAttaching d))

def attachingStep (s : Server) (c : ClientId) (info : Client) (d : DocId) : Server × Except ErrKind Client :=
  if info.isAttaching d then (s, .ok info) else tryAttaching s c d

/-- `clients.AttachDocument` -/
def clientsAttach (s : Server) (c : ClientId) (info : Client) (d : DocId) (docEpoch : Int)
    (isAttached : Bool) : Server × Except ErrKind Client :=
  if info.isAlreadyDetached d isAttached then (s, .error .documentAlreadyDetached)
  else
    match attachingStep s c info d with
    | (s1, .error e) => (s1, .error e)
    | (s1, .ok info1) => (s1, info1.attachDocument d isAttached docEpoch)

/-- `yorkieServer.AttachDocument` after `FindOrCreateDocInfo` -/
def attachWith (s1 : Server) (c : ClientId) (info : Client) (d : DocId) (pack : Pack) (disableGC : Bool) : Result :=
  match s1.findDoc d with
  | none => (s1, .error .documentNotFound)  -- unreachable
  | some doc =>
    match clientsAttach s1 c info d doc.epoch (pack.cp.serverSeq != 0) with
    | (s2, .error e) => (s2, .error e)
    | (s2, .ok info2) =>
      match pushPull s2 (mkFlight c d info2 pack false .attached disableGC doc.disablePresence) with
      | (s3, .ok f) => (s3, .ok { f.resp with doc := some d })
      | (s3, .error e) => (s3, .error e)

/-- `yorkieServer.AttachDocument` -/
def attach (s : Server) (c : ClientId) (key : Nat) (pack : Pack) (disablePresence disableGC : Bool) : Result :=
  match s.findActiveClient c with
  | .error e => (s, .error e)
  | .ok info => attachWith (findOrCreateDoc s key disablePresence).1 c info
      (findOrCreateDoc s key disablePresence).2 pack disableGC

/-- `yorkieServer.PushPullChanges` -/
def pushpullReq (s : Server) (c : ClientId) (d : DocId) (pack : Pack) (pushOnly disableGC : Bool) : Result :=
  match s.findActiveClient c with
  | .error e => (s, .error e)
  | .ok info =>
    match info.ensureAttached d with
    | .error e => (s, .error e)
    | .ok _ =>
      match s.findDoc d with
      | none => (s, .error .documentNotFound)
      | some doc =>
        finish (pushPull s (mkFlight c d info pack pushOnly .attached disableGC doc.disablePresence))

/-- the RemoveOnDetach decision shared by `yorkieServer.DetachDocument` and
`clusterServer.DetachDocument` -/
def detachMode (s : Server) (c : ClientId) (d : DocId) (pack : Pack) : Pack × ReqStatus :=
  if s.cfg.removeOnDetach && !s.isDocHeldByOther d c then ({ pack with isRemoved := true }, .removed)
  else (pack, .detached)

/-- the guard of the candidate fix (consulted only when `cfg.detachGuardFirst`) -/
def detachGuard (s : Server) (info : Client) (d : DocId) : Except ErrKind Unit :=
  if s.cfg.detachGuardFirst then info.ensureAttachedOrAttaching d else .ok ()

/-- `yorkieServer.DetachDocument` -/
def detach (s : Server) (c : ClientId) (d : DocId) (pack : Pack) : Result :=
  match s.findActiveClient c with
  | .error e => (s, .error e)
  | .ok info =>
    match detachGuard s info d with
    | .error e => (s, .error e)
    | .ok _ =>
      match s.findDoc d with
      | none => (s, .error .documentNotFound)
      | some doc =>
        finish (pushPull s (mkFlight c d info (detachMode s c d pack).1 false (detachMode s c d pack).2 false
                             doc.disablePresence))

/-- `yorkieServer.RemoveDocument` (the handler does not set `pack.IsRemoved`; the SDK does) -/
def remove (s : Server) (c : ClientId) (d : DocId) (pack : Pack) : Result :=
  match s.findActiveClient c with
  | .error e => (s, .error e)
  | .ok info =>
    match detachGuard s info d with
    | .error e => (s, .error e)
    | .ok _ =>
      match s.findDoc d with
      | none => (s, .error .documentNotFound)
      | some doc =>
        finish (pushPull s (mkFlight c d info pack false .removed false doc.disablePresence))

/-- the presence-clear change built by `clusterServer.DetachDocument`:
`NewContext(NewID(cp.ClientSeq, …)).ToChange()` of a presence-only context = `prevID.Next(true)` -/
def presenceClear (c : ClientId) (cp : Checkpoint) : ChangeReq :=
  { clientSeq := cp.clientSeq + 1, lamport := 0, vv := [], actor := c, hasOps := false,
    hasPresence := true, tag := 0 }

def clusterPack (c : ClientId) (cp : Checkpoint) : Pack :=
  { cp := cp, changes := [presenceClear c cp], vv := [], isRemoved := false }

/-- `clusterServer.DetachDocument` (push-only `PushPull` with a system-built pack) -/
def clusterDetach (s : Server) (c : ClientId) (d : DocId) : Server × Except ErrKind Unit :=
  match s.findActiveClient c with
  | .error e => (s, .error e)
  | .ok info =>
    if !s.cfg.detachWithoutOwnChange && !s.hasLatestChange d c (info.checkpoint d).serverSeq then
      (s, .error .changeNotFound)
    else
      match s.findDoc d with
      | none => (s, .error .documentNotFound)
      | some doc =>
        match pushPull s (mkFlight c d info (detachMode s c d (clusterPack c (info.checkpoint d))).1 true
                           (detachMode s c d (clusterPack c (info.checkpoint d))).2 false doc.disablePresence) with
        | (s', .ok _) => (s', .ok ())
        | (s', .error e) => (s', .error e)

def clusterDetachAll (c : ClientId) : Server → List DocId → Server × Except ErrKind Unit
  | s, [] => (s, .ok ())
  | s, d :: r =>
    match clusterDetach s c d with
    | (s', .ok _) => clusterDetachAll c s' r
    | (s', .error e) => (s', .error e)

/-- the client's entry for `d` is attached or attaching (lookup by key, as the Go map does) -/
def isOpenAt (i : Client) (d : DocId) : Bool :=
  match i.docs.get? d with
  | some cd => cd.status == .attached || cd.status == .attaching
  | none => false

/-- the documents `clients.Deactivate` will detach, in the order chosen by the runtime:
first those named in `order` (in that order), then the rest in id order -/
def openIds (i : Client) : List DocId := (i.docs.map (·.1)).filter (isOpenAt i)

/-- a Go map has no duplicate keys -/
def dedup : List Nat → List Nat
  | [] => []
  | a :: r => if r.contains a then dedup r else a :: dedup r

def openDocs (i : Client) (order : List DocId) : List DocId :=
  dedup (order.filter (fun d => (openIds i).contains d) ++ (openIds i).filter (fun d => !order.contains d))

/-- `DB.DeactivateClient` -/
def dbDeactivate (s : Server) (c : ClientId) : Result :=
  match s.findClient c with
  | none => (s, .error .clientNotFound)
  | some i =>
    if !i.activated then (s, .error .clientNotFound)
    else if (i.docs.map (·.1)).any (isOpenAt i) then (s, .error .clientNotFound)
    else (s.setClient c { i with activated := false }, .ok {})

/-- `yorkieServer.DeactivateClient` (synchronous) → `clients.Deactivate` -/
def deactivate (s : Server) (c : ClientId) (order : List DocId) : Result :=
  match s.findActiveClient c with
  | .error e => (s, .error e)
  | .ok info =>
    -- a count mismatch of `FindDocInfosByIDs` is a plain error; before the fix it skipped removed documents
    if (openDocs info order).any (fun d => (s.findHeldDoc d).isNone) then (s, .error .internal)
    else
      match clusterDetachAll c s (openDocs info order) with
      | (s', .error e) => (s', .error e)
      | (s', .ok _) => dbDeactivate s' c

/-- Compaction is added by the C10 layer (bumps `epoch`, replaces `log`, resets `serverSeq`,
purges `vvRows`); left as the identity here so nothing depends on it yet. -/
def compact (s : Server) (_d : DocId) (_force : Bool) : Server := s

/-- one request, start to end (sequential semantics) -/
def step (s : Server) : Request → Result
  | .activate => activate s
  | .deactivate c order => deactivate s c order
  | .attach c key pack dp nogc => attach s c key pack dp nogc
  | .pushpull c d pack po nogc => pushpullReq s c d pack po nogc
  | .detach c d pack => detach s c d pack
  | .remove c d pack => remove s c d pack

def run (s : Server) (reqs : List Request) : Server := reqs.foldl (fun s r => (step s r).1) s

/-- responses of a run, in order -/
def runOut : Server → List Request → List (Except ErrKind Resp)
  | _, [] => []
  | s, r :: rest => (step s r).2 :: runOut (step s r).1 rest

end Yorkie.Server
