/-
Presence (client side): the per-document presence map and presence changes.
Go anchors: pkg/document/presence/inner/{presence,change}.go (`Map.Store/Delete`, `Change.Execute`),
pkg/document/internal_document.go `applyChanges`, server/packs/strip.go `stripPresenceChanges`.

A replica's presence map is keyed by actor; a `put` replaces the actor's whole data, a `clear`
deletes the entry. `seen` counts how many presence changes of each actor the replica has applied
(ghost state: it is what makes "the next change of this actor" expressible; the Go code gets the
same guarantee from clientSeq order).
-/
import YorkieModel.Model.Time
namespace Yorkie.Presence
open Yorkie

abbrev PData := List (String × String)

inductive PChange
  | put (d : PData)
  | clear
deriving DecidableEq, Repr

/-- one presence change of `actor`, the `seq`-th (0-based) presence change that actor made -/
structure POp where
  actor : Actor
  seq : Nat
  change : PChange
deriving DecidableEq, Repr

structure PMap where
  /-- `inner.Map.presences` -/
  data : Actor → Option PData
  /-- number of presence changes of each actor applied so far -/
  seen : Actor → Nat

def PMap.init : PMap := { data := fun _ => none, seen := fun _ => 0 }

/-- `inner.Change.Execute` -/
def execute (m : PMap) (op : POp) : PMap :=
  { data := fun a => if a = op.actor then
      (match op.change with
       | .put d => some d
       | .clear => none)
      else m.data a,
    seen := fun a => if a = op.actor then m.seen a + 1 else m.seen a }

/-! ### `stripPresenceChanges` (server side, for documents with disable_presence) -/

/-- a change as the strip function sees it: does it carry operations, does it carry presence -/
structure ChangeShape where
  tag : Nat
  hasOps : Bool
  hasPresence : Bool
deriving DecidableEq, Repr

/-- `stripPresenceChanges`: presence-only changes are dropped, mixed changes lose their presence -/
def strip : List ChangeShape → List ChangeShape
  | [] => []
  | c :: r =>
    if c.hasPresence then
      if !c.hasOps then strip r else { c with hasPresence := false } :: strip r
    else c :: strip r

end Yorkie.Presence
