/-
L3½ (json layer): how the index / key based user API of `pkg/document/json` turns into CRDT
operations on the observable heap model of `Model/Crdt.lean`.

Go anchors: pkg/document/json/object.go (`setInternal`, `Delete`), json/array.go (`addInternal`,
`lastLivePosCreatedAt`, `insertAfterInternal`, `InsertIntegerAfter`, `Delete`, `MoveAfterByIndex`,
`MoveFront`, `MoveLast`, `MoveBefore`, `setByIndexInternal`, `Get`, `Len`), json/counter.go (`Increase`),
pkg/document/change/context.go (`IssueTimeTicket`), pkg/document/crdt/rga_tree_list.go
(`Get`, `LastCreatedAt`, `PosCreatedAt`, `FindPrevCreatedAt`).

What is modelled
  * the ticket a call is given (`Ctx.issue`: lamport of the change being built, the author's
    actor, a delimiter that is incremented BEFORE every ticket; one `Document.Update` = one `Ctx`);
  * the visible structure the index arithmetic reads: `arrLive` (elements whose node is neither a
    dead slot nor holds a tombstone, in list order – what `treelist.Find` by live weight walks),
    `arrLen`, `arrGet`, `lastPos` (`LastCreatedAt`: POSITION identity of the last node, dead slots
    included), `lastLivePos` (`lastLivePosCreatedAt`: position of the last LIVE element – the anchor
    of appends and `MoveLast` since /repo commit eaaab923; before, they anchored on `lastPos`),
    `posOf` (`PosCreatedAt`), `prevOf` (`FindPrevCreatedAt`), `objGet` / `objKeys` (`Has`/`Get`);
  * `callOp`: the operation a call pushes (exact parent, anchor, target, value, ticket), `none`
    for the two calls that return `nil` without issuing a ticket (`Object.Delete` of an absent key,
    `Array.Delete` of an out-of-range index), an error where the Go code panics
    ("index out of bound", nil dereference on an empty array);
  * `localCall`: the call's effect = `apply` of the pushed operations. In the Go code the json
    layer mutates the clone directly (`Object.Set`, `RGATreeList.InsertAfter/MoveAfter/Set/Delete`,
    `Counter.Increase`) and the root receives `Operation.Execute`; in this functional model both are
    the same function, their agreement on the real code is what the `json` engine compares
    (clone `Marshal()` after every call, root `Marshal()` after every update).
Not modelled here: text / tree calls, `SetYSON`, dedup counters, float operands of `Increase`,
GC registries (`RegisterElement`, `RegisterRemovedElementPair`, `RegisterGCPair`).
-/
import YorkieModel.Model.Crdt
namespace Yorkie.Json
open Yorkie Yorkie.Crdt

/-! ### `change.Context`: ticket issue -/

/-- the part of `change.Context` that decides tickets: `nextID.lamport`, `nextID.actor`,
    `delimiter` -/
structure Ctx where
  lamport : Int
  actor : Nat
  delim : Nat
deriving Repr, DecidableEq

/-- the ticket the next `IssueTimeTicket()` returns -/
def Ctx.ticket (c : Ctx) : Ticket := ⟨c.lamport, c.delim + 1, c.actor⟩

/-- `IssueTimeTicket`: `c.delimiter++; return c.nextID.NewTimeTicket(c.delimiter)` -/
def Ctx.issue (c : Ctx) : Ticket × Ctx := (c.ticket, { c with delim := c.delim + 1 })

/-- `change.NewContext(prevID, …)` for a document whose `changeID` has the given lamport/actor -/
def Ctx.begin (lamport : Int) (actor : Nat) : Ctx := ⟨lamport + 1, actor, 0⟩

/-! ### visible structure -/

/-- the element is a heap cell that is not tombstoned -/
def live (d : Doc) (t : Ticket) : Bool :=
  match d t with
  | some e => !e.removed
  | none => false

/-- the live element a position node shows (`!node.IsRemoved()`), if any -/
def nodeLive (d : Doc) (n : PosNode) : Option Ticket :=
  match n.elem with
  | some c => if live d c then some c else none
  | none => none

/-- live elements of a position list, in list order -/
def liveOf (d : Doc) (nodes : List PosNode) : List Ticket := nodes.filterMap (nodeLive d)

def arrNodesOfBody : Body → Option (List PosNode)
  | .arr nodes _ => some nodes
  | _ => none

/-- the position list of the array cell `a` -/
def arrNodes (d : Doc) (a : Ticket) : Option (List PosNode) :=
  match d a with
  | some e => arrNodesOfBody e.body
  | none => none

/-- live elements in list order: what `Get(i)`, `Len()` and `Marshal()` see -/
def arrLive (d : Doc) (a : Ticket) : List Ticket :=
  match arrNodes d a with
  | some nodes => liveOf d nodes
  | none => []

/-- `Array.Len()` -/
def arrLen (d : Doc) (a : Ticket) : Nat := (arrLive d a).length

/-- `Array.Get(idx)` (`nil` when out of range) -/
def arrGet (d : Doc) (a : Ticket) (idx : Nat) : Option Ticket := (arrLive d a)[idx]?

def lastPosFrom : Ticket → List PosNode → Ticket
  | acc, [] => acc
  | _, n :: r => lastPosFrom n.pos r

/-- `RGATreeList.LastCreatedAt()`: position identity of the last node (dead slots and tombstones
    included); the dummy head's ticket for an empty list -/
def lastPos (nodes : List PosNode) : Ticket := lastPosFrom headId nodes

/-- `RGATreeList.PosCreatedAt(elem)`: position identity of the node currently holding `e` -/
def posOf : List PosNode → Ticket → Option Ticket
  | [], _ => none
  | n :: r, e => if n.elem = some e then some n.pos else posOf r e

/-- the anchor `InsertIntegerAfter` / `MoveAfterByIndex` compute from the previous element:
    `PosCreatedAt(prev)`, falling back to the element identity -/
def anchorOf (nodes : List PosNode) (prev : Ticket) : Ticket := (posOf nodes prev).getD prev

/-- `Array.lastLivePosCreatedAt()`: `PosCreatedAt` of the last live element (`Get(Len()-1)`), the
    dummy head's ticket when nothing is live; `LastCreatedAt()` on the (unreachable) error paths -/
def lastLivePos (d : Doc) (nodes : List PosNode) : Ticket :=
  match (liveOf d nodes).getLast? with
  | some e => (posOf nodes e).getD (lastPos nodes)
  | none => headId

def stepPrev (d : Doc) (acc : Ticket) (n : PosNode) : Ticket :=
  if (nodeLive d n).isSome then n.pos else acc

def prevFrom (d : Doc) (e : Ticket) : Ticket → List PosNode → Option Ticket
  | _, [] => none
  | acc, n :: r => if n.elem = some e then some acc else prevFrom d e (stepPrev d acc n) r

/-- `RGATreeList.FindPrevCreatedAt(elem)`: walk left from the node holding `e`, skipping dead
    slots and tombstones; position identity of the first live node met, else the dummy head -/
def prevOf (d : Doc) (nodes : List PosNode) (e : Ticket) : Option Ticket := prevFrom d e headId nodes

def objOfBody : Body → Option (List String × (String → Option Member))
  | .obj keys member => some (keys, member)
  | _ => none

def objBody (d : Doc) (o : Ticket) : Option (List String × (String → Option Member)) :=
  match d o with
  | some e => objOfBody e.body
  | none => none

/-- the live child behind an `ElementRHT` slot -/
def memberLive (d : Doc) : Option Member → Option Ticket
  | some m => if live d m.child then some m.child else none
  | none => none

/-- `Object.Get(k)` / `Has(k)`: the live member of key `k` -/
def objGet (d : Doc) (o : Ticket) (k : String) : Option Ticket :=
  match objBody d o with
  | some (_, member) => memberLive d (member k)
  | none => none

def keyLive (d : Doc) (member : String → Option Member) (k : String) : Bool :=
  (memberLive d (member k)).isSome

/-- the keys `Marshal()` prints, in its (sorted) order -/
def objKeys (d : Doc) (o : Ticket) : List String :=
  match objBody d o with
  | some (keys, member) => List.filter (keyLive d member) keys
  | none => []

def counterOfBody : Body → Option (Bool × Int)
  | .counter long v => some (long, v)
  | _ => none

/-- type (`long`) and value of the counter cell `c` -/
def counterOf (d : Doc) (c : Ticket) : Option (Bool × Int) :=
  match d c with
  | some e => counterOfBody e.body
  | none => none

/-! ### calls -/

/-- one user API call, addressed to a container by its creation ticket. `v : Val` is a primitive
    (`SetInteger`, `AddString`, …) or a fresh empty container (`SetNewObject`, `AddNewArray`,
    `SetNewCounter`, …; `newOpaque` stands for `SetNewText/Tree`). Indices are the user's. -/
inductive Call
  | objSet (obj : Ticket) (key : String) (v : Val)
  | objDelete (obj : Ticket) (key : String)
  | arrAdd (arr : Ticket) (v : Val)
  | arrInsertAfter (arr : Ticket) (idx : Nat) (v : Val)
  | arrDelete (arr : Ticket) (idx : Nat)
  /-- `MoveAfterByIndex(prevIdx, targetIdx)` -/
  | arrMoveAfter (arr : Ticket) (prevIdx targetIdx : Nat)
  /-- `MoveFront(Get(idx).CreatedAt())` -/
  | arrMoveFront (arr : Ticket) (idx : Nat)
  /-- `MoveLast(Get(idx).CreatedAt())` -/
  | arrMoveLast (arr : Ticket) (idx : Nat)
  /-- `MoveBefore(Get(nextIdx).CreatedAt(), Get(targetIdx).CreatedAt())` -/
  | arrMoveBefore (arr : Ticket) (nextIdx targetIdx : Nat)
  /-- `SetInteger(idx, …)` / `SetString(idx, …)` -/
  | arrSet (arr : Ticket) (idx : Nat) (v : Val)
  | cntIncrease (cnt : Ticket) (delta : Int)

namespace Call
abbrev setPrim (o : Ticket) (k repr : String) : Call := .objSet o k (.prim repr)
abbrev setNewObj (o : Ticket) (k : String) : Call := .objSet o k .newObj
abbrev setNewArr (o : Ticket) (k : String) : Call := .objSet o k .newArr
abbrev setNewCounter (o : Ticket) (k : String) (long : Bool) (v : Int) : Call := .objSet o k (.newCounter long v)
abbrev addPrim (a : Ticket) (repr : String) : Call := .arrAdd a (.prim repr)
abbrev addNewObj (a : Ticket) : Call := .arrAdd a .newObj
abbrev addNewArr (a : Ticket) : Call := .arrAdd a .newArr
abbrev addNewCounter (a : Ticket) (long : Bool) (v : Int) : Call := .arrAdd a (.newCounter long v)
end Call

def objDeleteOp (d : Doc) (o : Ticket) (member : String → Option Member) (k : String) (ts : Ticket) :
    Option Op :=
  match memberLive d (member k) with
  | some c => some (.remove o c ts)
  | none => none

def arrInsertOp (d : Doc) (a : Ticket) (nodes : List PosNode) (idx : Nat) (v : Val) (ts : Ticket) :
    Except Err (Option Op) :=
  match (liveOf d nodes)[idx]? with
  | some prev => .ok (some (.add a (anchorOf nodes prev) v ts))
  | none => .error .childNotFound

def arrDeleteOp (d : Doc) (a : Ticket) (nodes : List PosNode) (idx : Nat) (ts : Ticket) : Option Op :=
  match (liveOf d nodes)[idx]? with
  | some t => some (.remove a t ts)
  | none => none

def arrMoveAfterOp (d : Doc) (a : Ticket) (nodes : List PosNode) (i j : Nat) (ts : Ticket) :
    Except Err (Option Op) :=
  match (liveOf d nodes)[i]?, (liveOf d nodes)[j]? with
  | some prev, some target => .ok (some (.move a (anchorOf nodes prev) target ts))
  | _, _ => .error .childNotFound

/-- `moveBeforeInternal(next, target)`: the anchor is `FindPrevCreatedAt(next)` -/
def arrMoveBeforeOp (d : Doc) (a : Ticket) (nodes : List PosNode) (i j : Nat) (ts : Ticket) :
    Except Err (Option Op) :=
  match (liveOf d nodes)[i]?, (liveOf d nodes)[j]? with
  | some next, some target =>
    match prevOf d nodes next with
    | some prev => .ok (some (.move a prev target ts))
    | none => .error .childNotFound
  | _, _ => .error .childNotFound

def arrMoveLastOp (d : Doc) (a : Ticket) (nodes : List PosNode) (j : Nat) (ts : Ticket) :
    Except Err (Option Op) :=
  match (liveOf d nodes)[j]? with
  | some target => .ok (some (.move a (lastLivePos d nodes) target ts))
  | none => .error .childNotFound

def arrSetOp (d : Doc) (a : Ticket) (nodes : List PosNode) (idx : Nat) (v : Val) (ts : Ticket) :
    Except Err (Option Op) :=
  match (liveOf d nodes)[idx]? with
  | some target => .ok (some (.arraySet a target v ts))
  | none => .error .childNotFound

/-- the operation the call pushes when the context hands it ticket `ts`:
    `.ok none` = the call returns without issuing a ticket; `.error` = the Go code panics -/
def callOp (d : Doc) (ts : Ticket) : Call → Except Err (Option Op)
  | .objSet o k v =>
    match objBody d o with
    | some _ => .ok (some (.set o k v ts))
    | none => .error .notApplicable
  | .objDelete o k =>
    match objBody d o with
    | some (_, member) => .ok (objDeleteOp d o member k ts)
    | none => .error .notApplicable
  | .arrAdd a v =>
    match arrNodes d a with
    | some nodes => .ok (some (.add a (lastLivePos d nodes) v ts))
    | none => .error .notApplicable
  | .arrInsertAfter a idx v =>
    match arrNodes d a with
    | some nodes => arrInsertOp d a nodes idx v ts
    | none => .error .notApplicable
  | .arrDelete a idx =>
    match arrNodes d a with
    | some nodes => .ok (arrDeleteOp d a nodes idx ts)
    | none => .error .notApplicable
  | .arrMoveAfter a i j =>
    match arrNodes d a with
    | some nodes => arrMoveAfterOp d a nodes i j ts
    | none => .error .notApplicable
  | .arrMoveFront a j =>
    match arrNodes d a with
    | some nodes => arrMoveBeforeOp d a nodes 0 j ts
    | none => .error .notApplicable
  | .arrMoveLast a j =>
    match arrNodes d a with
    | some nodes => arrMoveLastOp d a nodes j ts
    | none => .error .notApplicable
  | .arrMoveBefore a i j =>
    match arrNodes d a with
    | some nodes => arrMoveBeforeOp d a nodes i j ts
    | none => .error .notApplicable
  | .arrSet a idx v =>
    match arrNodes d a with
    | some nodes => arrSetOp d a nodes idx v ts
    | none => .error .notApplicable
  | .cntIncrease c delta =>
    match counterOf d c with
    -- `Increase` converts the operand to the counter's own type before building the operation
    | some (long, _) => .ok (some (.increase c (wrap long delta) ts))
    | none => .error .notApplicable

/-- pairing the operation with the ticket bookkeeping -/
def withCtx (ctx : Ctx) : Except Err (Option Op) → Except Err (List Op × Ctx)
  | .ok (some op) => .ok ([op], ctx.issue.2)
  | .ok none => .ok ([], ctx)
  | .error e => .error e

/-- the operations (tickets included) the json layer pushes for one call, and the context after -/
def callOps (d : Doc) (ctx : Ctx) (c : Call) : Except Err (List Op × Ctx) :=
  withCtx ctx (callOp d ctx.ticket c)

def applyOps (d : Doc) (ops : List Op) : Doc := ops.foldl apply d

structure Out where
  doc : Doc
  ctx : Ctx
  ops : List Op

def outOf (d : Doc) : List Op × Ctx → Out
  | (ops, ctx) => ⟨applyOps d ops, ctx, ops⟩

/-- one call on a document: the pushed operations, applied -/
def localCall (d : Doc) (ctx : Ctx) (c : Call) : Except Err Out :=
  (callOps d ctx c).map (outOf d)

/-- a whole updater (the callback of one `Document.Update`): the calls run in order on the clone,
    threading the context; the first panicking call aborts everything -/
def runCalls (d : Doc) (ctx : Ctx) : List Call → Except Err Out
  | [] => .ok ⟨d, ctx, []⟩
  | c :: r =>
    match localCall d ctx c with
    | .error e => .error e
    | .ok o =>
      match runCalls o.doc o.ctx r with
      | .error e => .error e
      | .ok o' => .ok ⟨o'.doc, o'.ctx, o.ops ++ o'.ops⟩

/-- `Change.Execute` on the root: every operation in order, the first error aborts -/
def execAll (d : Doc) : List Op → Except Err Doc
  | [] => .ok d
  | op :: r =>
    match execute d op with
    | .ok d' => execAll d' r
    | .error e => .error e

/-! ### strict variant for the compiled driver (a heap in a structure, see `Document.Box`) -/

structure Box where
  d : Doc

def applyB (b : Box) (op : Op) : Box :=
  match execute b.d op with
  | .ok d' => ⟨d'⟩
  | .error _ => b

def applyOpsB (b : Box) (ops : List Op) : Box := ops.foldl applyB b

structure OutB where
  doc : Box
  ctx : Ctx
  ops : List Op

def outOfB (b : Box) : List Op × Ctx → OutB
  | (ops, ctx) => ⟨applyOpsB b ops, ctx, ops⟩

def localCallB (b : Box) (ctx : Ctx) (c : Call) : Except Err OutB :=
  (callOps b.d ctx c).map (outOfB b)

end Yorkie.Json
