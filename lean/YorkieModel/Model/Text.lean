/-
L1 Text: block-level model of `crdt.Text` over `RGATreeSplit` (core Lean only).

Go anchors: pkg/document/crdt/rga_tree_split.go (node ids, `findFloorNodePreferToLeft`,
`findNodeWithSplit`, `splitNode`, `edit`, `findBetween`, `deleteNodes`, `RGATreeSplitNode.Remove`,
`canStyle`), pkg/document/crdt/text.go (`TextValue.Split/Marshal`, `Text.Edit/Style/RemoveStyle/
Marshal/String`), pkg/document/crdt/rht.go (`RHT.Set/Remove/Marshal`), pkg/document/crdt/strings.go
(`EscapeString`), pkg/splay `FindForText` (through its sequential specification `posOfIndex`).

Modelling decisions (trusted base):
  * the doubly linked list `initialHead → … ` is a `List TNode` in list order, the initial head
    included as the first element (so positions that refer to the head need no special case);
  * Go node pointers are node ids; this is faithful as long as ids are unique, which is part of the
    invariant `WF` proved to be preserved (Lemmas/Text.lean);
  * `insNext` is not stored: it is "the node whose `insPrev` is me" (Go keeps the two in sync);
  * the LLRB `treeByID` is used through its specification (`findFloor`: same `createdAt`, greatest
    offset ≤ the query), the splay `treeByIndex` through prefix sums of live lengths (`posOfIndex`);
  * a text value is its list of UTF-16 code units; Go stores a UTF-8 string and re-decodes on every
    `TextValue.Split`, so a split inside a surrogate pair turns both halves into U+FFFD: `sanitize`;
  * GC (`Purge`, `pendingGCPairs`), `DataSize`, and the undo/redo paths `restore`/`retombstone`/
    `refinePos`/`normalizePos` are not modelled (operations carrying restore spans are `unsupported`).
-/
import YorkieModel.Model.Time
namespace Yorkie.Text
open Yorkie

/-- `RGATreeSplitNodeID`: `(createdAt, offset)` -/
abbrev Id := Ticket × Nat

/-- `RHTNode` -/
structure AttrNode where
  key : String
  val : String
  updatedAt : Ticket
  removed : Bool
deriving DecidableEq, Repr

/-- `RGATreeSplitNode[*TextValue]` -/
structure TNode where
  id : Id
  /-- UTF-16 code units of `TextValue.value` -/
  units : List Nat
  removedAt : Option Ticket
  /-- `TextValue.attrs.nodeMapByKey` as an association list (unique keys) -/
  attrs : List AttrNode
  insPrev : Option Id
deriving DecidableEq, Repr

/-- the linked list starting at (and including) `initialHead` -/
abbrev TextSt := List TNode

/-- `RGATreeSplitNodePos` -/
structure Pos where
  id : Id
  rel : Nat
deriving DecidableEq, Repr

inductive Err | notFound | offsetRange | unsupported
deriving DecidableEq, Repr

/-- `initialNodeID = (time.InitialTicket, 0)` -/
def headId : Id := (⟨0, 0, 0⟩, 0)

def headNode : TNode := { id := headId, units := [], removedAt := none, attrs := [], insPrev := none }

/-- `NewRGATreeSplit(InitialTextNode())` -/
def init : TextSt := [headNode]

def TNode.len (n : TNode) : Nat := n.units.length          -- contentLen()
def TNode.live (n : TNode) : Bool := n.removedAt.isNone
def TNode.liveLen (n : TNode) : Nat := if n.live then n.len else 0   -- Len()

/-! ### UTF-16 -/

def isHigh (u : Nat) : Bool := 0xD800 ≤ u && u < 0xDC00
def isLow (u : Nat) : Bool := 0xDC00 ≤ u && u < 0xE000
def isSurr (u : Nat) : Bool := 0xD800 ≤ u && u < 0xE000

def fixUnit (u : Nat) : Nat := if isSurr u then 0xFFFD else u

/-- `utf16.Encode([]rune(string(utf16.Decode(u))))`: every unpaired surrogate becomes U+FFFD -/
def sanitize : List Nat → List Nat
  | [] => []
  | [h] => [fixUnit h]
  | h :: l :: r =>
    if isHigh h && isLow l then h :: l :: sanitize r
    else fixUnit h :: sanitize (l :: r)

/-- `utf16.Decode` -/
def decodeU16 : List Nat → List Nat
  | [] => []
  | [h] => [fixUnit h]
  | h :: l :: r =>
    if isHigh h && isLow l then (0x10000 + (h - 0xD800) * 0x400 + (l - 0xDC00)) :: decodeU16 r
    else fixUnit h :: decodeU16 (l :: r)

/-- `utf16.Encode` of one rune (runes of a valid Go string are never surrogates) -/
def encodeRune (cp : Nat) : List Nat :=
  if cp < 0x10000 then [cp] else [0xD800 + (cp - 0x10000) / 0x400, 0xDC00 + (cp - 0x10000) % 0x400]

def unitsOfString (s : String) : List Nat := s.toList.flatMap (fun c => encodeRune c.toNat)
def stringOfUnits (u : List Nat) : String := String.ofList ((decodeU16 u).map Char.ofNat)

/-! ### attribute register (`RHT`) -/

def attrGet : List AttrNode → String → Option AttrNode
  | [], _ => none
  | a :: r, k => if a.key = k then some a else attrGet r k

def attrPut : List AttrNode → AttrNode → List AttrNode
  | [], n => [n]
  | a :: r, n => if a.key = n.key then n :: r else a :: attrPut r n

/-- `RHT.Set` -/
def rhtSet (as : List AttrNode) (k v : String) (t : Ticket) : List AttrNode :=
  match attrGet as k with
  | none => attrPut as ⟨k, v, t, false⟩
  | some node => if t.after node.updatedAt then attrPut as ⟨k, v, t, false⟩ else as

/-- `RHT.Remove` -/
def rhtRemove (as : List AttrNode) (k : String) (t : Ticket) : List AttrNode :=
  match attrGet as k with
  | none => attrPut as ⟨k, "", t, true⟩
  | some node => if t.after node.updatedAt then attrPut as ⟨k, node.val, t, true⟩ else as

def rhtSetAll (as : List AttrNode) (kvs : List (String × String)) (t : Ticket) : List AttrNode :=
  kvs.foldl (fun a kv => rhtSet a kv.1 kv.2 t) as

def rhtRemoveAll (as : List AttrNode) (ks : List String) (t : Ticket) : List AttrNode :=
  ks.foldl (fun a k => rhtRemove a k t) as

/-! ### lookup by id (`treeByID`, by its specification) -/

def better (n : TNode) (q : Id) : Bool := n.id.1 = q.1 && n.id.2 ≤ q.2

/-- `findFloorNode`: the node with the query's `createdAt` and the greatest offset ≤ the query's -/
def findFloor : TextSt → Id → Option TNode
  | [], _ => none
  | n :: r, q =>
    match findFloor r q with
    | some b => if better n q && b.id.2 < n.id.2 then some n else some b
    | none => if better n q then some n else none

def findById : TextSt → Id → Option TNode
  | [], _ => none
  | n :: r, i => if n.id = i then some n else findById r i

/-- `findFloorNodePreferToLeft` -/
def findFloorPreferLeft (s : TextSt) (q : Id) : Option TNode :=
  match findFloor s q with
  | none => none
  | some node =>
    if 0 < q.2 && node.id.2 = q.2 then
      match node.insPrev with
      | none => some node
      | some p => findById s p
    else some node

/-! ### split -/

/-- `insNext.SetInsPrev(splitNode)` seen from the `insNext` node -/
def relink (old new : Id) (n : TNode) : TNode :=
  if n.insPrev = some old then { n with insPrev := some new } else n

/-- `TextValue.Split` on the receiver (left part) -/
def truncate (i : Id) (k : Nat) (n : TNode) : TNode :=
  if n.id = i then { n with units := sanitize (n.units.take k) } else n

/-- `InsertAfter(prev, node)` on the linked list -/
def insertAfterId : TextSt → Id → TNode → TextSt
  | [], _, _ => []
  | n :: r, i, new => if n.id = i then n :: new :: r else n :: insertAfterId r i new

/-- `RGATreeSplitNode.split`: the right part inherits `removedAt`, gets a deep copy of the attributes -/
def rightPart (node : TNode) (k : Nat) : TNode :=
  { id := (node.id.1, node.id.2 + k), units := sanitize (node.units.drop k),
    removedAt := node.removedAt, attrs := node.attrs, insPrev := some node.id }

/-- `splitNode(node, k)` (the caller has checked `k ≤ node.len`) -/
def splitNode (s : TextSt) (node : TNode) (k : Nat) : TextSt :=
  if k = 0 || k = node.len then s
  else
    let right := rightPart node k
    insertAfterId ((s.map (relink node.id right.id)).map (truncate node.id k)) node.id right

/-- the node with the given id and the list after it (`node`, `node.next …`) -/
def locate : TextSt → Id → Option (TNode × List TNode)
  | [], _ => none
  | n :: r, i => if n.id = i then some (n, r) else locate r i

/-- `for node.next != nil && node.next.createdAt().After(updatedAt) { node = node.next }` -/
def skipFrom (ts : Ticket) : TNode → List TNode → TNode × Option TNode
  | cur, [] => (cur, none)
  | cur, nx :: r => if nx.id.1.after ts then skipFrom ts nx r else (cur, some nx)

/-- `findNodeWithSplit`: new list, id of the left node, id of the right node -/
def findNodeWithSplit (s : TextSt) (pos : Pos) (ts : Ticket) : Except Err (TextSt × Id × Option Id) :=
  let q : Id := (pos.id.1, pos.id.2 + pos.rel)
  match findFloorPreferLeft s q with
  | none => .error .notFound
  | some node =>
    if q.2 < node.id.2 then .error .offsetRange
    else if q.2 - node.id.2 > node.len then .error .offsetRange
    else
      let s1 := splitNode s node (q.2 - node.id.2)
      match locate s1 node.id with
      | none => .error .notFound
      | some (cur, rest) =>
        let lr := skipFrom ts cur rest
        .ok (s1, lr.1.id, lr.2.map (·.id))

/-! ### edit -/

/-- `len(vector) == 0` -/
def isLocal (vv : Option VV) : Bool :=
  match vv with
  | none => true
  | some v => v.isEmpty

/-- `isLocal || (l, ok := vector.Get(t.ActorID()); ok && l >= t.Lamport())` -/
def known (vv : Option VV) (t : Ticket) : Bool :=
  match vv with
  | none => true
  | some v => v.isEmpty || v.equalToOrAfter t

/-- `deleteNodes` body for one candidate, `RGATreeSplitNode.Remove` inlined -/
def removeNode (ts : Ticket) (vv : Option VV) (n : TNode) : TNode :=
  if !(known vv n.id.1) then n
  else
    match n.removedAt with
    | none => { n with removedAt := some ts }
    | some r => if !(known vv r) && ts.after r then { n with removedAt := some ts } else n

/-- `findBetween(from, to)`: ids from `from` up to (excluding) `to` or the end of the list -/
def between (s : TextSt) (fr to : Option Id) : List Id :=
  match fr with
  | none => []
  | some f =>
    match locate s f with
    | none => []
    | some (n, rest) => ((n :: rest).takeWhile (fun m => some m.id != to)).map (·.id)

/-- the node `Text.Edit` builds: `NewTextValue(content, attrs set at executedAt)` with id `(editedAt, 0)` -/
def newNode (ts : Ticket) (content : List Nat) (attrs : List (String × String)) : TNode :=
  { id := (ts, 0), units := content, removedAt := none, attrs := rhtSetAll [] attrs ts, insPrev := none }

def applyTo (ids : List Id) (f : TNode → TNode) (n : TNode) : TNode :=
  if ids.contains n.id then f n else n

/-- `Text.Edit` / `RGATreeSplit.edit`; `vv = none` or empty is the local (json layer) call -/
def edit (fr to : Pos) (content : List Nat) (attrs : List (String × String)) (ts : Ticket)
    (vv : Option VV) (s : TextSt) : Except Err TextSt :=
  match findNodeWithSplit s to ts with
  | .error e => .error e
  | .ok (s1, _, toRight) =>
    match findNodeWithSplit s1 fr ts with
    | .error e => .error e
    | .ok (s2, fromLeft, fromRight) =>
      let s3 := s2.map (applyTo (between s2 fromRight toRight) (removeNode ts vv))
      if content.isEmpty then .ok s3
      else .ok (insertAfterId s3 fromLeft (newNode ts content attrs))

/-! ### style -/

/-- `clientLamportAtChange` and `canStyle` -/
def canStyle (ts : Ticket) (vv : Option VV) (n : TNode) : Bool :=
  let existed :=
    match vv with
    | none => true
    | some v => v.isEmpty || decide (n.id.1.lamport ≤ v.versionOf n.id.1.actor)
  existed && (match n.removedAt with
    | none => true
    | some r => ts.after r)

def styleNode (ts : Ticket) (vv : Option VV) (f : List AttrNode → List AttrNode) (n : TNode) : TNode :=
  if canStyle ts vv n then { n with attrs := f n.attrs } else n

def styleWith (fr to : Pos) (f : List AttrNode → List AttrNode) (ts : Ticket) (vv : Option VV)
    (s : TextSt) : Except Err TextSt :=
  match findNodeWithSplit s to ts with
  | .error e => .error e
  | .ok (s1, _, toRight) =>
    match findNodeWithSplit s1 fr ts with
    | .error e => .error e
    | .ok (s2, _, fromRight) =>
      .ok (s2.map (applyTo (between s2 fromRight toRight) (styleNode ts vv f)))

/-- `Text.Style` -/
def style (fr to : Pos) (attrs : List (String × String)) (ts : Ticket) (vv : Option VV)
    (s : TextSt) : Except Err TextSt :=
  styleWith fr to (fun a => rhtSetAll a attrs ts) ts vv s

/-- `Text.RemoveStyle` -/
def removeStyle (fr to : Pos) (keys : List String) (ts : Ticket) (vv : Option VV)
    (s : TextSt) : Except Err TextSt :=
  styleWith fr to (fun a => rhtRemoveAll a keys ts) ts vv s

/-- `operations.Style.Execute`: removal first, then setting; each only when non-empty -/
def styleOp (fr to : Pos) (attrs : List (String × String)) (keys : List String) (ts : Ticket)
    (vv : Option VV) (s : TextSt) : Except Err TextSt :=
  match (if keys.isEmpty then .ok s else removeStyle fr to keys ts vv s) with
  | .error e => .error e
  | .ok s1 => if attrs.isEmpty then .ok s1 else style fr to attrs ts vv s1

/-! ### index → position (`CreateRange` → `FindForText`, by its specification) -/

/-- first live node `n` with `prefix(n) < i ≤ prefix(n) + len(n)`; `i > 0` -/
def findPos : TextSt → Nat → Option Pos
  | [], _ => none
  | n :: r, i =>
    if n.live && decide (i ≤ n.len) then some ⟨n.id, i⟩
    else findPos r (i - n.liveLen)

/-- `findNodePos(index)`: index 0 is the head with offset 0, a boundary resolves to the left node -/
def posOfIndex (s : TextSt) (i : Nat) : Option Pos :=
  match s with
  | [] => none
  | h :: _ => if i = 0 then some ⟨h.id, 0⟩ else findPos s i

/-! ### observations -/

/-- concatenation of the code units of the live nodes -/
def visible : TextSt → List Nat
  | [] => []
  | n :: r => if n.live then n.units ++ visible r else visible r

/-- live UTF-16 length (`treeByIndex.Len()`) -/
def length (s : TextSt) : Nat := (visible s).length

/-- the nodes `Text.Marshal`/`Text.String` print: after the head, live, and (a quirk of the Go code)
    not created by the ticket that created the Text element itself -/
def shown (tc : Ticket) (s : TextSt) : List TNode :=
  List.filter (fun n => n.id.1.cmp tc != .eq && n.live) (s.drop 1)

/-- `Text.String()` -/
def toString (tc : Ticket) (s : TextSt) : String :=
  String.join ((shown tc s).map (fun n => stringOfUnits n.units))

def hexDigit (n : Nat) : Char := "0123456789abcdef".toList.getD n '0'

/-- `EscapeString`, per character (bytes ≥ 0x80 pass through, so per byte = per character) -/
def escapeChar (c : Char) : String :=
  if c = '\\' then "\\\\"
  else if c = '"' then "\\\""
  else if c.toNat ≥ 0x20 then c.toString
  else if c = '\n' then "\\n"
  else if c.toNat = 0x0C then "\\f"
  else if c.toNat = 0x08 then "\\b"
  else if c = '\r' then "\\r"
  else if c = '\t' then "\\t"
  else "\\u00" ++ String.ofList [hexDigit (c.toNat / 16), hexDigit (c.toNat % 16)]

def escapeString (s : String) : String := String.join (s.toList.map escapeChar)

def insertAttr (a : AttrNode) : List AttrNode → List AttrNode
  | [] => [a]
  | b :: r => if a.key < b.key then a :: b :: r else b :: insertAttr a r

def sortAttrs (as : List AttrNode) : List AttrNode := as.foldr insertAttr []

def liveAttrs (as : List AttrNode) : List AttrNode := sortAttrs (List.filter (fun a => !a.removed) as)

def joinComma : List String → String
  | [] => ""
  | [x] => x
  | x :: r => x ++ "," ++ joinComma r

/-- `RHT.Marshal` -/
def marshalAttrs (as : List AttrNode) : String :=
  "{" ++ joinComma ((liveAttrs as).map (fun a =>
    "\"" ++ escapeString a.key ++ "\":\"" ++ escapeString a.val ++ "\"")) ++ "}"

/-- `TextValue.Marshal` -/
def marshalNode (n : TNode) : String :=
  if (liveAttrs n.attrs).isEmpty then "{\"val\":\"" ++ escapeString (stringOfUnits n.units) ++ "\"}"
  else "{\"attrs\":" ++ marshalAttrs n.attrs ++ ",\"val\":\"" ++ escapeString (stringOfUnits n.units) ++ "\"}"

/-- `Text.Marshal()`; `tc` is the `createdAt` of the Text element -/
def marshal (tc : Ticket) (s : TextSt) : String :=
  "[" ++ joinComma ((shown tc s).map marshalNode) ++ "]"

end Yorkie.Text
