/-
L4 (update path): `Document.Update` as a state machine over the observable heap model.
Go anchor: pkg/document/document.go `Update`, `ensureClone`, `ApplyChangePack`/`applyChanges`.

The Go `Document` keeps the authoritative `doc.root` and a lazily created deep copy `cloneRoot`
that user callbacks mutate through the json layer. An update
  1. creates the clone if there is none (`ensureClone`),
  2. runs the callback on the clone (each json-layer call mutates the clone and records an
     operation),
  3. on callback error / schema violation / size limit: drops the clone and returns the error,
  4. otherwise executes the recorded operations on the root and appends the change.
A panic inside the callback unwinds through `Update`; what happens to the clone then is decided
by `panicResetsClone` (the pinned code did not reset it; see known_findings.json).
`Update` also raises the flag `Document.updating` once it holds `d.mu` and lowers it by a deferred
call on every way out – normal return, error return and the re-panic of the recover handler.
While the flag is raised `Undo`, `Redo` and `ClearHistory` refuse (`ErrRefusedDuringUpdate`) and
`CanUndo`/`CanRedo` answer `false` whatever the stacks hold (`historyRefuses`, `canUndo`).
In this functional model the json-layer mutation of the clone and `Execute` on the root are the
same function `Crdt.apply` (their agreement on the real code is what the `crdt`/`docupd`
correspondence checks: clone and root are compared with the model separately).
-/
import YorkieModel.Model.Crdt
namespace Yorkie.Document
open Yorkie Yorkie.Crdt

/-- does `Update` discard the clone when the callback panics? (`true` since the `fix:` commit
    "reset clone when the updater panics"; the pinned tree behaved like `false`) -/
def panicResetsClone : Bool := true

inductive Outcome
  | ok
  /-- the callback returned an error after performing `n` calls -/
  | error (n : Nat)
  /-- the callback panicked after performing `n` calls -/
  | panic (n : Nat)
  /-- schema validation or the size limit rejected the finished clone -/
  | rejected
deriving DecidableEq, Repr

/-- a heap in a box: a structure value is evaluated strictly, whereas a definition returning the
    function type `Doc` is compiled as a closure that would re-run the executor on every lookup -/
structure Box where
  d : Doc

def applyB (b : Box) (op : Op) : Box :=
  match execute b.d op with
  | .ok d' => ⟨d'⟩
  | .error _ => b

def applyAllB (b : Box) (ops : List Op) : Box := ops.foldl applyB b

structure DocSt where
  root : Box
  clone : Option Box
  /-- local changes not yet acknowledged (each a list of operations) -/
  locals : List (List Op)
  /-- number of changes created so far (stands for `changeID.clientSeq`/lamport progress) -/
  seq : Nat
  /-- `Document.updating` (atomic flag): "some goroutine is inside an updater and holds `d.mu`" -/
  updating : Bool := false

def DocSt.init : DocSt := { root := ⟨Doc.init⟩, clone := none, locals := [], seq := 0 }

/-- `Undo`, `Redo` and `ClearHistory` return `ErrRefusedDuringUpdate` -/
def historyRefuses (s : DocSt) : Bool := s.updating

/-- `CanUndo()` / `CanRedo()` of a document whose undo / redo stack holds `depth` entries -/
def canUndo (s : DocSt) (depth : Nat) : Bool := !s.updating && decide (0 < depth)

def applyAll (d : Doc) (ops : List Op) : Doc := ops.foldl apply d

/-- `ensureClone` -/
def ensureClone (s : DocSt) : Box := s.clone.getD s.root

/-- the part of `Document.Update` that runs while the flag is raised: the operations `ops` the
    callback performs and its outcome -/
def updateBody (resets : Bool) (s : DocSt) (ops : List Op) : Outcome → DocSt
  | .ok =>
    if ops.isEmpty then { s with clone := some (ensureClone s) }
    else
      { s with root := applyAllB s.root ops, clone := some (applyAllB (ensureClone s) ops),
               locals := s.locals ++ [ops], seq := s.seq + 1 }
  | .error _ => { s with clone := none }
  | .rejected => { s with clone := none }
  | .panic n =>
    if resets then { s with clone := none }
    else { s with clone := some (applyAllB (ensureClone s) (ops.take n)) }

/-- `Document.Update`: `d.updating.Store(true)`, the body, and the deferred
    `d.updating.Store(false)` that runs on every way out (return, error return, re-panic) -/
def update (resets : Bool) (s : DocSt) (ops : List Op) (o : Outcome) : DocSt :=
  { updateBody resets { s with updating := true } ops o with updating := false }

/-- remote changes: executed on the clone (created if absent) and on the root -/
def applyRemote (s : DocSt) (ops : List Op) : DocSt :=
  { s with root := applyAllB s.root ops, clone := some (applyAllB (ensureClone s) ops) }

/-- a snapshot replaces the root and drops the clone -/
def applySnapshot (s : DocSt) (d : Doc) : DocSt := { s with root := ⟨d⟩, clone := none }

/-- acknowledging the first `n` local changes -/
def ack (s : DocSt) (n : Nat) : DocSt := { s with locals := s.locals.drop n }

inductive Ev
  | update (ops : List Op) (o : Outcome)
  | remote (ops : List Op)
  | snapshot (d : Doc)
  | ack (n : Nat)

def step (resets : Bool) (s : DocSt) : Ev → DocSt
  | .update ops o => update resets s ops o
  | .remote ops => applyRemote s ops
  | .snapshot d => applySnapshot s d
  | .ack n => ack s n

def run (resets : Bool) (s : DocSt) (evs : List Ev) : DocSt := evs.foldl (step resets) s

end Yorkie.Document
