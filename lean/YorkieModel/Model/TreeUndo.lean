/-
L3 Tree undo/redo (core Lean only): the reverse of a tree edit WITHOUT split / merge, of a tree style, their
execution on the arena of Model/Tree.lean, and the history machine of a document holding one tree (C14).

Go anchors: pkg/document/crdt/tree.go (`TreeRestoreSpan`, `restoreSpanOf`, `tombstoneCollected`, `Restore`,
`Retombstone`, `findPiecesOverlapping`, `isolateTextRange`, `unremove`, `TreeEditReverseInfo`: `RemovedSpans`,
`InsertedSpans`, `SpansComplete`, `MergeLevel`, `PreEditFromIdx`; `Style`/`RemoveStyle`: `PrevAttr` of the first
styled node), pkg/document/operations/tree_edit.go (`Execute`: identity path = `Retombstone` then `Restore`, reverse
= same spans with the mode flipped; `selectReverseOperation`/`toReverseOperation` outcomes 1 (identity reverse) and
"no-op"; `isUndoOp` + `fromIdx/toIdx` re-derivation by `FindPos`), tree_style.go (`Execute`: attributes take priority
over attributesToRemove; `toReverseOperation`), pkg/document/history.go (`PushUndo/PushRedo` with
`MaxUndoRedoStackDepth`, `PopUndo/PopRedo`, `ClearRedo`), pkg/document/document.go (`Update`: reverse from the ROOT
execution under OpSourceLocal, redo cleared when observable; `executeUndoRedo`: one ticket per operation, the change
executes on the clone AND on the root under OpSourceUndoRedo with the change's version vector, reverse pushed to the
other stack, the change is appended to the local changes).

Modelling decisions (trusted base):
  * a restore span keeps what `Restore`/`Retombstone` read while nothing has been purged: id, text/element, UTF-16
    length. `recreateFromSpan` (a purged node is rebuilt from the span's value, attributes and anchors) is not
    modelled: a span whose node or text range is missing yields `Err.unsupported` (GC is off in this model);
  * an edit whose reverse is not the identity reverse or the no-op reverse gets the reverse `UOp.unsupported`: it
    merged (`MergeLevel > 0`), or `SpansComplete` is false because a GC pair beyond the delete loop was registered - a
    piece split off an already-tombstoned text node by the position resolution, or content inserted under a
    tombstoned parent (the third source, merge propagation, needs an earlier merge and is not modelled); split levels
    are outside the domain;
  * `ReconcileTreeEdit` only rewrites the indices of stacked NON-identity reverses and is only called when a REMOTE
    change executes (`Document.applyChanges`); under C14's premise (no remote change on the editing client) it never
    runs and it is not modelled; presence entries of the stacks are absent; every Update makes exactly one call;
  * `validateTreeRestoreIdentities` (every span's ticket is covered by the change's vector) always holds for the
    changes this machine produces and is not re-checked.
-/
import YorkieModel.Model.TreeDoc
import YorkieModel.Generated.Consts
namespace Yorkie.TreeUndo
open Yorkie Yorkie.Tree

/-- `TreeRestoreSpan`, the fields read while no node has been purged -/
structure Span where
  id : NodeId
  isText : Bool
  length : Nat
deriving Repr, DecidableEq

inductive RMode | restore | retombstone
deriving Repr, DecidableEq

def RMode.flip : RMode → RMode
  | .restore => .retombstone
  | .retombstone => .restore

/-- an operation kept on the undo/redo stacks (a reverse), also the operation of an undo/redo change -/
inductive UOp
  /-- identity-preserving reverse: revive `restoreSpans`, re-remove `retombSpans` (or the opposite, by `mode`) -/
  | restore (fr to : Pos) (restoreSpans retombSpans : List Span) (mode : RMode)
  /-- the zero-width no-op edit that reverses an edit which removed and inserted nothing (`isUndoOp`, `fromIdx`) -/
  | noop (fromIdx : Int)
  /-- `TreeStyle` reverse: restore `set`, remove `rem` (executed: `set` if non-empty, otherwise `rem`) -/
  | style (fr to : Pos) (set : List (Str × Str)) (rem : List Str)
  /-- a reverse outside the modelled domain (merge / split / copy-reinsert fallback) -/
  | unsupported
deriving Repr

/-! ### execution of an identity reverse -/

/-- `TreeNode.unremove` -/
def unremove (t : Tree) (n : Ptr) : Tree :=
  match (t.get n).removedAt with
  | none => t
  | some _ =>
    let t1 := t.modify n (fun x => { x with removedAt := none })
    updAnc t1.fuel t1 (t1.parentOf n) (t1.padded n false) false

/-- `findPiecesOverlapping`, ascending -/
def piecesGo (t : Tree) (ca : Ticket) (start stop : Nat) : Nat → Int → List Ptr → List Ptr
  | 0, _, acc => acc
  | f + 1, probe, acc =>
    if probe < 0 then acc else
    match t.findFloor ⟨ca, probe.toNat⟩ with
    | none => acc
    | some node =>
      if !t.isText node then acc else
      let ns := (t.get node).id.offset
      let ne := ns + (t.get node).value.length
      if ne ≤ start then acc else
      let acc' := if ns < stop && ne > start then node :: acc else acc
      if ns ≤ start then acc' else piecesGo t ca start stop f ((ns : Int) - 1) acc'

def pieces (t : Tree) (ca : Ticket) (start stop : Nat) : List Ptr :=
  piecesGo t ca start stop (t.fuel + stop + 2) ((stop : Int) - 1) []

def noSrc : TickSrc := ⟨[], 0, 0, 0, []⟩

/-- `isolateTextRange(piece, from, to)`: the node covering exactly `[from, to)` of its insertion -/
def isolate (t : Tree) (piece : Ptr) (fr to : Nat) : Except Err (Tree × Ptr) :=
  let ca := (t.get piece).id.createdAt
  let off := (t.get piece).id.offset
  let r1 : Except Err (Tree × Ptr) :=
    if fr > off then
      match t.splitAt piece ((fr : Int) - (off : Int)) noSrc [] with
      | .error e => .error e
      | .ok (t1, _) =>
        match t1.findFloor ⟨ca, fr⟩ with
        | none => .error .notFound
        | some n => .ok (t1, n)
    else .ok (t, piece)
  match r1 with
  | .error e => .error e
  | .ok (t1, node) =>
    let no := (t1.get node).id.offset
    if to < no + (t1.get node).value.length then
      match t1.splitAt node ((to : Int) - (no : Int)) noSrc [] with
      | .error e => .error e
      | .ok (t2, _) => .ok (t2, node)
    else .ok (t1, node)

/-- `Retombstone` for one span -/
def retombOne (ts : Ticket) (t : Tree) (sp : Span) : Except Err Tree :=
  let start := sp.id.offset
  let stop := start + (if sp.length < 1 then 1 else sp.length)
  let ps : List Ptr :=
    if sp.isText then pieces t sp.id.createdAt start stop
    else match t.findFloor sp.id with
      | some n => if (t.get n).id.eqb sp.id then [n] else []
      | none => []
  ps.foldl (fun (acc : Except Err Tree) piece =>
    match acc with
    | .error e => .error e
    | .ok a =>
      if a.removed piece then .ok a
      else if (a.parentOf piece).isNone then .ok a
      else if a.isText piece then
        let po := (a.get piece).id.offset
        let pe := po + (a.get piece).value.length
        match isolate a piece (if po < start then start else po) (if pe < stop then pe else stop) with
        | .error e => .error e
        | .ok (a', target) => .ok (a'.removeNode target ts)
      else .ok (a.removeNode piece ts)) (.ok t)

/-- `Tree.Retombstone` -/
def retombstone (t : Tree) (spans : List Span) (ts : Ticket) : Except Err Tree :=
  spans.foldl (fun (acc : Except Err Tree) sp =>
    match acc with
    | .error e => .error e
    | .ok a => retombOne ts a sp) (.ok t)

/-- the cursor loop of `Restore` for a text span (a gap = a purged range = not modelled) -/
def restoreText (stop : Nat) : Nat → Tree → List Ptr → Nat → Except Err Tree
  | 0, t, _, _ => .ok t
  | f + 1, t, ps, cursor =>
    if cursor ≥ stop then .ok t else
    match ps with
    | [] => .error .unsupported
    | piece :: rest =>
      if (t.get piece).id.offset ≤ cursor then
        let pieceEnd := (t.get piece).id.offset + (t.get piece).value.length
        let overlapEnd := if pieceEnd < stop then pieceEnd else stop
        match isolate t piece cursor overlapEnd with
        | .error e => .error e
        | .ok (t1, target) =>
          let t2 := unremove t1 target
          -- `pieceIdx++` only when the piece is consumed; otherwise the (now shortened) piece is probed again
          if overlapEnd ≥ pieceEnd then restoreText stop f t2 rest overlapEnd
          else restoreText stop f t2 (piece :: rest) overlapEnd
      else .error .unsupported

/-- `Restore` for one span -/
def restoreOne (t : Tree) (sp : Span) : Except Err Tree :=
  if !sp.isText then
    match t.findFloor sp.id with
    | some n => if (t.get n).id.eqb sp.id then .ok (unremove t n) else .error .unsupported
    | none => .error .unsupported
  else
    let start := sp.id.offset
    let stop := start + sp.length
    restoreText stop (sp.length + 2) t (pieces t sp.id.createdAt start stop) start

/-- `Tree.Restore` -/
def restore (t : Tree) (spans : List Span) : Except Err Tree :=
  spans.foldl (fun (acc : Except Err Tree) sp =>
    match acc with
    | .error e => .error e
    | .ok a => restoreOne a sp) (.ok t)

/-- the identity path of `TreeEdit.Execute`: re-remove first, then revive -/
def execRestore (t : Tree) (restoreSpans retombSpans : List Span) (mode : RMode) (ts : Ticket) : Except Err Tree :=
  let (toRestore, toRetomb) := match mode with
    | .restore => (restoreSpans, retombSpans)
    | .retombstone => (retombSpans, restoreSpans)
  match retombstone t toRetomb ts with
  | .error e => .error e
  | .ok t1 => restore t1 toRestore

/-! ### what a forward edit reports for its reverse (`TreeEditReverseInfo`) -/

def spanOf (t : Tree) (n : Ptr) : Span :=
  ⟨(t.get n).id, t.isText n, if t.isText n then (t.get n).value.length else 0⟩

/-- the nodes Phase 5 transitions live → tombstoned, in the order it walks them -/
def newlyRemoved (t : Tree) : List Ptr → List Ptr → List Ptr
  | [], _ => []
  | n :: r, seen =>
    if t.removed n || memPtr seen n then newlyRemoved t r seen else n :: newlyRemoved t r (n :: seen)

/-- `InsertedSpans`: every inserted node, parent before child (the reverse of the post-order walk) -/
def insertedSpans (contents : List (List Flat)) : List Span :=
  (contents.flatMap (fun fl => fl.map (fun f =>
    (⟨f.node.id, f.node.type == textType, if f.node.type == textType then f.node.value.length else 0⟩ : Span)))).reverse

structure EditInfo where
  removed : List Span
  mergeLevel : Nat
  preEditFromIdx : Int
  /-- the position resolution split a piece off an already-tombstoned text node (a GC pair the spans do not describe) -/
  bornRemoved : Bool
  /-- the insertion parent is tombstoned: inserted content is born tombstoned (again a pair outside the spans) -/
  parentRemoved : Bool
deriving Repr

/-- phases 1-4 of `Tree.Edit` replayed on the pre-state (they are what `Tree.edit` of Model/Tree.lean runs first):
    the collected nodes and the pre-edit index, read AFTER the text splits of the position resolution -/
def editInfo (t : Tree) (fr to : Pos) (ts : Ticket) (vv : VV) : Except Err EditInfo :=
  match t.findNodesSplit fr ts false with
  | .error e => .error e
  | .ok (t1, fromParent, fromLeft0) =>
  match t1.findNodesSplit to ts false with
  | .error e => .error e
  | .ok (t2, toParent, toLeft0) =>
  let fromLeft := if fromLeft0 != fromParent then t2.advance fromLeft0 vv else fromLeft0
  let toLeft := if toLeft0 != toParent then t2.advance toLeft0 vv else toLeft0
  let narrowed : Ptr × Ptr :=
    if fromLeft != fromParent && fromParent != toParent then
      match Tree.edit.go t2 toParent t2.fuel fromLeft with
      | some n => (toParent, n)
      | none => (fromParent, fromLeft)
    else (fromParent, fromLeft)
  match t2.toIndex fromParent fromLeft false with
  | .error e => .error e
  | .ok idx =>
  match t2.collectBetween narrowed.1 narrowed.2 toParent toLeft ts vv with
  | .error e => .error e
  | .ok col =>
    .ok ⟨(newlyRemoved t2 col.removeds []).map (spanOf t2), col.merged.length, idx,
      (List.range (t2.size - t.size)).any (fun i => t2.removed (t.size + i)), t2.removed fromParent⟩

/-- `selectReverseOperation`/`toReverseOperation` for an edit without split -/
def reverseOfEdit (t : Tree) (fr to : Pos) (contents : List (List Flat)) (splitLevel : Nat) (ts : Ticket) (vv : VV) :
    Except Err UOp :=
  if splitLevel != 0 then .ok .unsupported else
  match editInfo t fr to ts vv with
  | .error e => .error e
  | .ok info =>
    if info.mergeLevel != 0 then .ok .unsupported else
    let ins := insertedSpans contents
    -- `SpansComplete`: no merge, and no GC pair beyond the plain delete loop
    if !info.bornRemoved && !(info.parentRemoved && !contents.isEmpty) then
      if info.removed.isEmpty && ins.isEmpty then .ok (.noop info.preEditFromIdx)
      else .ok (.restore fr to info.removed ins .restore)
    else
      -- spans incomplete: copy-reinsert around the last live inserted node / the first removed one (not modelled),
      -- or, with neither, the no-op reverse
      let lastLive := !contents.isEmpty && !info.parentRemoved
      if !lastLive && info.removed.isEmpty then .ok (.noop info.preEditFromIdx) else .ok .unsupported

/-! ### style reverse -/

def insertStr (a : Str) : List Str → List Str
  | [] => [a]
  | b :: r => if strLt a b then a :: b :: r else b :: insertStr a r

def sortStrs (l : List Str) : List Str := l.foldr insertStr []

/-- the first node `Tree.Style`/`RemoveStyle` actually styles (where `PrevAttr` is captured) -/
def firstStyled (t : Tree) (fr to : Pos) (arg : StyleArg) (ts : Ticket) (vv : VV) : Except Err (Option TNode) :=
  match t.findNodesSplit fr ts true with
  | .error e => .error e
  | .ok (t1, fromParent, fromLeft0) =>
  match t1.findNodesSplit to ts true with
  | .error e => .error e
  | .ok (t2, toParent, toLeft0) =>
  let fromLeft := if fromLeft0 != fromParent then t2.advance fromLeft0 vv else fromLeft0
  let toLeft := if toLeft0 != toParent then t2.advance toLeft0 vv else toLeft0
  let g := t2.interloperGuard to vv
  match t2.tokensInPosRange fromParent fromLeft toParent toLeft false with
  | .error e => .error e
  | .ok toks =>
    .ok ((toks.find? (fun tok =>
      let lam : Option Int := if vv.isEmpty then none else some (vv.versionOf (t2.get tok.node).id.createdAt.actor)
      t2.canStyle tok.node ts lam && !arg.isEmpty &&
        !((tok.ty == .fin && !vv.isEmpty && t2.hasUnknownSplitSibling tok.node vv) || t2.isInterloper g tok.node))).map
      (fun tok => t2.get tok.node))

def liveVal (as : List Attr) (k : Str) : Option Str :=
  match attrGet as k with
  | some a => if a.removed then none else some a.val
  | none => none

/-- `TreeStyle.toReverseOperation` from the `PrevAttr`s of the first styled node; `none` = no reverse -/
def reverseOfStyle (t : Tree) (fr to : Pos) (arg : StyleArg) (ts : Ticket) (vv : VV) : Except Err (Option UOp) :=
  match firstStyled t fr to arg ts vv with
  | .error e => .error e
  | .ok none => .ok none
  | .ok (some nd) =>
    let (prev, rem) : List (Str × Str) × List Str :=
      match arg with
      | .set kvs =>
        (sortStrs (kvs.map (·.1))).foldl (fun (acc : List (Str × Str) × List Str) k =>
          match liveVal nd.attrs k with
          | some v => (acc.1 ++ [(k, v)], acc.2)
          | none => (acc.1, acc.2 ++ [k])) ([], [])
      | .remove ks =>
        (sortStrs ks).foldl (fun (acc : List (Str × Str) × List Str) k =>
          match liveVal nd.attrs k with
          | some v => (acc.1 ++ [(k, v)], acc.2)
          | none => acc) ([], [])
    if prev.isEmpty && rem.isEmpty then .ok none else .ok (some (.style fr to prev rem))

/-- `TreeStyle.Execute`: attributes take priority, the removal half of a combined reverse is not applied -/
def styleArgOf (set : List (Str × Str)) (rem : List Str) : StyleArg :=
  if !set.isEmpty then .set set else .remove rem

/-! ### operations of changes, execution with reverse -/

/-- the operation of a change of this machine -/
inductive WOp
  | fwd (op : Op)
  | undo (op : UOp) (ts : Ticket)
deriving Repr

/-- the reverse a forward operation gets (computed on the pre-state it executes on, under OpSourceLocal) -/
def reverseOfFwd (t : Tree) (op : Op) (vv : VV) : Except Err (Option UOp) :=
  match op with
  | .edit fr to contents splitLevel ts _ =>
    match reverseOfEdit t fr to contents splitLevel ts vv with
    | .error e => .error e
    | .ok r => .ok (some r)
  | .style fr to arg ts => reverseOfStyle t fr to arg ts vv

/-- executing a stacked operation on one copy: the new tree, the operation as it travels, its reverse -/
def execUOp (t : Tree) (u : UOp) (ts : Ticket) (vv : VV) : Except Err (Tree × Option UOp) :=
  match u with
  | .unsupported => .error .unsupported
  | .restore fr to rs tbs mode =>
    match execRestore t rs tbs mode ts with
    | .error e => .error e
    | .ok t' => .ok (t', some (.restore fr to rs tbs mode.flip))
  | .noop idx =>
    match t.findPos idx with
    | .error e => .error e
    | .ok p =>
      match reverseOfEdit t p p [] 0 ts vv with
      | .error e => .error e
      | .ok r =>
        match t.applyEdit p p [] 0 ts ⟨[], ts.lamport, ts.actor, ts.delim, []⟩ vv true with
        | .error e => .error e
        | .ok (t', _) => .ok (t', some r)
  | .style fr to set rem =>
    let arg := styleArgOf set rem
    match reverseOfStyle t fr to arg ts vv with
    | .error e => .error e
    | .ok r =>
      match t.style fr to arg ts vv with
      | .error e => .error e
      | .ok t' => .ok (t', r)

/-! ### the history machine -/

def maxDepth : Nat := Yorkie.Generated.Consts.maxUndoRedoStackDepth

/-- `PushUndo`/`PushRedo` (top = head): the oldest entry is dropped when the stack is full -/
def push (stack : List UOp) (e : UOp) : List UOp :=
  e :: (if stack.length ≥ maxDepth then stack.dropLast else stack)

/-- a change as the peers receive it -/
structure WChange where
  id : ChangeID
  op : WOp
deriving Repr

/-- a document holding one tree, with its history -/
structure Doc where
  id : ChangeID
  root : Tree
  clone : Tree
  undo : List UOp := []
  redo : List UOp := []
deriving Repr

/-- `Document.Update` with one json-layer call -/
def Doc.update (d : Doc) (c : Call) : Except Err (Doc × Option WChange) :=
  let nid := d.id.next
  match localCall d.clone nid c with
  | .error e => .error e
  | .ok none => .ok (d, none)
  | .ok (some (clone', op)) =>
    match reverseOfFwd d.root op nid.vv with
    | .error e => .error e
    | .ok rev =>
      match d.root.applyOp op nid.vv true with
      | .error e => .error e
      | .ok root' =>
        .ok ({ id := nid, root := root', clone := clone',
               undo := match rev with
                 | some r => push d.undo r
                 | none => d.undo,
               redo := [] }, some ⟨nid, .fwd op⟩)

inductive URes
  | empty
  | done (d : Doc) (ch : WChange)
  | failed (d : Doc) (e : Err)

/-- `executeUndoRedo`: the popped entry executes on the clone, then on the root, both with the change's vector; the
    reverse of the ROOT execution goes to the other stack. A failure leaves the entry popped (as in Go). -/
def Doc.undoRedo (d : Doc) (isUndo : Bool) : URes :=
  match (if isUndo then d.undo else d.redo) with
  | [] => .empty
  | u :: rest =>
    let d0 : Doc := if isUndo then { d with undo := rest } else { d with redo := rest }
    let nid := d.id.next
    let ts : Ticket := ⟨nid.lamport, 1, nid.actor⟩
    match execUOp d.clone u ts nid.vv with
    | .error e => .failed d0 e
    | .ok (clone', _) =>
      match execUOp d.root u ts nid.vv with
      | .error e => .failed { d0 with clone := clone' } e
      | .ok (root', rev) =>
        let d1 : Doc := { d0 with id := nid, root := root', clone := clone' }
        let d2 : Doc := match rev with
          | none => d1
          | some r => if isUndo then { d1 with redo := push d1.redo r } else { d1 with undo := push d1.undo r }
        .done d2 ⟨nid, .undo u ts⟩

/-- a receiving replica applies a change of the editing one (`Document.applyChanges`: clone, then root) -/
def applyWire (r : Rep) (ch : WChange) : Except Err Rep :=
  match ch.op with
  | .fwd op => r.applyRemote ⟨ch.id, op⟩
  | .undo u ts =>
    match execUOp r.clone u ts ch.id.vv with
    | .error e => .error e
    | .ok (clone', _) =>
      match execUOp r.root u ts ch.id.vv with
      | .error e => .error e
      | .ok (root', _) => .ok { id := r.id.syncClocks ch.id, root := root', clone := clone' }

/-- a seed document of actor `s` creates the tree in its first change; every other replica applies that change
    (`Set.Execute` deep-copies the decoded value once for the clone and once for the root) -/
def seedId (s : Actor) : ChangeID := (ChangeID.initial.setActor s).next

def seedDoc (a s : Actor) (init : List JItem) : Except Err Doc :=
  match (initialTree s init).snapshot with
  | .error e => .error e
  | .ok tw => .ok { id := (ChangeID.initial.setActor a).syncClocks (seedId s), root := tw.deepCopy, clone := tw.deepCopy }

def seedRep (a s : Actor) (init : List JItem) : Except Err Rep :=
  match (initialTree s init).snapshot with
  | .error e => .error e
  | .ok tw => .ok { id := (ChangeID.initial.setActor a).syncClocks (seedId s), root := tw.deepCopy, clone := tw.deepCopy }

end Yorkie.TreeUndo
