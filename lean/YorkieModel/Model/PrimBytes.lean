/-
Primitive and counter value bytes.
Go anchors: pkg/document/crdt/primitive.go (`Primitive.Bytes`, `ValueFromBytes`, `NewPrimitive`),
pkg/document/crdt/counter.go (`Counter.Bytes`, `CounterValueFromBytes`, `NewCounter`, `Increase`,
`castToInt`, `castToLong`).

All fixed-width values are **little endian** (`binary.LittleEndian`), unlike the version
vector.  Modelling decisions (trusted base): `int32`/`int64` are `BitVec 32`/`BitVec 64`; a
`float64` is its IEEE bit pattern (`math.Float64bits`), no float arithmetic is modelled;
`time.Time` is its `UnixMilli()` as `BitVec 64` (the encoder itself drops sub-millisecond
precision and the location); Go strings and byte slices are `List UInt8` (no UTF-8 validation
happens on this path).

Faithful decoder leniencies: the fixed-width decoders only check `len(value) >= width` and
ignore the surplus; Boolean maps every first byte other than 1 to false; Null ignores its
payload; for `IntegerDedupCnt` the payload is length-checked and then discarded (`NewCounter`
always starts a dedup counter at 0, the value is recomputed from the HLL registers, which are
not modelled here).
-/
import YorkieModel.Model.ByteCodec
namespace Yorkie
namespace PrimBytes
open ByteCodec

/-- `crdt.ValueType` (iota order) -/
inductive VType | null | boolean | integer | long | double | string | bytes | date
deriving DecidableEq, Repr, Inhabited

/-- `ValueType` from its Go integer; anything else is `ErrUnsupportedType` -/
def VType.ofNat? : Nat → Option VType
  | 0 => some .null | 1 => some .boolean | 2 => some .integer | 3 => some .long
  | 4 => some .double | 5 => some .string | 6 => some .bytes | 7 => some .date
  | _ => none

/-- the value held by a `crdt.Primitive` -/
inductive Prim
  | null
  | boolean (b : Bool)
  | integer (v : BitVec 32)
  | long (v : BitVec 64)
  | double (bits : BitVec 64)
  | string (s : Bytes)
  | bytes (b : Bytes)
  | date (ms : BitVec 64)
deriving DecidableEq, Repr, Inhabited

def Prim.vtype : Prim → VType
  | .null => .null | .boolean _ => .boolean | .integer _ => .integer | .long _ => .long
  | .double _ => .double | .string _ => .string | .bytes _ => .bytes | .date _ => .date

/-- `Primitive.Bytes()` -/
def encode : Prim → Bytes
  | .null => []
  | .boolean b => [if b then 1 else 0]
  | .integer v => natToLE 4 v.toNat
  | .long v => natToLE 8 v.toNat
  | .double v => natToLE 8 v.toNat
  | .string s => s
  | .bytes b => b
  | .date v => natToLE 8 v.toNat

/-- `ValueFromBytes` followed by `NewPrimitive` -/
def decode (t : VType) (s : Bytes) : Option Prim :=
  match t with
  | .null => some .null
  | .boolean =>
    match s with
    | [] => none
    | b :: _ => some (.boolean (b == 1))
  | .integer => if s.length < 4 then none else some (.integer (BitVec.ofNat 32 (leToNat (s.take 4))))
  | .long => if s.length < 8 then none else some (.long (BitVec.ofNat 64 (leToNat (s.take 8))))
  | .double => if s.length < 8 then none else some (.double (BitVec.ofNat 64 (leToNat (s.take 8))))
  | .string => some (.string s)
  | .bytes => some (.bytes s)
  | .date => if s.length < 8 then none else some (.date (BitVec.ofNat 64 (leToNat (s.take 8))))

/-- `NewPrimitive(val int)`: a Go `int` becomes Integer when it fits int32, else Long -/
def ofGoInt (x : Int) : Prim :=
  if x > 2147483647 ∨ x < -2147483648 then .long (BitVec.ofInt 64 x) else .integer (BitVec.ofInt 32 x)

/-! ### Counter -/

/-- `crdt.CounterType` (iota order) -/
inductive CType | integerCnt | longCnt | integerDedupCnt
deriving DecidableEq, Repr, Inhabited

def CType.ofNat? : Nat → Option CType
  | 0 => some .integerCnt | 1 => some .longCnt | 2 => some .integerDedupCnt | _ => none

/-- value of a `crdt.Counter` (type + payload; the dedup HLL sketch is not modelled) -/
inductive Cnt
  | int (v : BitVec 32)
  | long (v : BitVec 64)
  | dedup (v : BitVec 32)
deriving DecidableEq, Repr, Inhabited

def Cnt.ctype : Cnt → CType
  | .int _ => .integerCnt | .long _ => .longCnt | .dedup _ => .integerDedupCnt

/-- `Counter.Bytes()` -/
def cntEncode : Cnt → Bytes
  | .int v => natToLE 4 v.toNat
  | .long v => natToLE 8 v.toNat
  | .dedup v => natToLE 4 v.toNat

/-- `CounterValueFromBytes` followed by `NewCounter` (before any `RestoreHLL`) -/
def cntDecode (t : CType) (s : Bytes) : Option Cnt :=
  match t with
  | .integerCnt => if s.length < 4 then none else some (.int (BitVec.ofNat 32 (leToNat (s.take 4))))
  | .longCnt => if s.length < 8 then none else some (.long (BitVec.ofNat 64 (leToNat (s.take 8))))
  | .integerDedupCnt => if s.length < 4 then none else some (.dedup 0)

/-- `Counter.Increase(v)` for an Integer or Long operand (`castToInt` truncates, `castToLong`
    sign-extends, the addition wraps).  Dedup counters and non-numeric operands are errors;
    Double operands (float→int conversion) are not modelled. -/
def increase (c : Cnt) (d : Prim) : Option Cnt :=
  match c, d with
  | .int v, .integer x => some (.int (v + x))
  | .int v, .long x => some (.int (v + x.setWidth 32))
  | .long v, .integer x => some (.long (v + x.signExtend 64))
  | .long v, .long x => some (.long (v + x))
  | _, _ => none

end PrimBytes
end Yorkie
