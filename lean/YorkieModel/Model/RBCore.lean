/-
Left-leaning red-black core shared by the models of pkg/treelist/treelist.go (the
order-statistic tree of `RGATreeList`) and pkg/llrb/llrb.go (the ordered map behind
`Floor` lookups).  Core Lean only.

The two Go files contain the same Sedgewick LLRB code (`rotateLeft`, `rotateRight`,
`flipColors`, `moveRedLeft`, `moveRedRight`, `removeMin`, `min`, `fixUp`, recursive
insert and delete).  They differ only in
  * the payload and its cached aggregates: treelist recomputes `weight`/`count` in
    `updateNode` (called by both rotations and at the end of `fixUp`), llrb has none
    (`upd` = identity);
  * how a node is addressed: treelist by structural index against the cached
    `leftCount`, llrb by `key.Compare` (`nav`/`navI`);
  * `fixUp`'s first test: treelist `isRed(right) && !isRed(left)`, llrb `isRed(right)`
    (`strictFix`); the balancing inlined in `llrb.put` uses the strict form;
  * delete of an inner node: treelist re-links the successor node into the place of the
    deleted one, llrb copies the successor's key and value into it — the same tree of
    payloads.
`Cfg` carries exactly these differences; Model/TreeList.lean and Model/Llrb.lean
instantiate it.  Where the Go code would dereference nil (only possible when the
addressed node is absent or the red-black invariants are broken) the functions return
their argument unchanged; the engines report `panic` for absent targets instead.

Recursive delete is not structurally recursive (it descends into children of a
rotated node), so it takes fuel; `size t + 1` always suffices.
-/
namespace Yorkie.RB

inductive T (α : Type) where
  | nil
  | node (l : T α) (a : α) (red : Bool) (r : T α)
deriving Repr, DecidableEq, Inhabited

variable {α Q : Type}

namespace T

def isRed : T α → Bool
  | nil => false
  | node _ _ c _ => c

def left : T α → T α
  | nil => nil
  | node l _ _ _ => l

def right : T α → T α
  | nil => nil
  | node _ _ _ r => r

def isNil : T α → Bool
  | nil => true
  | node .. => false

def size : T α → Nat
  | nil => 0
  | node l _ _ r => l.size + 1 + r.size

/-- in-order sequence of payloads -/
def toList : T α → List α
  | nil => []
  | node l a _ r => l.toList ++ a :: r.toList

/-- `root.isRed = false` -/
def blacken : T α → T α
  | nil => nil
  | node l a _ r => node l a false r

/-- leftmost payload: `min(node)` -/
def minP : T α → Option α
  | nil => none
  | node nil a _ _ => some a
  | node l _ _ _ => l.minP

end T
open T

/-- what differs between pkg/treelist and pkg/llrb -/
structure Cfg (α Q : Type) where
  /-- `updateNode`: recompute the cached aggregates of a payload from the children -/
  upd : T α → α → T α → α
  /-- delete-time addressing at a node with left subtree `l` and payload `a`:
  three-way comparison and the query to use in the right subtree -/
  nav : T α → α → Q → Ordering × Q
  /-- insert-time addressing -/
  navI : T α → α → Q → Ordering × Q
  /-- insert on an existing address: `node.value = value` (old payload, new payload) -/
  setV : α → α → α
  /-- `fixUp` tests `isRed(right) && !isRed(left)` (treelist) or `isRed(right)` (llrb) -/
  strictFix : Bool

variable (cfg : Cfg α Q)

/-- a node whose aggregates are recomputed (`updateNode(node)`) -/
def mkN (l : T α) (a : α) (c : Bool) (r : T α) : T α := node l (cfg.upd l a r) c r

/-- `updateNode(root of this subtree)` -/
def refresh : T α → T α
  | nil => nil
  | node l a c r => mkN cfg l a c r

/-- `rotateLeft(node)`: promotes the right child; it takes the node's colour, the node
becomes red; aggregates of the node, then of the promoted child, are recomputed -/
def rotateLeft : T α → T α
  | node l a c (node rl b _ rr) => mkN cfg (mkN cfg l a true rl) b c rr
  | t => t

/-- `rotateRight(node)` -/
def rotateRight : T α → T α
  | node (node ll b _ lr) a c r => mkN cfg ll b c (mkN cfg lr a true r)
  | t => t

def flipRoot : T α → T α
  | nil => nil
  | node l a c r => node l a (!c) r

/-- `flipColors(node)` -/
def flipColors : T α → T α
  | nil => nil
  | node l a c r => node (flipRoot l) a (!c) (flipRoot r)

/-- `fixUp(node)`; `strict` selects the form of the first test -/
def fixUp (strict : Bool) (t : T α) : T α :=
  let t1 := if t.right.isRed && (!strict || !t.left.isRed) then rotateLeft cfg t else t
  let t2 := if t1.left.isRed && t1.left.left.isRed then rotateRight cfg t1 else t1
  let t3 := if t2.left.isRed && t2.right.isRed then flipColors t2 else t2
  refresh cfg t3

/-- `moveRedLeft(node)` -/
def moveRedLeft (t : T α) : T α :=
  match flipColors t with
  | node l a c r =>
    if r.left.isRed then flipColors (rotateLeft cfg (node l a c (rotateRight cfg r)))
    else node l a c r
  | nil => nil

/-- `moveRedRight(node)` -/
def moveRedRight (t : T α) : T α :=
  let t1 := flipColors t
  if t1.left.left.isRed then flipColors (rotateRight cfg t1) else t1

/-- `removeMin(node)` -/
def removeMin : Nat → T α → T α
  | 0, t => t
  | _, nil => nil
  | _, node nil _ _ _ => nil            -- `node.left == nil` → `return nil` (the right child is dropped)
  | f + 1, t =>
    let t1 := if !t.left.isRed && !t.left.left.isRed then moveRedLeft cfg t else t
    match t1 with
    | node l a c r => fixUp cfg cfg.strictFix (node (removeMin f l) a c r)
    | nil => nil

/-- recursive delete (`deleteByCount` / `remove`) -/
def del : Nat → T α → Q → T α
  | 0, t, _ => t
  | _, nil, _ => nil
  | f + 1, node l a c r, q =>
    if (cfg.nav l a q).1 == .lt then
      if l.isNil then node l a c r else     -- Go: nil dereference (absent target)
      let t1 := if !l.isRed && !l.left.isRed then moveRedLeft cfg (node l a c r) else node l a c r
      match t1 with
      | node l1 a1 c1 r1 => fixUp cfg cfg.strictFix (node (del f l1 q) a1 c1 r1)
      | nil => nil
    else
      let t1 := if l.isRed then rotateRight cfg (node l a c r) else node l a c r
      match t1 with
      | nil => nil
      | node l1 a1 c1 r1 =>
        if (cfg.nav l1 a1 q).1 == .eq && r1.isNil then nil      -- `l1` is dropped
        else if r1.isNil then node l1 a1 c1 r1 else              -- Go: nil dereference (absent target)
        let t2 := if !r1.isRed && !r1.left.isRed then moveRedRight cfg (node l1 a1 c1 r1)
                  else node l1 a1 c1 r1
        match t2 with
        | nil => nil
        | node l2 a2 c2 r2 =>
          if (cfg.nav l2 a2 q).1 == .eq then
            -- the in-order successor takes this node's place (links and colour)
            match r2.minP with
            | some s => fixUp cfg cfg.strictFix (node l2 s c2 (removeMin cfg f r2))
            | none => node l2 a2 c2 r2
          else
            fixUp cfg cfg.strictFix (node l2 a2 c2 (del f r2 (cfg.nav l2 a2 q).2))

/-- recursive insert (`insertByCount` / `put`); the new node is red -/
def ins : T α → Q → α → T α
  | nil, _, new => node nil new true nil
  | node l a c r, q, new =>
    match (cfg.navI l a q).1 with
    | .lt => fixUp cfg true (node (ins l q new) a c r)
    | .gt => fixUp cfg true (node l a c (ins r (cfg.navI l a q).2 new))
    | .eq => fixUp cfg true (node l (cfg.setV a new) c r)

/-- top-level delete: `if !isRed(root.left) && !isRed(root.right) { root.isRed = true }`,
recursive delete, `root.isRed = false` -/
def delete (t : T α) (q : Q) : T α :=
  match t with
  | nil => nil
  | node l a c r =>
    let t0 := if !l.isRed && !r.isRed then node l a true r else node l a c r
    (del cfg (t.size + 1) t0 q).blacken

/-- top-level insert: recursive insert, `root.isRed = false` -/
def insert (t : T α) (q : Q) (new : α) : T α := (ins cfg t q new).blacken

end Yorkie.RB
