/-
Byte-level building blocks shared by the C09 codecs (core Lean only).

Go anchors
* `pkg/document/time/version_vector.go`  `writeInt64` / `readInt64` (big-endian, hand rolled)
* `encoding/binary.LittleEndian.PutUint32/PutUint64/Uint32/Uint64` as used by
  `pkg/document/crdt/primitive.go` and `counter.go`
* `bytes.Reader.Read(p)`:  `if r.i >= len(r.s) { return 0, io.EOF }; n = copy(p, r.s[r.i:]); r.i += n`
  – i.e. **a short read is not an error**; only a read at end-of-input is.  The destination
  buffers in `version_vector.go` are freshly zeroed, so a short read leaves zero bytes on the
  right.  `readPad` is that behaviour.

Modelling decisions (trusted base): a Go `[]byte`/`string` is a `List UInt8`; an `int64` that
travels through the byte codecs is the unbounded model `Int` reduced mod 2^64 on the way out
(`toU64`) and re-signed on the way in (`ofU64`); round-trip theorems carry the explicit range
hypothesis.
-/
namespace Yorkie

abbrev Bytes := List UInt8

namespace ByteCodec

/-- `k` bytes, most significant first, of `n mod 256^k`. -/
def natToBE : Nat → Nat → Bytes
  | 0, _ => []
  | k + 1, n => natToBE k (n / 256) ++ [UInt8.ofNat (n % 256)]

/-- big-endian bytes to number (`value = (value << 8) | b` without the int64 wrap). -/
def beToNat (l : Bytes) : Nat := l.foldl (fun acc b => acc * 256 + b.toNat) 0

/-- `k` bytes, least significant first, of `n mod 256^k` (`binary.LittleEndian.PutUintXX`). -/
def natToLE : Nat → Nat → Bytes
  | 0, _ => []
  | k + 1, n => UInt8.ofNat (n % 256) :: natToLE k (n / 256)

/-- little-endian bytes to number (`binary.LittleEndian.UintXX` on exactly these bytes). -/
def leToNat : Bytes → Nat
  | [] => 0
  | b :: r => b.toNat + 256 * leToNat r

/-- two's complement image of an `int64` (`uint64(x)`) -/
def toU64 (x : Int) : Nat := (x % 18446744073709551616).toNat

/-- `int64(u)` for `u < 2^64` -/
def ofU64 (n : Nat) : Int :=
  if n < 9223372036854775808 then (n : Int) else (n : Int) - 18446744073709551616

/-- the value is representable as a Go `int64` -/
def InInt64 (x : Int) : Prop := -9223372036854775808 ≤ x ∧ x < 9223372036854775808

instance (x : Int) : Decidable (InInt64 x) := by unfold InInt64; exact inferInstance

/-- right-pad with zero bytes up to length `k` (the untouched tail of a zeroed buffer) -/
def padRight (k : Nat) (l : Bytes) : Bytes := l ++ List.replicate (k - l.length) 0

/-- `bytes.Reader.Read` into a zeroed `k`-byte buffer (`k > 0`): error only at end of input,
    otherwise whatever is left (at most `k` bytes), zero padded.  Returns buffer and rest. -/
def readPad (k : Nat) (s : Bytes) : Option (Bytes × Bytes) :=
  match s with
  | [] => none
  | _ :: _ => some (padRight k (s.take k), s.drop k)

/-- version_vector.go `writeInt64` -/
def writeInt64 (x : Int) : Bytes := natToBE 8 (toU64 x)

/-- version_vector.go `readInt64` (value and remaining input) -/
def readInt64 (s : Bytes) : Option (Int × Bytes) :=
  match readPad 8 s with
  | none => none
  | some (d, rest) => some (ofU64 (beToNat d), rest)

end ByteCodec
end Yorkie
