/-
A table-backed heap for the observable document model (`Model/Crdt.lean`), for long driver runs.

`Crdt.Doc` is a function `Ticket → Option Elem`; `Crdt.markRemoved` is a definition that RETURNS such a
function, so compiled code re-runs its `match d target` on every lookup and every layer of it doubles the
cost of a lookup (DESIGN §11.2 "closures in compiled models").  The integrated engine replays histories of
several hundred operations per replica, so it keeps the heap as a strict association list and, after each
operation, copies into it exactly the cells the operation may have written (`touched`).  That this loses
nothing is `execute_frame` (every other cell is unchanged) and `step_lookup` (the table after a step agrees
with `Crdt.execute` on every ticket).
-/
import YorkieModel.Model.Crdt
namespace Yorkie.CrdtTable
open Yorkie Yorkie.Crdt

abbrev Table := List (Ticket × Elem)

def Table.get? : Table → Ticket → Option Elem
  | [], _ => none
  | (k, e) :: r, t => if t = k then some e else Table.get? r t

/-- replace in place, else append -/
def Table.set : Table → Ticket → Elem → Table
  | [], t, e => [(t, e)]
  | (k, x) :: r, t, e => if t = k then (k, e) :: r else (k, x) :: Table.set r t e

def Table.erase : Table → Ticket → Table
  | [], _ => []
  | (k, x) :: r, t => if t = k then Table.erase r t else (k, x) :: Table.erase r t

/-- the heap a table stands for -/
def Table.doc (tb : Table) : Doc := fun t => tb.get? t

/-- `Doc.init` as a table -/
def Table.init : Table := [(rootId, ⟨none, false, emptyObj⟩)]

/-- the child an object key currently points to -/
def occupant (d : Doc) (parent : Ticket) (key : String) : List Ticket :=
  match d parent with
  | some pe =>
    match pe.body with
    | .obj _ member =>
      match member key with
      | some m => [m.child]
      | none => []
    | _ => []
  | none => []

/-- the cells `Crdt.execute d op` may write -/
def touched (d : Doc) : Op → List Ticket
  | .set p k _ t => t :: p :: occupant d p k
  | .add p _ _ t => [t, p]
  | .move p _ _ _ => [p]
  | .remove _ target _ => [target]
  | .arraySet p target _ t => [t, p, target]
  | .increase p _ _ => [p]

/-- copy cell `t` of heap `d'` into the table -/
def sync (d' : Doc) (tb : Table) (t : Ticket) : Table :=
  match d' t with
  | some e => tb.set t e
  | none => tb.erase t

/-- one operation on the table-backed heap -/
def step (tb : Table) (op : Op) : Except Err Table :=
  match execute tb.doc op with
  | .ok d' => .ok ((touched tb.doc op).foldl (sync d') tb)
  | .error e => .error e

end Yorkie.CrdtTable
