/-
L1 Tree: pointer-level model of `crdt.Tree` over `index.Tree` (core Lean only).

Go anchors: pkg/document/crdt/tree.go (`TreeNodeID`, `TreePos`, `TreeNode` incl. `InsPrevID/InsNextID`,
`MergedFrom/MergedAt/mergedInto`, `Split/SplitText/SplitElement`, `remove`, `canDelete`, `canStyle`,
`Tree.Edit` phases 1-8, `FindTreeNodesWithSplitText`, `advancePastUnknownSplitSiblings`,
`collectBetween`, `mergeNodes`, `resolveMergeTarget`, `propagateMergeDeletes`, `split`,
`dropDuplicateContents`, `intendedMergeParent`, `Style/RemoveStyle`, `styleSkipPredicate`,
`mergedAnchorInterloperGuard`, `hasUnknownSplitSibling`, `traverseInPosRange`, `toTreePos/ToIndex/ToPath`,
`FindPos/PathToPos`, `putNode/findFloorNode/ToTreeNodes`, `NewTree/rebuildMergeState`, `DeepCopy`),
pkg/index/tree.go (`Node` with cached `VisibleLength/TotalLength`, `UpdateAncestorsLength`,
`InsertAt/InsertAfter/InsertBefore/InsertAfterInternal/DetachChild/MoveChild/SetChildren`,
`FindOffset/OffsetOfChild`, `tokensBetween`, `findTreePos`, `IndexOf`, `LeftSiblingsSize`,
`TreePosToPath/PathToTreePos/PathToIndex/findTextPos`, `UpdateDescendantsLength`, `ToXML`),
api/converter (`ToTreeNodes/FromTreeNodes`: post-order list with depths, `Prepend` rebuild).

Modelling decisions (trusted base):
  * Go pointers are indices (`Ptr`) into an append-only arena `Tree.nodes`; nothing is ever freed
    (GC/`Purge` is not modelled), so pointer equality is index equality. Node ids are NOT assumed
    unique: `NodeMapByID` is an association list with the `Put`/`putNode` replacement rules, used
    through the LLRB specification `Floor` (proved for pkg/llrb in C07);
  * the cached lengths `VisibleLength/TotalLength` are stored fields updated exactly where the Go code
    updates them (they can be stale; `SplitText` stores a rune count, `SplitElement` of a tombstone
    adds a visible padding to the ancestors), Go `int` is `Int`;
  * strings are lists of code points (`Str`); a text value is its list of UTF-16 code units and every
    `SplitText` re-decodes both halves (`sanitize`, shared with Model/Text.lean);
  * `Attrs == nil` and an empty `RHT` are identified (no Go code path distinguishes them observably);
  * GC pairs, `DataSize`, reverse-operation info (`TreeEditReverseInfo` except the error that the
    `PreEditFromIdx` computation can raise), `Restore/Retombstone` are not modelled;
  * a Go operation that fails leaves the tree partially mutated; the model returns the error and
    keeps no state (engines stop comparing a replica after an error);
  * a Go panic (nil parent, slice index out of range) is the error `Err.panic`;
  * loops that follow `InsNextID`/`mergedInto`/parent chains and recursions over the tree run on fuel
    `nodes.length + 2` (every such Go loop visits pairwise distinct nodes or would not terminate).
-/
import YorkieModel.Model.Time
import YorkieModel.Model.Text
namespace Yorkie.Tree
open Yorkie

abbrev Str := List Nat
abbrev Ptr := Nat

/-- `index.TextNodeType = "text"` -/
def textType : Str := [116, 101, 120, 116]

/-- `TreeNodeID` -/
structure NodeId where
  createdAt : Ticket
  offset : Nat
deriving DecidableEq, Repr, Inhabited

def tkEq (a b : Ticket) : Bool := a.lamport == b.lamport && a.actor == b.actor && a.delim == b.delim

/-- `TreeNodeID.Equal` -/
def NodeId.eqb (a b : NodeId) : Bool := a.offset == b.offset && tkEq a.createdAt b.createdAt

def optIdEq (a : Option NodeId) (b : NodeId) : Bool :=
  match a with
  | some x => x.eqb b
  | none => false

/-- `RHTNode` -/
structure Attr where
  key : Str
  val : Str
  updatedAt : Ticket
  removed : Bool
deriving DecidableEq, Repr, Inhabited

/-- `TreePos` -/
structure Pos where
  parent : NodeId
  left : NodeId
deriving DecidableEq, Repr, Inhabited

/-- `crdt.TreeNode` + its `index.Node` -/
structure TNode where
  id : NodeId
  type : Str
  isText : Bool
  value : List Nat := []
  removedAt : Option Ticket := none
  insPrev : Option NodeId := none
  insNext : Option NodeId := none
  mergedFrom : Option NodeId := none
  mergedAt : Option Ticket := none
  mergedInto : Option NodeId := none
  attrs : List Attr := []
  parent : Option Ptr := none
  children : List Ptr := []
  visLen : Int := 0
  totLen : Int := 0
deriving DecidableEq, Repr, Inhabited

/-- `crdt.Tree`: arena, root pointer, `NodeMapByID` -/
structure Tree where
  nodes : List TNode
  root : Ptr
  idmap : List (NodeId × Ptr)
  /-- `nodes.length`, cached so that the fuel of every loop is an O(1) read (kernel evaluation) -/
  size : Nat := 0
deriving Repr, Inhabited

inductive Err
  | notFound | splitRange | childNotFound | textNode | range | panic | unsupported | prevNotChild | fuel
deriving DecidableEq, Repr

/-! ### list helpers (structural, kernel friendly) -/

def modifyNth {α} (f : α → α) : List α → Nat → List α
  | [], _ => []
  | a :: r, 0 => f a :: r
  | a :: r, n + 1 => a :: modifyNth f r n

def insertNth {α} (l : List α) (i : Nat) (x : α) : List α := l.take i ++ x :: l.drop i

def eraseNth {α} : List α → Nat → List α
  | [], _ => []
  | _ :: r, 0 => r
  | a :: r, n + 1 => a :: eraseNth r n

def idxOf : List Ptr → Ptr → Option Nat
  | [], _ => none
  | a :: r, p => if a == p then some 0 else (idxOf r p).map (· + 1)

def memPtr (l : List Ptr) (p : Ptr) : Bool := l.any (· == p)

/-! ### arena access -/

def Tree.get (t : Tree) (p : Ptr) : TNode := t.nodes.getD p default
def Tree.modify (t : Tree) (p : Ptr) (f : TNode → TNode) : Tree := { t with nodes := modifyNth f t.nodes p }
def Tree.alloc (t : Tree) (n : TNode) : Tree × Ptr := ({ t with nodes := t.nodes ++ [n], size := t.size + 1 }, t.size)
def Tree.fuel (t : Tree) : Nat := t.size + 2

def Tree.removed (t : Tree) (p : Ptr) : Bool := (t.get p).removedAt.isSome
def Tree.isText (t : Tree) (p : Ptr) : Bool := (t.get p).isText
def Tree.parentOf (t : Tree) (p : Ptr) : Option Ptr := (t.get p).parent

/-- `Node.Children(includeRemoved)` -/
def Tree.kids (t : Tree) (p : Ptr) (incl : Bool) : List Ptr :=
  List.filter (fun c => incl || !t.removed c) (t.get p).children

def Tree.len (t : Tree) (p : Ptr) (incl : Bool) : Int := if incl then (t.get p).totLen else (t.get p).visLen

/-- `Node.PaddedLength(includeRemoved)` -/
def Tree.padded (t : Tree) (p : Ptr) (incl : Bool) : Int := t.len p incl + (if t.isText p then 0 else 2)

/-- `Node.UpdateAncestorsLength(delta, includeRemoved)` started at `start = n.Parent` -/
def updAnc : Nat → Tree → Option Ptr → Int → Bool → Tree
  | 0, t, _, _, _ => t
  | _ + 1, t, none, _, _ => t
  | f + 1, t, some q, d, incl =>
    if incl then updAnc f (t.modify q (fun n => { n with totLen := n.totLen + d })) (t.parentOf q) d incl
    else
      let t' := t.modify q (fun n => { n with visLen := n.visLen + d })
      if t.removed q then t' else updAnc f t' (t.parentOf q) d incl

/-- `newNode.UpdateAncestorsLength(newNode.PaddedLength()); …(PaddedLength(true), true)` -/
def Tree.addLens (t : Tree) (c : Ptr) : Tree :=
  let t1 := updAnc t.fuel t (t.parentOf c) (t.padded c false) false
  updAnc t1.fuel t1 (t1.parentOf c) (t1.padded c true) true

def Tree.setParent (t : Tree) (c : Ptr) (p : Option Ptr) : Tree := t.modify c (fun n => { n with parent := p })
def Tree.setChildren' (t : Tree) (p : Ptr) (ch : List Ptr) : Tree := t.modify p (fun n => { n with children := ch })

/-- `Node.insertAtInternal` -/
def Tree.insertAtInternal (t : Tree) (n new : Ptr) (off : Nat) : Tree :=
  let ch := (t.get n).children
  let ch' := if off > ch.length || ch.length == 0 then ch ++ [new] else insertNth ch off new
  (t.setChildren' n ch').setParent new (some n)

/-- `Node.InsertAt` -/
def Tree.insertAt (t : Tree) (n new : Ptr) (off : Nat) : Except Err Tree :=
  if t.isText n then .error .textNode else .ok ((t.insertAtInternal n new off).addLens new)

/-- `Node.InsertAfter` -/
def Tree.insertAfter (t : Tree) (n new ref : Ptr) : Except Err Tree :=
  if t.isText n then .error .textNode else
  match idxOf (t.get n).children ref with
  | none => .error .childNotFound
  | some o => .ok ((t.insertAtInternal n new (o + 1)).addLens new)

/-- `Node.InsertBefore` -/
def Tree.insertBefore (t : Tree) (n new ref : Ptr) : Except Err Tree :=
  if t.isText n then .error .textNode else
  match idxOf (t.get n).children ref with
  | none => .error .childNotFound
  | some o => .ok ((t.insertAtInternal n new o).addLens new)

/-- `Node.InsertAfterInternal` (no length update) -/
def Tree.insertAfterInternal (t : Tree) (n new prev : Ptr) : Except Err Tree :=
  if t.isText n then .error .textNode else
  match idxOf (t.get n).children prev with
  | none => .error .prevNotChild
  | some o => .ok ((t.setChildren' n (insertNth (t.get n).children (o + 1) new)).setParent new (some n))

/-- `Node.DetachChild` -/
def Tree.detachChild (t : Tree) (n child : Ptr) : Except Err Tree :=
  if t.isText n then .error .textNode else
  match idxOf (t.get n).children child with
  | none => .error .childNotFound
  | some o =>
    let t1 := t.setChildren' n (eraseNth (t.get n).children o)
    let t2 := updAnc t1.fuel t1 (t1.parentOf child) (-(t1.padded child false)) false
    let t3 := updAnc t2.fuel t2 (t2.parentOf child) (-(t2.padded child true)) true
    .ok (t3.setParent child none)

/-- `Node.MoveChild` -/
def Tree.moveChild (t : Tree) (n child : Ptr) : Except Err Tree :=
  if t.isText n then .error .textNode else
  let rm := t.removed child
  let step1 : Except Err Tree :=
    match t.parentOf child with
    | none => .ok t
    | some op =>
      match idxOf (t.get op).children child with
      | none => .error .childNotFound
      | some o =>
        let t1 := t.setChildren' op (eraseNth (t.get op).children o)
        let t2 := if rm then t1 else updAnc t1.fuel t1 (some op) (-(t1.padded child false)) false
        let t3 := updAnc t2.fuel t2 (some op) (-(t2.padded child true)) true
        .ok (t3.setParent child none)
  match step1 with
  | .error e => .error e
  | .ok t4 =>
    let t5 := (t4.setChildren' n ((t4.get n).children ++ [child])).setParent child (some n)
    let t6 := if rm then t5 else updAnc t5.fuel t5 (some n) (t5.padded child false) false
    .ok (updAnc t6.fuel t6 (some n) (t6.padded child true) true)

/-- `Node.SetChildren` -/
def Tree.setChildren (t : Tree) (n : Ptr) (ch : List Ptr) : Tree :=
  ch.foldl (fun acc c => acc.setParent c (some n)) (t.setChildren' n ch)

/-- loop of `Node.FindOffset` -/
def findOffsetGo (t : Tree) (incl : Bool) (node : Ptr) : List Ptr → Nat → Option Nat
  | [], _ => none
  | c :: r, off =>
    if c == node then some off
    else findOffsetGo t incl node r (if incl || !t.removed c then off + 1 else off)

/-- `Node.FindOffset(node, includeRemoved)` -/
def Tree.findOffset (t : Tree) (n node : Ptr) (incl : Bool) : Except Err Nat :=
  if t.isText n then .error .textNode else
  match findOffsetGo t incl node (t.get n).children 0 with
  | some o => .ok o
  | none => .error .childNotFound

/-- `recalcLength` -/
def Tree.recalcLength (t : Tree) (n : Ptr) : Tree :=
  let vis := (t.kids n false).foldl (fun s c => s + t.padded c false) (0 : Int)
  let tot := (t.kids n true).foldl (fun s c => s + t.padded c true) (0 : Int)
  t.modify n (fun x => { x with visLen := vis, totLen := tot })

/-! ### traversals -/

/-- `index.TraverseNode`: post-order over all children (removed included) -/
def postorder : Nat → Tree → Ptr → List Ptr
  | 0, _, _ => []
  | f + 1, t, p => (t.get p).children.flatMap (postorder f t) ++ [p]

def Tree.postorderOf (t : Tree) (p : Ptr) : List Ptr := postorder t.fuel t p

/-- post-order with depths (the converter's `ToTreeNodes`) -/
def postorderD : Nat → Tree → Ptr → Nat → List (Ptr × Nat)
  | 0, _, _, _ => []
  | f + 1, t, p, d => (t.get p).children.flatMap (fun c => postorderD f t c (d + 1)) ++ [(p, d)]

inductive Tok | start | fin | text
deriving DecidableEq, Repr

structure Token where
  node : Ptr
  ty : Tok
  ended : Bool
deriving Repr

def tokLoop (t : Tree) (incl : Bool) (fr to : Int)
    (rec : Ptr → Int → Int → Except Err (List Token)) : List Ptr → Int → Except Err (List Token)
  | [], _ => .ok []
  | c :: r, pos =>
    let pl := t.padded c incl
    if fr - pl < pos && pos < to then
      let tx := t.isText c
      let fromChild := if tx then fr - pos else fr - pos - 1
      let toChild := if tx then to - pos else to - pos - 1
      let childLength := t.len c incl
      let startContained := !tx && fromChild < 0
      let endContained := !tx && toChild > childLength
      let pre := if tx then [Token.mk c .text endContained]
                 else if startContained then [Token.mk c .start endContained] else []
      match rec c (if fromChild < 0 then 0 else fromChild) (if toChild < childLength then toChild else childLength) with
      | .error e => .error e
      | .ok mid =>
        match tokLoop t incl fr to rec r (pos + pl) with
        | .error e => .error e
        | .ok rest => .ok (pre ++ mid ++ (if endContained then [Token.mk c .fin endContained] else []) ++ rest)
    else tokLoop t incl fr to rec r (pos + pl)

/-- `tokensBetween`: the tokens in callback order -/
def tokensBetween : Nat → Tree → Bool → Ptr → Int → Int → Except Err (List Token)
  | 0, _, _, _, _, _ => .error .fuel
  | f + 1, t, incl, root, fr, to =>
    if fr > to then .error .range
    else if fr > t.len root incl then .error .range
    else if to > t.len root incl then .error .range
    else if fr == to then .ok []
    else tokLoop t incl fr to (tokensBetween f t incl) (t.kids root incl) 0

/-- `index.TreePos` -/
structure IPos where
  node : Ptr
  offset : Int
deriving Repr, DecidableEq

def ftpLoop (t : Tree) (node : Ptr) (index : Int) (rec : Ptr → Int → Except Err IPos) :
    List Ptr → Int → Int → Except Err IPos
  | [], offset, _ => .ok ⟨node, offset⟩
  | c :: r, offset, pos =>
    if t.isText c && t.len c false ≥ index - pos then rec c (index - pos)
    else if index == pos then .ok ⟨node, offset⟩
    else if t.padded c false > index - pos then rec c (index - pos - 1)
    else ftpLoop t node index rec r (offset + 1) (pos + t.padded c false)

/-- `Tree.findTreePos` with `preferText = true` -/
def findTreePos : Nat → Tree → Ptr → Int → Except Err IPos
  | 0, _, _, _ => .error .fuel
  | f + 1, t, node, index =>
    if index > t.len node false then .error .range
    else if t.isText node then .ok ⟨node, index⟩
    else ftpLoop t node index (findTreePos f t) (t.kids node false) 0 0

/-- `LeftSiblingsSize(parent, offset, include)`: `children[i]` panics past the end -/
def Tree.leftSiblingsSize (t : Tree) (parent : Ptr) (offset : Nat) (incl : Bool) : Except Err Int :=
  let ch := t.kids parent incl
  if offset > ch.length then .error .panic
  else .ok ((ch.take offset).foldl (fun s c => s + t.padded c incl) (0 : Int))

def indexOfUp : Nat → Tree → Bool → Ptr → Int → Int → Except Err Int
  | 0, _, _, _, _, _ => .error .fuel
  | f + 1, t, incl, node, size, depth =>
    match t.parentOf node with
    | none => .ok (size + depth - 1)
    | some parent =>
      match t.findOffset parent node incl with
      | .error e => .error e
      | .ok o =>
        match t.leftSiblingsSize parent o incl with
        | .error e => .error e
        | .ok ls => indexOfUp f t incl parent (size + ls) (depth + 1)

/-- `Tree.IndexOf(pos, includeRemoved)` -/
def Tree.indexOf (t : Tree) (pos : IPos) (incl : Bool) : Except Err Int :=
  if t.isText pos.node then
    match t.parentOf pos.node with
    | none => .error .panic
    | some parent =>
      match t.findOffset parent pos.node incl with
      | .error e => .error e
      | .ok o =>
        match t.leftSiblingsSize parent o incl with
        | .error e => .error e
        | .ok ls => indexOfUp t.fuel t incl parent (pos.offset + ls) 1
  else
    if pos.offset < 0 then .error .panic else
    match t.leftSiblingsSize pos.node pos.offset.toNat incl with
    | .error e => .error e
    | .ok ls => indexOfUp t.fuel t incl pos.node ls 1

/-! ### `NodeMapByID` -/

def floorGo (id : NodeId) : List (NodeId × Ptr) → Option (NodeId × Ptr) → Option (NodeId × Ptr)
  | [], best => best
  | e :: r, best =>
    if tkEq e.1.createdAt id.createdAt && e.1.offset ≤ id.offset then
      match best with
      | some b => if b.1.offset < e.1.offset then floorGo id r (some e) else floorGo id r best
      | none => floorGo id r (some e)
    else floorGo id r best

/-- `findFloorNode` -/
def Tree.findFloor (t : Tree) (id : NodeId) : Option Ptr := (floorGo id t.idmap none).map (·.2)

def Tree.findFloorO (t : Tree) (id : Option NodeId) : Option Ptr :=
  match id with
  | some i => t.findFloor i
  | none => none

/-- the entry registered under exactly this id -/
def exactGo (id : NodeId) : List (NodeId × Ptr) → Option Ptr
  | [] => none
  | e :: r => if e.1.eqb id then some e.2 else exactGo id r

def putGo (id : NodeId) (p : Ptr) : List (NodeId × Ptr) → List (NodeId × Ptr)
  | [] => [(id, p)]
  | e :: r => if e.1.eqb id then (id, p) :: r else e :: putGo id p r

/-- `NodeMapByID.Put` -/
def Tree.put (t : Tree) (p : Ptr) : Tree := { t with idmap := putGo (t.get p).id p t.idmap }

/-- `putNode`: a tombstone does not displace a live node registered under the same id -/
def Tree.putNode (t : Tree) (p : Ptr) : Tree :=
  match exactGo (t.get p).id t.idmap with
  | some e => if e != p && t.removed p && !t.removed e then t else t.put p
  | none => t.put p

/-! ### version vectors -/

/-- `l, ok := vv.Get(actor); ok && l >= lamport` -/
def vvCovers (vv : VV) (tk : Ticket) : Bool :=
  match vv.get? tk.actor with
  | some l => decide (l ≥ tk.lamport)
  | none => false

/-- `ticketKnown` -/
def ticketKnown (vv : VV) (tk : Ticket) : Bool := vv.isEmpty || vvCovers vv tk

/-! ### ticket source for element splits (`issueTimeTicket`) -/

/-- carried `splitTickets` first, then the simulation `(lamport, ++delimiter, actor)` -/
structure TickSrc where
  given : List Ticket
  lamport : Int
  actor : Actor
  delim : Nat
  /-- tickets handed out so far (what the json layer records as `splitTickets`) -/
  issued : List Ticket := []
deriving Repr

def TickSrc.next (s : TickSrc) : Ticket × TickSrc :=
  match s.given with
  | tk :: r => (tk, { s with given := r, issued := s.issued ++ [tk] })
  | [] =>
    let tk : Ticket := ⟨s.lamport, s.delim + 1, s.actor⟩
    (tk, { s with delim := s.delim + 1, issued := s.issued ++ [tk] })

/-! ### node-level operations -/

/-- `TreeNode.remove`: returns the tree and whether the node went live → tombstoned -/
def Tree.removeNode (t : Tree) (n : Ptr) (ts : Ticket) : Tree :=
  match (t.get n).removedAt with
  | none =>
    let t1 := t.modify n (fun x => { x with removedAt := some ts })
    updAnc t1.fuel t1 (t1.parentOf n) (-(t1.padded n false)) false
  | some r => if ts.after r then t.modify n (fun x => { x with removedAt := some ts }) else t

/-- `TreeNode.canDelete` -/
def Tree.canDelete (t : Tree) (n : Ptr) (ts : Ticket) (creationKnown tombstoneKnown : Bool) : Bool :=
  if !creationKnown then false else
  match (t.get n).removedAt with
  | none => true
  | some r => !tombstoneKnown && ts.after r

/-- `TreeNode.canStyle`; `lam = none` stands for `time.MaxLamport` -/
def Tree.canStyle (t : Tree) (n : Ptr) (ts : Ticket) (lam : Option Int) : Bool :=
  if t.isText n then false else
  let existed := match lam with
    | none => true
    | some l => decide ((t.get n).id.createdAt.lamport ≤ l)
  existed && (match (t.get n).removedAt with
    | none => true
    | some r => ts.after r)

def attrGet : List Attr → Str → Option Attr
  | [], _ => none
  | a :: r, k => if a.key == k then some a else attrGet r k

def attrPut : List Attr → Attr → List Attr
  | [], n => [n]
  | a :: r, n => if a.key == n.key then n :: r else a :: attrPut r n

/-- `RHT.Set` -/
def rhtSet (as : List Attr) (k v : Str) (ts : Ticket) : List Attr :=
  match attrGet as k with
  | none => attrPut as ⟨k, v, ts, false⟩
  | some node => if ts.after node.updatedAt then attrPut as ⟨k, v, ts, false⟩ else as

/-- `RHT.Remove` -/
def rhtRemove (as : List Attr) (k : Str) (ts : Ticket) : List Attr :=
  match attrGet as k with
  | none => attrPut as ⟨k, [], ts, true⟩
  | some node => if ts.after node.updatedAt then attrPut as ⟨k, node.val, ts, true⟩ else as

/-- the attribute change of one Style / RemoveStyle operation -/
inductive StyleArg
  | set (kvs : List (Str × Str))
  | remove (keys : List Str)
deriving Repr, DecidableEq

def StyleArg.isEmpty : StyleArg → Bool
  | .set kvs => kvs.isEmpty
  | .remove ks => ks.isEmpty

def StyleArg.apply (a : StyleArg) (ts : Ticket) (as : List Attr) : List Attr :=
  match a with
  | .set kvs => kvs.foldl (fun acc kv => rhtSet acc kv.1 kv.2 ts) as
  | .remove ks => ks.foldl (fun acc k => rhtRemove acc k ts) as

def mkNode (id : NodeId) (type : Str) (value : List Nat) (attrs : List Attr) : TNode :=
  { id := id, type := type, isText := type == textType, value := value, attrs := attrs,
    visLen := value.length, totLen := value.length }

/-! ### split -/

/-- the tree WITH the repair hooks/fix-c19-splittext-utf16-length.patch (0e18e1d8): `SplitText` stores the UTF-16 length of the left
    half as its cached lengths; `false` = the tree before it, which stored `len(leftRune)`, a RUNE count - one short for each
    supplementary-plane character (Props/C19.lean `surrogate_*`) -/
def fixSplitTextLength : Bool := true

/-- the cached length `SplitText` gives the left half (`u` = its UTF-16 units) -/
def splitLenW (fix : Bool) (u : List Nat) : Int :=
  if fix then ((Text.sanitize u).length : Int) else ((Text.decodeU16 u).length : Int)

/-- `TreeNode.SplitText`; `none` = no split happened -/
def Tree.splitTextW (fix : Bool) (t : Tree) (n : Ptr) (offset : Int) : Except Err (Tree × Option Ptr) :=
  let nd := t.get n
  if offset == 0 || offset == nd.visLen then .ok (t, none)
  else if offset < 0 || offset > nd.visLen then .error .splitRange
  else
    let k := offset.toNat
    let leftU := nd.value.take k
    let rightU := nd.value.drop k
    if (Text.decodeU16 rightU).isEmpty then .ok (t, none) else
    let ll : Int := splitLenW fix leftU
    let t1 := t.modify n (fun x => { x with value := Text.sanitize leftU, visLen := ll, totLen := ll })
    let right : TNode :=
      { mkNode ⟨nd.id.createdAt, k + nd.id.offset⟩ nd.type (Text.sanitize rightU) [] with
        removedAt := nd.removedAt, mergedFrom := nd.mergedFrom, mergedAt := nd.mergedAt }
    let (t2, rp) := t1.alloc right
    match nd.parent with
    | none => .error .panic
    | some par =>
      match t2.insertAfterInternal par rp n with
      | .error e => .error e
      | .ok t3 => .ok (t3, some rp)

def Tree.splitText (t : Tree) (n : Ptr) (offset : Int) : Except Err (Tree × Option Ptr) :=
  t.splitTextW fixSplitTextLength n offset

/-- §7.1 loop of `SplitElement` with Go's slice aliasing: `leftChildren` shares the backing array of
    `allChildren`, so every `append(leftChildren, child)` overwrites the next slot of `allChildren`,
    which the `sourceIsChild` scan reads -/
def split71 (t : Tree) (vv : VV) : List Ptr → List Ptr → List Ptr → List Ptr → List Ptr × List Ptr
  | [], _, left, right => (left, right)
  | c :: r, all, left, right =>
    let cd := t.get c
    let move :=
      match cd.mergedFrom, cd.mergedAt with
      | some mf, some ma =>
        !vv.isEmpty && !vvCovers vv ma && all.any (fun s => (t.get s).id.eqb mf)
      | _, _ => false
    if move then split71 t vv r (modifyNth (fun _ => c) all left.length) (left ++ [c]) right
    else split71 t vv r all left (right ++ [c])

/-- §7.3 loop of `SplitElement` -/
def split73 (t : Tree) (vv : VV) : List Ptr → Bool → List Ptr → List Ptr → List Ptr × List Ptr
  | [], _, moved, remaining => (moved, remaining)
  | c :: r, reached, moved, remaining =>
    if !reached && ((t.get c).insPrev.isSome && !t.isText c) then split73 t vv r reached moved (remaining ++ [c])
    else if !reached && !vvCovers vv (t.get c).id.createdAt then split73 t vv r reached (moved ++ [c]) remaining
    else split73 t vv r true moved (remaining ++ [c])

/-- the tree WITH the repair hooks/fix-c19-split-tombstoned-visible-length.patch (7d079773): the split sibling of a TOMBSTONED
    element (born tombstoned) no longer adds its two tags to the ancestors' VisibleLength; `false` = the tree before it, where
    `Tree.Len()` ended 2 per split level too large on the replica that had tombstoned the element
    (Props/C19.lean `stale_length_*`) -/
def fixSplitTombstonedLength : Bool := true

/-- the length bookkeeping of `SplitElement` for the new sibling `s` -/
def Tree.addLensSplitW (fix : Bool) (t : Tree) (s : Ptr) : Tree :=
  if fix && t.removed s then updAnc t.fuel t (t.parentOf s) (t.padded s true) true else t.addLens s

def Tree.addLensSplit (t : Tree) (s : Ptr) : Tree := t.addLensSplitW fixSplitTombstonedLength s

/-- `TreeNode.SplitElement` -/
def Tree.splitElement (t : Tree) (n : Ptr) (offset : Nat) (src : TickSrc) (vv : VV) :
    Except Err (Tree × Ptr × TickSrc) :=
  let nd := t.get n
  let (tk, src') := src.next
  let sp : TNode :=
    { mkNode ⟨tk, 0⟩ nd.type [] nd.attrs with
      removedAt := nd.removedAt, mergedFrom := nd.mergedFrom, mergedAt := nd.mergedAt }
  let (t1, s) := t.alloc sp
  match nd.parent with
  | none => .error .panic
  | some par =>
    match t1.insertAfterInternal par s n with
    | .error e => .error e
    | .ok t2 =>
      let t3 := t2.addLensSplit s
      let all := t3.kids n true
      if offset > all.length then .error .panic else
      let (left1, right1) := split71 t3 vv (all.drop offset) all (all.take offset) []
      let (left2, right2) :=
        if vv.isEmpty then (left1, right1) else
        let (moved, remaining) := split73 t3 vv right1 false [] []
        if moved.isEmpty then (left1, right1) else (left1 ++ moved, remaining)
      let t4 := (t3.setChildren n left2).setChildren s right2
      .ok ((t4.recalcLength n).recalcLength s, s, src')

/-- `TreeNode.Split` -/
def Tree.splitAt (t : Tree) (n : Ptr) (offset : Int) (src : TickSrc) (vv : VV) : Except Err (Tree × TickSrc) :=
  let r : Except Err (Tree × Option Ptr × TickSrc) :=
    if t.isText n then
      match t.splitText n offset with
      | .error e => .error e
      | .ok (t', sp) => .ok (t', sp, src)
    else
      if offset < 0 then .error .panic else
      match t.splitElement n offset.toNat src vv with
      | .error e => .error e
      | .ok (t', sp, src') => .ok (t', some sp, src')
  match r with
  | .error e => .error e
  | .ok (t1, none, src1) => .ok (t1, src1)
  | .ok (t1, some s, src1) =>
    let nid := (t1.get n).id
    let sid := (t1.get s).id
    let t2 := t1.modify s (fun x => { x with insPrev := some nid })
    let r2 : Except Err Tree :=
      match (t2.get n).insNext with
      | none => .ok t2
      | some nx =>
        let insNext := t2.findFloor nx
        let t3 := t2.modify s (fun x => { x with insNext := some nx })
        match insNext with
        | none => .ok t3
        | some q =>
          let t4 := t3.modify q (fun x => { x with insPrev := some sid })
          -- §7.4 Empty Sibling Re-Parenting
          match t4.parentOf q, t4.parentOf s with
          | some qp, some spar =>
            if !t4.isText n && qp != spar && (t4.kids s true).isEmpty then
              match t4.detachChild spar s with
              | .error e => .error e
              | .ok t5 => t5.insertBefore qp s q
            else .ok t4
          | some _, none => if !t4.isText n && (t4.kids s true).isEmpty then .error .panic else .ok t4
          | none, _ => .ok t4
    match r2 with
    | .error e => .error e
    | .ok t6 => .ok ((t6.modify n (fun x => { x with insNext := some sid })).putNode s, src1)

/-! ### position resolution -/

/-- `ToTreeNodes`: `(parent, left)`; the left node may be nil when the `InsPrevID` lookup fails -/
def Tree.toTreeNodes (t : Tree) (pos : Pos) : Option (Ptr × Option Ptr) :=
  match t.findFloor pos.parent, t.findFloor pos.left with
  | some pn, some ln =>
    let l := t.get ln
    if !(pos.left.eqb (t.get pn).id) && pos.left.offset > 0 && pos.left.offset == l.id.offset && l.insPrev.isSome then
      some (pn, t.findFloorO l.insPrev)
    else some (pn, some ln)
  | _, _ => none

/-- first child of the merge target moved out of `src` (`MergedFrom == src`), with its left neighbour -/
def mergedBoundary (t : Tree) (src : NodeId) (target : Ptr) : List Ptr → Ptr → Ptr
  | [], _ => target
  | c :: r, prev => if optIdEq (t.get c).mergedFrom src then prev else mergedBoundary t src target r c

/-- step 04 of `FindTreeNodesWithSplitText`: skip siblings created after `editedAt` -/
def skipNewer (t : Tree) (ts : Ticket) : List Ptr → Ptr → Ptr
  | [], left => left
  | c :: r, left => if (t.get c).id.createdAt.after ts then skipNewer t ts r c else left

/-- `FindTreeNodesWithSplitText(pos, editedAt, boundary)`; `rangeMode` is `BoundaryRange` -/
def Tree.findNodesSplit (t : Tree) (pos : Pos) (ts : Ticket) (rangeMode : Bool) : Except Err (Tree × Ptr × Ptr) :=
  match t.toTreeNodes pos with
  | none => .error .notFound
  | some (_, none) => .error .notFound
  | some (parentNode, some leftNode) =>
    let isLeftMost := parentNode == leftNode
    let realParent := match t.parentOf leftNode with
      | some lp => if !isLeftMost then lp else parentNode
      | none => parentNode
    let redirect : Option (Ptr × Ptr) :=
      match (t.get realParent).mergedInto with
      | some mi =>
        if t.removed realParent && isLeftMost then
          match (if rangeMode then t.parentOf realParent else none) with
          | some rp => some (rp, realParent)
          | none =>
            match t.findFloor mi with
            | some mt =>
              if !t.removed mt then
                let b := mergedBoundary t (t.get realParent).id mt (t.kids mt true) mt
                some (mt, b)
              else none
            | none => none
        else none
      | none => none
    match redirect with
    | some (p, l) => .ok (t, p, l)
    | none =>
      let r1 : Except Err Tree :=
        if t.isText leftNode then
          match t.splitAt leftNode ((pos.left.offset : Int) - ((t.get leftNode).id.offset : Int))
              ⟨[], 0, 0, 0, []⟩ [] with
          | .error e => .error e
          | .ok (t', _) => .ok t'
        else .ok t
      match r1 with
      | .error e => .error e
      | .ok t1 =>
        let all := t1.kids realParent true
        let idx := if isLeftMost then 0 else
          match idxOf (t1.get realParent).children leftNode with
          | some o => o + 1
          | none => 0
        .ok (t1, realParent, skipNewer t1 ts (all.drop idx) leftNode)

structure AdvOpts where
  relaxParent : Bool := false
  skipActor : Option Actor := none

def advanceGo (t : Tree) (vv : VV) (o : AdvOpts) : Nat → Ptr → Ptr
  | 0, cur => cur
  | f + 1, cur =>
    match t.findFloorO (t.get cur).insNext with
    | none => cur
    | some next =>
      if t.isText next then cur
      else if !o.relaxParent && t.parentOf next != t.parentOf cur then cur
      else
        let nid := (t.get next).id.createdAt
        if o.skipActor == some nid.actor then cur
        else if vvCovers vv nid then cur
        else advanceGo t vv o f next

/-- `advancePastUnknownSplitSiblings` -/
def Tree.advance (t : Tree) (node : Ptr) (vv : VV) (o : AdvOpts := {}) : Ptr :=
  if vv.isEmpty then node else advanceGo t vv o t.fuel node

/-- `toTreePos` walk to the least alive ancestor -/
def aliveAncestor (t : Tree) : Nat → Ptr → Ptr → Except Err (Ptr × Ptr)
  | 0, _, _ => .error .fuel
  | f + 1, parent, child =>
    if t.removed parent then
      match t.parentOf parent with
      | none => .error .panic
      | some gp => aliveAncestor t f gp parent
    else .ok (parent, child)

/-- `toTreePos(parentNode, leftNode, includeRemoved)`; `none` is Go's `(nil, nil)` -/
def Tree.toTreePos (t : Tree) (parentNode leftNode : Ptr) (incl : Bool) : Except Err (Option IPos) :=
  if !incl && t.removed parentNode then
    match aliveAncestor t t.fuel parentNode parentNode with
    | .error e => .error e
    | .ok (p, c) =>
      match t.findOffset p c incl with
      | .error _ => .ok none
      | .ok o => .ok (some ⟨p, o⟩)
  else if parentNode == leftNode then .ok (some ⟨leftNode, 0⟩)
  else
    match t.findOffset parentNode leftNode incl with
    | .error e => .error e
    | .ok o =>
      if incl || !t.removed leftNode then
        if t.isText leftNode then .ok (some ⟨leftNode, t.padded leftNode incl⟩)
        else .ok (some ⟨parentNode, (o : Int) + 1⟩)
      else .ok (some ⟨parentNode, o⟩)

/-- `Tree.ToIndex` -/
def Tree.toIndex (t : Tree) (parentNode leftNode : Ptr) (incl : Bool) : Except Err Int :=
  match t.toTreePos parentNode leftNode incl with
  | .error e => .error e
  | .ok none => .ok (-1)
  | .ok (some p) => t.indexOf p incl

/-- `traverseInPosRange` -/
def Tree.tokensInPosRange (t : Tree) (fromParent fromLeft toParent toLeft : Ptr) (incl : Bool) :
    Except Err (List Token) :=
  match t.toIndex fromParent fromLeft incl with
  | .error e => .error e
  | .ok fromIdx =>
    match t.toIndex toParent toLeft incl with
    | .error e => .error e
    | .ok toIdx =>
      if fromIdx > toIdx then .ok []
      else tokensBetween t.fuel t incl t.root fromIdx toIdx

/-! ### Edit -/

structure Collected where
  removeds : List Ptr := []
  moved : List Ptr := []
  merged : List Ptr := []

def cascadeGo (t : Tree) (vv : VV) : Nat → Option Ptr → List Ptr → List Ptr
  | 0, _, acc => acc
  | _ + 1, none, acc => acc
  | f + 1, some next, acc =>
    let acc' :=
      if !ticketKnown vv (t.get next).id.createdAt then
        acc ++ [next] ++ (t.postorderOf next).filter (· != next)
      else acc
    match (t.get next).insNext with
    | none => acc'
    | some nn => cascadeGo t vv f (t.findFloor nn) acc'

/-- callback of `collectBetween` for one token -/
def collectStep (t : Tree) (ts : Ticket) (vv : VV) (c : Collected) (tok : Token) : Except Err Collected :=
  let node := tok.node
  let nd := t.get node
  let c1 : Collected :=
    if tok.ty == .start && !tok.ended && ticketKnown vv nd.id.createdAt then
      { c with merged := c.merged ++ [node], moved := c.moved ++ t.kids node true }
    else c
  let creationKnown := ticketKnown vv nd.id.createdAt
  let tombstoneKnown := match nd.removedAt with
    | some r => ticketKnown vv r
    | none => false
  match nd.parent with
  | none => .error .panic
  | some par =>
    if t.canDelete node ts creationKnown tombstoneKnown || (memPtr c1.removeds par && !memPtr c1.merged par) then
      if tok.ty == .text || tok.ty == .start then
        let rem1 := c1.removeds ++ [node]
        let rem2 :=
          if !nd.isText && nd.insNext.isSome && !memPtr c1.merged node then
            cascadeGo t vv t.fuel (t.findFloorO nd.insNext) rem1
          else rem1
        .ok { c1 with removeds := rem2 }
      else .ok c1
    else .ok c1

def collectFold (t : Tree) (ts : Ticket) (vv : VV) : List Token → Collected → Except Err Collected
  | [], c => .ok c
  | tok :: r, c =>
    match collectStep t ts vv c tok with
    | .error e => .error e
    | .ok c' => collectFold t ts vv r c'

/-- `collectBetween` -/
def Tree.collectBetween (t : Tree) (fromParent fromLeft toParent toLeft : Ptr) (ts : Ticket) (vv : VV) :
    Except Err Collected :=
  match t.tokensInPosRange fromParent fromLeft toParent toLeft true with
  | .error e => .error e
  | .ok toks => collectFold t ts vv toks {}

def resolveGo (t : Tree) : Nat → Ptr → List Ptr → Ptr
  | 0, target, _ => target
  | f + 1, target, seen =>
    if t.removed target then
      match t.findFloorO (t.get target).mergedInto with
      | none => target
      | some next => if memPtr seen next then target else resolveGo t f next (next :: seen)
    else target

/-- `resolveMergeTarget` -/
def Tree.resolveMergeTarget (t : Tree) (node : Ptr) : Ptr := resolveGo t t.fuel node [node]

/-- `mergeNodes` -/
def mergeGo (dest : Ptr) (ts : Ticket) : List Ptr → Tree → Except Err Tree
  | [], t => .ok t
  | node :: r, t =>
    match t.parentOf node with
    | none => mergeGo dest ts r t
    | some par =>
      let t1 := if (t.get node).mergedFrom.isNone then
          t.modify node (fun x => { x with mergedFrom := some (t.get par).id, mergedAt := some ts })
        else t
      match t1.moveChild dest node with
      | .error e => .error e
      | .ok t2 =>
        let t3 := match t2.findFloorO (t2.get node).mergedFrom with
          | some src => t2.modify src (fun x => { x with mergedInto := some (t2.get dest).id })
          | none => t2
        mergeGo dest ts r t3

def removeLive (ts : Ticket) (t : Tree) (p : Ptr) : Tree := if t.removed p then t else t.removeNode p ts

/-- `propagateMergeDeletes` -/
def propagateGo (dest : Ptr) (merged : List Ptr) (ts : Ticket) : List Ptr → Tree → Tree
  | [], t => t
  | node :: r, t =>
    match (t.get node).mergedInto with
    | none => propagateGo dest merged ts r t
    | some mi =>
      if memPtr merged node || mi.eqb (t.get dest).id then propagateGo dest merged ts r t else
      match t.findFloor mi with
      | none => propagateGo dest merged ts r t
      | some mt =>
        let nid := (t.get node).id
        let t' := (t.kids mt true).foldl (fun acc child =>
          if optIdEq (acc.get child).mergedFrom nid && !acc.removed child then
            let a1 := acc.removeNode child ts
            ((a1.postorderOf child).filter (· != child)).foldl (removeLive ts) a1
          else acc) t
        propagateGo dest merged ts r t'

/-- `Tree.split` -/
def splitLoop (ts : Ticket) (vv : VV) : Nat → Tree → Ptr → Ptr → TickSrc → Except Err (Tree × TickSrc)
  | 0, t, _, _, src => .ok (t, src)
  | k + 1, t, parent, left, src =>
    let (left1, parent1) :=
      if left != parent then
        let l := t.advance left vv { relaxParent := true, skipActor := some ts.actor }
        match t.parentOf l with
        | some lp => if lp != parent then (l, lp) else (l, parent)
        | none => (l, parent)
      else (left, parent)
    match t.parentOf parent1 with
    | none => .ok (t, src)
    | some gp =>
      let off : Except Err Nat :=
        if left1 != parent1 then
          match t.findOffset parent1 left1 true with
          | .error e => .error e
          | .ok o => .ok (o + 1)
        else .ok 0
      match off with
      | .error e => .error e
      | .ok o =>
        match t.splitAt parent1 o src vv with
        | .error e => .error e
        | .ok (t', src') => splitLoop ts vv k t' gp parent1 src'

/-- a detached content node with its subtree already allocated in the arena -/
def contentReused (t : Tree) (ts : Ticket) (c : Ptr) : Bool :=
  (t.postorderOf c).any (fun p =>
    let ca := (t.get p).id.createdAt
    if ca.lamport == ts.lamport && ca.actor == ts.actor then false
    else (exactGo (t.get p).id t.idmap).isSome)

/-- `intendedMergeParent` -/
def Tree.intendedMergeParent (t : Tree) (fr : Pos) (fromParent : Ptr) : Option (NodeId × Option Ticket) :=
  match t.toTreeNodes fr with
  | none => none
  | some (dp, _) =>
    if dp == fromParent || !t.removed dp || (t.get dp).mergedInto.isNone || t.resolveMergeTarget dp != fromParent then none
    else
      let did := (t.get dp).id
      match (t.kids fromParent true).find? (fun c => optIdEq (t.get c).mergedFrom did && (t.get c).mergedAt.isSome) with
      | some c => some (did, (t.get c).mergedAt)
      | none => some (did, (t.get dp).removedAt)

def insertContents (ts : Ticket) (fromParent : Ptr) (stamp : Option (NodeId × Option Ticket)) :
    List Ptr → Ptr → Tree → Except Err Tree
  | [], _, t => .ok t
  | c :: r, left, t =>
    let ins := if left == fromParent then t.insertAt fromParent c 0 else t.insertAfter fromParent c left
    match ins with
    | .error e => .error e
    | .ok t1 =>
      let t2 := match stamp with
        | some (mf, ma) => t1.modify c (fun x => { x with mergedFrom := some mf, mergedAt := ma })
        | none => t1
      let t3 := (t2.postorderOf c).foldl (fun acc p =>
        (if acc.removed fromParent then acc.removeNode p ts else acc).putNode p) t2
      insertContents ts fromParent stamp r c t3

/-- `Tree.Edit` (contents are roots of detached subtrees already allocated in the arena) -/
def Tree.edit (t : Tree) (fr to : Pos) (contents : List Ptr) (splitLevel : Nat) (ts : Ticket)
    (src : TickSrc) (vv : VV) (needsReverseInfo : Bool) : Except Err (Tree × TickSrc) :=
  -- Phase 1
  match t.findNodesSplit fr ts false with
  | .error e => .error e
  | .ok (t1, fromParent, fromLeft0) =>
  match t1.findNodesSplit to ts false with
  | .error e => .error e
  | .ok (t2, toParent, toLeft0) =>
  -- Phase 2
  let fromLeft := if fromLeft0 != fromParent then t2.advance fromLeft0 vv else fromLeft0
  let toLeft := if toLeft0 != toParent then t2.advance toLeft0 vv else toLeft0
  -- Phase 3
  let narrowed : Ptr × Ptr :=
    if fromLeft != fromParent && fromParent != toParent then
      let rec go : Nat → Ptr → Option Ptr
        | 0, _ => none
        | f + 1, cur =>
          match t2.findFloorO (t2.get cur).insNext with
          | none => none
          | some next =>
            if t2.isText next then none
            else if t2.parentOf next == some toParent then some next
            else go f next
      match go t2.fuel fromLeft with
      | some n => (toParent, n)
      | none => (fromParent, fromLeft)
    else (fromParent, fromLeft)
  let pre : Except Err Unit :=
    if needsReverseInfo then
      match t2.toIndex fromParent fromLeft false with
      | .error e => .error e
      | .ok _ => .ok ()
    else .ok ()
  match pre with
  | .error e => .error e
  | .ok _ =>
  match t2.collectBetween narrowed.1 narrowed.2 toParent toLeft ts vv with
  | .error e => .error e
  | .ok col =>
  -- Phase 5
  let t3 := col.removeds.foldl (fun acc n => acc.removeNode n ts) t2
  -- Phase 6
  match mergeGo (t3.resolveMergeTarget fromParent) ts col.moved t3 with
  | .error e => .error e
  | .ok t4 =>
  let t5 := propagateGo (t4.resolveMergeTarget fromParent) col.merged ts col.removeds t4
  -- Phase 7
  match splitLoop ts vv splitLevel t5 fromParent fromLeft src with
  | .error e => .error e
  | .ok (t6, src') =>
  -- Phase 8
  let kept := contents.filter (fun c => !contentReused t6 ts c)
  if kept.isEmpty then .ok (t6, src') else
  match insertContents ts fromParent (t6.intendedMergeParent fr fromParent) kept fromLeft t6 with
  | .error e => .error e
  | .ok t7 => .ok (t7, src')

/-! ### Style -/

/-- `hasUnknownSplitSibling` -/
def Tree.hasUnknownSplitSibling (t : Tree) (node : Ptr) (vv : VV) : Bool :=
  match t.findFloorO (t.get node).insNext with
  | none => false
  | some next => if t.isText next then false else !vvCovers vv (t.get next).id.createdAt

/-- what `mergedAnchorInterloperGuard` captures: the merge target and its children after the tombstone -/
def Tree.interloperGuard (t : Tree) (pos : Pos) (vv : VV) : Option (Ptr × List Ptr) :=
  if vv.isEmpty then none else
  match t.toTreeNodes pos with
  | none => none
  | some (dp, _) =>
    match (t.get dp).removedAt with
    | none => none
    | some rm =>
      if (t.get dp).mergedInto.isNone || ticketKnown vv rm then none else
      let target := t.resolveMergeTarget dp
      if target == dp || t.parentOf dp != some target then none
      else some (target, ((t.kids target true).dropWhile (· != dp)).drop 1)

def topUnder (t : Tree) (target : Ptr) : Nat → Ptr → Ptr
  | 0, top => top
  | f + 1, top =>
    match t.parentOf top with
    | none => top
    | some p => if p == target then top else topUnder t target f p

def Tree.isInterloper (t : Tree) (g : Option (Ptr × List Ptr)) (node : Ptr) : Bool :=
  match g with
  | none => false
  | some (target, after) =>
    let top := topUnder t target t.fuel node
    if t.parentOf top != some target then false
    else if (t.get top).mergedFrom.isSome then false
    else memPtr after top

def propagateStyleGo (vv : VV) (f : List Attr → List Attr) : Nat → Ptr → Tree → Tree
  | 0, _, t => t
  | k + 1, cur, t =>
    match t.findFloorO (t.get cur).insNext with
    | none => t
    | some next =>
      if t.isText next then t
      else if ticketKnown vv (t.get next).id.createdAt then t
      else propagateStyleGo vv f k next (t.modify next (fun x => { x with attrs := f x.attrs }))

def styleStep (ts : Ticket) (vv : VV) (arg : StyleArg) (g : Option (Ptr × List Ptr)) (t : Tree) (tok : Token) : Tree :=
  let node := tok.node
  let lam : Option Int := if vv.isEmpty then none else some (vv.versionOf (t.get node).id.createdAt.actor)
  if t.canStyle node ts lam && !arg.isEmpty then
    if (tok.ty == .fin && !vv.isEmpty && t.hasUnknownSplitSibling node vv) || t.isInterloper g node then t
    else
      let t1 := t.modify node (fun x => { x with attrs := arg.apply ts x.attrs })
      if tok.ty == .start && !vv.isEmpty then propagateStyleGo vv (arg.apply ts) t1.fuel node t1 else t1
  else t

/-- `Tree.Style` / `Tree.RemoveStyle` -/
def Tree.style (t : Tree) (fr to : Pos) (arg : StyleArg) (ts : Ticket) (vv : VV) : Except Err Tree :=
  match t.findNodesSplit fr ts true with
  | .error e => .error e
  | .ok (t1, fromParent, fromLeft0) =>
  match t1.findNodesSplit to ts true with
  | .error e => .error e
  | .ok (t2, toParent, toLeft0) =>
  let fromLeft := if fromLeft0 != fromParent then t2.advance fromLeft0 vv else fromLeft0
  let toLeft := if toLeft0 != toParent then t2.advance toLeft0 vv else toLeft0
  let g := t2.interloperGuard to vv
  match t2.tokensInPosRange fromParent fromLeft toParent toLeft false with
  | .error e => .error e
  | .ok toks => .ok (toks.foldl (styleStep ts vv arg g) t2)

/-! ### index ↔ position ↔ path -/

/-- the tree WITH the repair hooks/fix-c19-findpos-after-element.patch (74247a0f): an index right before a text node that is not the
    first visible child names what precedes it (the previous visible sibling) as left sibling; `false` = the tree before it,
    where such an index became (that text piece's id, offset 0) - read as "after the piece that starts here", a place that
    depends on how far the replica has split the text (Props/C19.lean `findpos_after_element_*`) -/
def fixFindPosAfterElement : Bool := true

/-- the visible sibling right before `n` -/
def prevIn (n : Ptr) : List Ptr → Option Ptr → Option Ptr
  | [], _ => none
  | c :: r, prev => if c == n then prev else prevIn n r (some c)

/-- `Tree.FindPos(index)` -/
def Tree.findPosW (fix : Bool) (t : Tree) (index : Int) : Except Err Pos :=
  match findTreePos t.fuel t t.root index with
  | .error e => .error e
  | .ok ⟨node, offset⟩ =>
    if t.isText node then
      match t.parentOf node with
      | none => .error .panic
      | some par =>
        let first := (t.get par).children.find? (fun c => !t.removed c)
        if fix && offset == 0 && first != some node then
          match prevIn node (t.kids par false) none with
          | none => .ok ⟨(t.get par).id, (t.get par).id⟩
          | some pv =>
            let lid := (t.get pv).id
            .ok ⟨(t.get par).id, ⟨lid.createdAt, lid.offset + (if t.isText pv then (t.get pv).value.length else 0)⟩⟩
        else
        let leftNode := if first == some node && offset == 0 then par else node
        let lid := (t.get leftNode).id
        if offset < 0 then .error .panic else
        .ok ⟨(t.get par).id, ⟨lid.createdAt, lid.offset + offset.toNat⟩⟩
    else
      if offset == 0 then
        let lid := (t.get node).id
        .ok ⟨lid, lid⟩
      else
        match (t.kids node false)[(offset - 1).toNat]? with
        | none => .error .panic
        | some l =>
          let lid := (t.get l).id
          .ok ⟨(t.get node).id, ⟨lid.createdAt, lid.offset + offset.toNat⟩⟩

def Tree.findPos (t : Tree) (index : Int) : Except Err Pos := t.findPosW fixFindPosAfterElement index

/-- `Node.HasTextChild` -/
def Tree.hasTextChild (t : Tree) (n : Ptr) : Bool :=
  let ch := t.kids n false
  !ch.isEmpty && ch.all (t.isText ·)

/-- `findTextPos` -/
def findTextPosGo (t : Tree) : List Ptr → Ptr → Int → IPos
  | [], node, pe => ⟨node, pe⟩
  | c :: r, node, pe => if t.len c false < pe then findTextPosGo t r node (pe - t.len c false) else ⟨c, pe⟩

/-- `PathToTreePos` -/
def pathWalk (t : Tree) : List Nat → Ptr → Except Err IPos
  | [], _ => .error .range
  | [last] , node =>
    if t.hasTextChild node then
      if t.len node false < last then .error .range else .ok (findTextPosGo t (t.kids node false) node last)
    else if (t.kids node false).length < last then .error .range
    else .ok ⟨node, last⟩
  | pe :: r, node =>
    match (t.kids node false)[pe]? with
    | none => .error .panic
    | some c => pathWalk t r c

/-- `PathToIndex` -/
def Tree.pathToIndex (t : Tree) (path : List Nat) : Except Err Int :=
  match pathWalk t path t.root with
  | .error e => .error e
  | .ok p => t.indexOf p false

/-- `Tree.PathToPos` -/
def Tree.pathToPos (t : Tree) (path : List Nat) : Except Err Pos :=
  match t.pathToIndex path with
  | .error e => .error e
  | .ok i => t.findPos i

def pathUp (t : Tree) : Nat → Ptr → List Nat → Except Err (List Nat)
  | 0, _, _ => .error .fuel
  | f + 1, node, acc =>
    match t.parentOf node with
    | none => .ok acc
    | some par =>
      -- Go: `pathInfo` stays 0 when the node is not among the visible children
      let i := (idxOf (t.kids par false) node).getD 0
      pathUp t f par (i :: acc)

/-- the tree WITH the repair hooks/fix-c19-path-tombstone.patch (c7104fed): `TreePosToPath` takes the offset of a text node among
    the VISIBLE children (`FindOffset`) into `LeftSiblingsSize`, which walks the visible children; `false` = the tree before
    it (`OffsetOfChild`: raw offset, tombstones included; Props/C19.lean `path_tombstone_*`) -/
def fixPathTombstone : Bool := true

/-- `TreePosToPath` -/
def Tree.treePosToPathW (fix : Bool) (t : Tree) (p : IPos) : Except Err (List Nat) :=
  if t.isText p.node then
    match t.parentOf p.node with
    | none => .error .panic
    | some par =>
      match idxOf (if fix then t.kids par false else (t.get par).children) p.node with
      | none => .error .range
      | some o =>
        match t.leftSiblingsSize par o false with
        | .error e => .error e
        | .ok ls => pathUp t t.fuel par [(ls + p.offset).toNat]
  else if t.hasTextChild p.node then
    match t.leftSiblingsSize p.node p.offset.toNat false with
    | .error e => .error e
    | .ok ls => pathUp t t.fuel p.node [ls.toNat]
  else pathUp t t.fuel p.node [p.offset.toNat]

def Tree.treePosToPath (t : Tree) (p : IPos) : Except Err (List Nat) := t.treePosToPathW fixPathTombstone p

/-- `IndexTree.FindTreePos` then `TreePosToPath` (json `Tree.IndexToPath`-style conversion) -/
def Tree.indexToPathW (fix : Bool) (t : Tree) (index : Int) : Except Err (List Nat) :=
  match findTreePos t.fuel t t.root index with
  | .error e => .error e
  | .ok p => t.treePosToPathW fix p

def Tree.indexToPath (t : Tree) (index : Int) : Except Err (List Nat) := t.indexToPathW fixPathTombstone index

/-! ### construction: `FromTreeNodes`, `NewTree`, `DeepCopy`, snapshot -/

/-- one entry of the converter's post-order node list -/
structure Flat where
  depth : Nat
  node : TNode
deriving Repr

/-- `FromTreeNodes` main loop: `i` from `len-2` down to `0`, `Prepend` under `depthTable[depth-1]` -/
def linkGo (base : Nat) : List (Nat × Nat) → List (Nat × Ptr) → Tree → Except Err Tree
  | [], _, t => .ok t
  | (i, d) :: r, tbl, t =>
    match (if d == 0 then none else tbl.find? (·.1 == d - 1)) with
    | none => .error .notFound
    | some (_, par) =>
      let p := base + i
      if t.isText par then .error .textNode else
      let t1 := (t.setChildren' par (p :: (t.get par).children)).setParent p (some par)
      linkGo base r ((d, p) :: tbl.filter (·.1 != d)) t1

/-- `Node.UpdateDescendantsLength(include)` -/
def updDesc : Nat → Bool → Ptr → Tree → Tree × Int
  | 0, incl, p, t => (t, t.padded p incl)
  | f + 1, incl, p, t =>
    let (t1, length) := (t.get p).children.foldl (fun (acc : Tree × Int) c =>
      let (a, cl) := updDesc f incl c acc.1
      if !incl && a.removed c then (a, acc.2) else (a, acc.2 + cl)) (t, (0 : Int))
    let t2 := t1.modify p (fun x => if incl then { x with totLen := x.totLen + length } else { x with visLen := x.visLen + length })
    (t2, t2.padded p incl)

/-- allocate a post-order node list (root last) as a detached subtree: `FromTreeNodes` up to `NewTree` -/
def Tree.allocFlat (t : Tree) (fl : List Flat) : Except Err (Tree × Ptr) :=
  if fl.isEmpty then .error .notFound else
  let base := t.size
  let fresh := fl.map (fun f =>
    { mkNode f.node.id f.node.type f.node.value f.node.attrs with
      removedAt := f.node.removedAt, insPrev := f.node.insPrev, insNext := f.node.insNext,
      mergedFrom := f.node.mergedFrom, mergedAt := f.node.mergedAt })
  let n := fl.length
  let t0 : Tree := { t with nodes := t.nodes ++ fresh, size := t.size + n }
  let rootP := base + n - 1
  let rootD := (fl.getLast?.map (·.depth)).getD 0
  let order := ((List.range (n - 1)).zip ((fl.take (n - 1)).map (·.depth))).reverse
  match linkGo base order [(rootD, rootP)] t0 with
  | .error e => .error e
  | .ok t1 =>
    let (t2, _) := updDesc t1.fuel false rootP t1
    let (t3, _) := updDesc t2.fuel true rootP t2
    .ok (t3, rootP)

/-- `rebuildMergeState` -/
def Tree.rebuildMergeState (t : Tree) : Tree :=
  (t.postorderOf t.root).foldl (fun acc c =>
    match (acc.get c).mergedFrom, acc.parentOf c with
    | some mf, some par =>
      match acc.findFloor mf with
      | none => acc
      | some src =>
        let a1 := match (acc.get c).mergedAt, (acc.get src).removedAt with
          | none, some r => acc.modify c (fun x => { x with mergedAt := some r })
          | _, _ => acc
        if (a1.get src).mergedInto.isNone then a1.modify src (fun x => { x with mergedInto := some (a1.get par).id })
        else a1
    | _, _ => acc) t

/-- registration pass of `NewTree`: plain `Put` per node; on an id collision, a `putNode` pass -/
def Tree.register (t : Tree) : Tree :=
  let order := t.postorderOf t.root
  let t1 := order.foldl (fun acc p => acc.put p) { t with idmap := [] }
  if t1.idmap.length != order.length then order.foldl (fun acc p => acc.putNode p) t1 else t1

/-- `NewTree(root, createdAt)` on a subtree that is already linked in the arena -/
def Tree.newTree (t : Tree) (root : Ptr) : Tree := ({ t with root := root }.register).rebuildMergeState

/-- `Tree.DeepCopy`: an isomorphic copy (same arena) through `NewTree` -/
def Tree.deepCopy (t : Tree) : Tree := t.newTree t.root

/-- a tree from the converter's node list: `FromTreeNodes` + `NewTree` (twice in Go; the second is idempotent) -/
def Tree.ofFlat (fl : List Flat) : Except Err Tree :=
  match (Tree.mk [] 0 [] 0).allocFlat fl with
  | .error e => .error e
  | .ok (t, r) => .ok (t.newTree r)

/-- what `ToTreeNodes` writes: every reachable node with its depth, post-order -/
def Tree.toFlat (t : Tree) : List Flat :=
  (postorderD t.fuel t t.root 0).map (fun pd => ⟨pd.2, t.get pd.1⟩)

/-- `SnapshotToBytes` ∘ `BytesToSnapshot` on the tree element -/
def Tree.snapshot (t : Tree) : Except Err Tree := Tree.ofFlat t.toFlat

/-! ### observations (code-point lists; the driver turns them into strings) -/

def strCodes (s : String) : Str := s.toList.map Char.toNat

def hexCode (n : Nat) : Nat := if n < 10 then 48 + n else 87 + n

/-- `EscapeString`, per character -/
def escapeCode (c : Nat) : List Nat :=
  if c == 92 then [92, 92]
  else if c == 34 then [92, 34]
  else if c ≥ 0x20 then [c]
  else if c == 10 then [92, 110]
  else if c == 12 then [92, 102]
  else if c == 8 then [92, 98]
  else if c == 13 then [92, 114]
  else if c == 9 then [92, 116]
  else [92, 117, 48, 48, hexCode (c / 16), hexCode (c % 16)]

def escapeCodes (s : Str) : Str := s.flatMap escapeCode

def strLt : Str → Str → Bool
  | [], [] => false
  | [], _ :: _ => true
  | _ :: _, [] => false
  | a :: r, b :: s => if a < b then true else if b < a then false else strLt r s

def insertAttr (a : Attr) : List Attr → List Attr
  | [] => [a]
  | b :: r => if strLt a.key b.key then a :: b :: r else b :: insertAttr a r

def sortAttrs (as : List Attr) : List Attr := as.foldr insertAttr []
def liveAttrs (as : List Attr) : List Attr := sortAttrs (List.filter (fun a => !a.removed) as)

def joinWith (sep : Str) : List Str → Str
  | [] => []
  | [x] => x
  | x :: r => x ++ sep ++ joinWith sep r

/-- `TreeNode.Attributes()`; NOTE the key order is Go's byte-wise `sort.Strings`, which on UTF-8
    equals code-point order -/
def attrsXML (as : List Attr) : Str :=
  let l := liveAttrs as
  if l.isEmpty then [] else
  32 :: joinWith [32] (l.map (fun a => a.key ++ [61, 34] ++ escapeCodes a.val ++ [34]))

/-- `index.ToXML`, written with an accumulator (the text after this node) so that every character is
    consed once: the kernel evaluates this for every row of the C19 table -/
def xmlGo : Nat → Tree → Ptr → Str → Str
  | 0, _, _, acc => acc
  | f + 1, t, p, acc =>
    let n := t.get p
    if n.isText then Text.decodeU16 n.value ++ acc
    else
      60 :: (n.type ++ (attrsXML n.attrs ++ (62 ::
        (t.kids p false).foldr (fun c a => xmlGo f t c a) (60 :: 47 :: (n.type ++ (62 :: acc))))))

/-- `Tree.ToXML()` as code points -/
def Tree.toXMLCodes (t : Tree) : Str := xmlGo t.fuel t t.root []

def q (s : Str) : Str := [34] ++ s ++ [34]

/-- `RHT.Marshal` -/
def attrsJSON (as : List Attr) : Str :=
  [123] ++ joinWith [44] ((liveAttrs as).map (fun a => q (escapeCodes a.key) ++ [58] ++ q (escapeCodes a.val))) ++ [125]

/-- `marshal(builder, node)` -/
def marshalGo : Nat → Tree → Ptr → Str
  | 0, _, _ => []
  | f + 1, t, p =>
    let n := t.get p
    if n.isText then
      strCodes "{\"type\":\"" ++ n.type ++ strCodes "\",\"value\":\"" ++ escapeCodes (Text.decodeU16 n.value) ++ strCodes "\"}"
    else
      strCodes "{\"type\":\"" ++ n.type ++ strCodes "\",\"children\":[" ++
        joinWith [44] ((t.kids p false).map (marshalGo f t)) ++ [93] ++
        (if (liveAttrs n.attrs).isEmpty then [] else strCodes ",\"attributes\":" ++ attrsJSON n.attrs) ++ [125]

/-- `Tree.Marshal()` as code points -/
def Tree.marshalCodes (t : Tree) : Str := marshalGo t.fuel t t.root

end Yorkie.Tree
