/-
YSON (C18), text level: `Marshal` (with strconv.Quote), `Unmarshal`'s textual
pre-pass (one regexp + ten `strings.ReplaceAll`), a reader for the JSON text that
mirrors encoding/json's decisions when decoding into `interface{}`, the complete
`Unmarshal`, and the decidable description of the values that survive.

Go anchors: pkg/document/yson/yson.go `Marshal`, `marshalPrimitive`,
`preprocessTypeValues`, `preprocessTypeTokens`, `dedupCounterRe`, `Unmarshal`; strconv.Quote / IsPrint
(go1.25.0; tables in Model/IsPrint.lean); encoding/json (scanner + literalStore
for `interface{}` targets).  Core Lean only.

Not modelled: encoding/json's nesting limit (10000), ParseFloat range errors
(`1e999`), invalid UTF-8.
-/
import YorkieModel.Model.Yson
import YorkieModel.Model.IsPrint
namespace Yorkie.Yson
open IsPrintTables

/-! ## quoteJSON (strconv.IsPrint decides what is written raw) -/

def inRanges (c : Nat) : List (Nat × Nat) → Bool
  | [] => false
  | (a, b) :: r => (a ≤ c && c ≤ b) || inRanges c r

/-- strconv.IsPrint -/
def isPrint (c : Nat) : Bool :=
  if c ≤ 0xFF then (0x20 ≤ c && c ≤ 0x7E) || (0xA1 ≤ c && c != 0xAD)
  else if c < 0x10000 then inRanges c print16 && !(notPrint16.contains c)
  else inRanges c print32 && (c ≥ 0x20000 || !(notPrint32.contains (c - 0x10000)))

def hexDigit (n : Nat) : Nat := if n < 10 then 48 + n else 87 + n

/-- one character of quoteJSON (yson.go, since the JSON-string-literal fix): what strconv.Quote
writes wherever that is JSON with the same meaning, `\uXXXX` (a surrogate pair above U+FFFF)
where strconv.Quote would use a Go-only escape (valid runes only) -/
def quoteChar (c : Nat) : Str :=
  if c == 34 then [92, 34]
  else if c == 92 then [92, 92]
  else if isPrint c then [c]
  else if c == 8 then [92, 98]
  else if c == 12 then [92, 102]
  else if c == 10 then [92, 110]
  else if c == 13 then [92, 114]
  else if c == 9 then [92, 116]
  else if c < 0x10000 then
    [92, 117, hexDigit (c / 4096), hexDigit (c / 256 % 16), hexDigit (c / 16 % 16), hexDigit (c % 16)]
  else
    -- utf16.EncodeRune
    [92, 117, hexDigit ((0xD800 + (c - 0x10000) / 1024) / 4096), hexDigit ((0xD800 + (c - 0x10000) / 1024) / 256 % 16),
     hexDigit ((0xD800 + (c - 0x10000) / 1024) / 16 % 16), hexDigit ((0xD800 + (c - 0x10000) / 1024) % 16),
     92, 117, hexDigit ((0xDC00 + (c - 0x10000) % 1024) / 4096), hexDigit ((0xDC00 + (c - 0x10000) % 1024) / 256 % 16),
     hexDigit ((0xDC00 + (c - 0x10000) % 1024) / 16 % 16), hexDigit ((0xDC00 + (c - 0x10000) % 1024) % 16)]

def quoteBody : Str → Str
  | [] => []
  | c :: r => quoteChar c ++ quoteBody r

/-- quoteJSON -/
def quote (s : Str) : Str := 34 :: (quoteBody s ++ [34])

/-! ## Marshal -/

def joinWith (sep : Str) : List Str → Str
  | [] => []
  | [a] => a
  | a :: b :: r => a ++ sep ++ joinWith sep (b :: r)

def insertStr (x : Str) : List Str → List Str
  | [] => [x]
  | y :: r => if strLt y x then y :: insertStr x r else x :: y :: r

/-- sort.Strings -/
def sortStrs : List Str → List Str
  | [] => []
  | x :: r => insertStr x (sortStrs r)

def renderAttr (p : Str × Str) : Str := quote p.1 ++ [58] ++ quote p.2

/-- the body of `"attrs":{…}`: the rendered pairs, sorted as strings (Go sorts the
rendered `"k":"v"` strings, not the keys) -/
def renderAttrs (a : Attrs) : Str := joinWith [44] (sortStrs (a.map renderAttr))

def marshalTextNode (n : TextNode) : Str :=
  if n.attrs.isEmpty then cp%"{\"val\":" ++ quote n.val ++ cp%"}"
  else cp%"{\"val\":" ++ quote n.val ++ cp%",\"attrs\":{" ++ renderAttrs n.attrs ++ cp%"}}"

mutual
def marshalTree : TreeNode → Str
  | .mk ty v a c =>
    if ty == sText then cp%"{\"type\":" ++ quote ty ++ cp%",\"value\":" ++ quote v ++ cp%"}"
    else if a.isEmpty then
      cp%"{\"type\":" ++ quote ty ++ cp%",\"children\":[" ++ joinWith [44] (marshalTreeList c) ++ cp%"]}"
    else
      cp%"{\"type\":" ++ quote ty ++ cp%",\"attrs\":{" ++ renderAttrs a ++ cp%"},\"children\":["
        ++ joinWith [44] (marshalTreeList c) ++ cp%"]}"
def marshalTreeList : List TreeNode → List Str
  | [] => []
  | x :: r => marshalTree x :: marshalTreeList r
end

def marshalDbl : Dbl → Str
  | .nan => cp%"NaN"
  | .posInf => cp%"+Inf"
  | .negInf => cp%"-Inf"
  | .fin t => t

def marshalCounter : Counter → Str
  | .int n => cp%"Counter(Int(" ++ showInt n ++ cp%"))"
  | .long n => cp%"Counter(Long(" ++ showInt n ++ cp%"))"
  | .dedup n regs => cp%"DedupCounter(Int(" ++ showInt n ++ cp%"),\"" ++ b64Encode regs ++ cp%"\")"

mutual
/-- `Marshal()` / marshalElement / marshalPrimitive -/
def marshal : Yson → Str
  | .null => cp%"null"
  | .bool true => cp%"true"
  | .bool false => cp%"false"
  | .double d => marshalDbl d
  | .str s => quote s
  | .int n => cp%"Int(" ++ showInt n ++ cp%")"
  | .long n => cp%"Long(" ++ showInt n ++ cp%")"
  | .bytes b => cp%"BinData(\"" ++ b64Encode b ++ cp%"\")"
  | .date t => cp%"Date(\"" ++ t ++ cp%"\")"
  | .counter c => marshalCounter c
  | .text ns => cp%"Text([" ++ joinWith [44] (ns.map marshalTextNode) ++ cp%"])"
  | .tree r => cp%"Tree(" ++ marshalTree r ++ cp%")"
  | .arr xs => [91] ++ joinWith [44] (marshalList xs) ++ [93]
  | .obj kvs => [123] ++ joinWith [44] (marshalKvs kvs) ++ [125]
def marshalList : List Yson → List Str
  | [] => []
  | x :: r => marshal x :: marshalList r
/-- `%s:%s` with quoteJSON(key) -/
def marshalKvs : List (Str × Yson) → List Str
  | [] => []
  | (k, x) :: r => (quote k ++ [58] ++ marshal x) :: marshalKvs r
end

/-! ## preprocessTypeValues (since /repo commit 0cf3884e: string literals and object keys
are copied verbatim; only the text between them is rewritten).
The pre-pass of the pinned tree is kept, as `preprocessV0`, in Model/YsonV0.lean. -/

def stripPrefix : Str → Str → Option Str
  | [], s => some s
  | _ :: _, [] => none
  | p :: ps, c :: r => if p == c then stripPrefix ps r else none

def isPrefixOf (p s : Str) : Bool := (stripPrefix p s).isSome

/-- `strings.ReplaceAll(s, pat, rep)` for a non-empty `pat` -/
def replaceAllAux (pat rep : Str) : Nat → Str → Str
  | _, [] => []
  | skip + 1, _ :: r => replaceAllAux pat rep skip r
  | 0, c :: r =>
    if isPrefixOf pat (c :: r) then rep ++ replaceAllAux pat rep (pat.length - 1) r
    else c :: replaceAllAux pat rep 0 r

def replaceAll (pat rep : Str) (s : Str) : Str := replaceAllAux pat rep 0 s

/-- the replacement table of preprocessTypeTokens, in the order of the Go slice -/
def replacements : List (Str × Str) := [
  (cp%"Text()", cp%"{\"type\":\"Text\",\"value\":[]}"),
  (cp%"Tree()", cp%"{\"type\":\"Tree\",\"value\":{}}"),
  (cp%"Counter(", cp%"{\"type\":\"Counter\",\"value\":"),
  (cp%"Text(", cp%"{\"type\":\"Text\",\"value\":"),
  (cp%"Tree(", cp%"{\"type\":\"Tree\",\"value\":"),
  (cp%"Int(", cp%"{\"type\":\"Int\",\"value\":"),
  (cp%"Long(", cp%"{\"type\":\"Long\",\"value\":"),
  (cp%"BinData(", cp%"{\"type\":\"BinData\",\"value\":"),
  (cp%"Date(", cp%"{\"type\":\"Date\",\"value\":"),
  (cp%")", cp%"}")
]

def applyReplacements : List (Str × Str) → Str → Str
  | [], s => s
  | (p, r) :: rest, s => applyReplacements rest (replaceAll p r s)

/-- does the whole text match `DedupCounter\(Int\((-?\d+)\),` ?  (the group) -/
def dedupHeadMatch (s : Str) : Option Str :=
  match stripPrefix cp%"DedupCounter(Int(" s with
  | none => none
  | some r1 =>
    let sign := (jSign r1).1                 -- `-?`
    let ds := (takeDigits (jSign r1).2).1    -- `\d+`
    let r3 := (takeDigits (jSign r1).2).2
    if ds.isEmpty then none
    else if r3 == [41, 44] then some (sign ++ ds)   -- `\),$`
    else none

/-- `dedupCounterRe.ReplaceAllString(seg, …$1…)` with dedupCounterRe =
`DedupCounter\(Int\((-?\d+)\),$`: the leftmost position from which the rest of the
piece is a dedup-counter head -/
def dedupHead : Str → Str
  | [] => []
  | c :: r =>
    match dedupHeadMatch (c :: r) with
    | some g => cp%"{\"type\":\"DedupCounter\",\"counterType\":\"Int\",\"value\":" ++ g ++ cp%",\"hll\":"
    | none => c :: dedupHead r

/-- preprocessTypeTokens: a piece of text without string literal -/
def preprocessTokens (seg : Str) : Str := applyReplacements replacements (dedupHead seg)

mutual
/-- preprocessTypeValues, outside a string literal; `seg` is the piece read since the
last literal -/
def ppOut : Str → Str → Str
  | seg, [] => preprocessTokens seg
  | seg, c :: r => if c == 34 then preprocessTokens seg ++ 34 :: ppIn r else ppOut (seg ++ [c]) r
/-- inside a string literal: copied up to the closing quote -/
def ppIn : Str → Str
  | [] => []
  | c :: r => if c == 34 then 34 :: ppOut [] r else if c == 92 then 92 :: ppEsc r else c :: ppIn r
/-- after a backslash inside a string literal -/
def ppEsc : Str → Str
  | [] => []
  | c :: r => c :: ppIn r
end

def preprocess (s : Str) : Str := ppOut [] s

/-! ## encoding/json into `interface{}` -/

def isWs (c : Nat) : Bool := c == 32 || c == 9 || c == 10 || c == 13

def skipWs : Str → Str
  | [] => []
  | c :: r => if isWs c then skipWs r else c :: r

def hexVal (c : Nat) : Option Nat :=
  if 48 ≤ c && c ≤ 57 then some (c - 48)
  else if 97 ≤ c && c ≤ 102 then some (c - 87)
  else if 65 ≤ c && c ≤ 70 then some (c - 55)
  else none

def hex4 : Str → Option (Nat × Str)
  | a :: b :: c :: d :: r =>
    match hexVal a, hexVal b, hexVal c, hexVal d with
    | some a, some b, some c, some d => some (a * 4096 + b * 256 + c * 16 + d, r)
    | _, _, _, _ => none
  | _ => none

/-- a string literal after its opening quote: decoded text and the rest after the
closing quote (scanner rules + `unquote`, incl. UTF-16 surrogate handling) -/
def jStringAux : Nat → Str → Option (Str × Str)
  | 0, _ => none
  | _ + 1, [] => none
  | f + 1, c :: r =>
    if c == 34 then some ([], r)
    else if c < 32 then none
    else if c == 92 then
      match r with
      | [] => none
      | e :: r1 =>
        let simple (x : Nat) : Option (Str × Str) :=
          match jStringAux f r1 with
          | some (s, rest) => some (x :: s, rest)
          | none => none
        if e == 34 then simple 34
        else if e == 92 then simple 92
        else if e == 47 then simple 47
        else if e == 98 then simple 8
        else if e == 102 then simple 12
        else if e == 110 then simple 10
        else if e == 114 then simple 13
        else if e == 116 then simple 9
        else if e == 117 then
          match hex4 r1 with
          | none => none
          | some (rr, r2) =>
            if 0xD800 ≤ rr && rr < 0xE000 then
              -- surrogate half: valid pair ⇒ one rune, else U+FFFD and only this escape is consumed
              let pair : Option (Nat × Str) :=
                match r2 with
                | 92 :: 117 :: r3 =>
                  match hex4 r3 with
                  | some (rr1, r4) =>
                    if rr < 0xDC00 && 0xDC00 ≤ rr1 && rr1 < 0xE000 then
                      some ((rr - 0xD800) * 1024 + (rr1 - 0xDC00) + 0x10000, r4)
                    else none
                  | none => none
                | _ => none
              match pair with
              | some (cp, r4) =>
                (match jStringAux f r4 with
                 | some (s, rest) => some (cp :: s, rest)
                 | none => none)
              | none =>
                (match jStringAux f r2 with
                 | some (s, rest) => some (0xFFFD :: s, rest)
                 | none => none)
            else
              match jStringAux f r2 with
              | some (s, rest) => some (rr :: s, rest)
              | none => none
        else none
    else
      match jStringAux f r with
      | some (s, rest) => some (c :: s, rest)
      | none => none

def jString (s : Str) : Option (Str × Str) := jStringAux (s.length + 1) s

def insertAbsent {α} (k : Str) (v : α) : List (Str × α) → List (Str × α)
  | [] => [(k, v)]
  | (k', v') :: r =>
    if k == k' then (k', v') :: r
    else if strLt k k' then (k, v) :: (k', v') :: r
    else (k', v') :: insertAbsent k v r

/-- members in textual order ⇒ Go map (last duplicate wins), listed by increasing key -/
def canonKvs {α} : List (Str × α) → List (Str × α)
  | [] => []
  | (k, v) :: r => insertAbsent k v (canonKvs r)

mutual
/-- a value at the head of the text (no leading white space) -/
def pValue : Nat → Str → Option (J × Str)
  | 0, _ => none
  | _ + 1, [] => none
  | f + 1, c :: r =>
    if c == 123 then
      (match skipWs r with
       | [] => none
       | x :: r' =>
         if x == 125 then some (.obj [], r')
         else
           match pMembers f (x :: r') with
           | some (kvs, rest) => some (.obj (canonKvs kvs), rest)
           | none => none)
    else if c == 91 then
      (match skipWs r with
       | [] => none
       | x :: r' =>
         if x == 93 then some (.arr [], r')
         else
           match pElems f (x :: r') with
           | some (xs, rest) => some (.arr xs, rest)
           | none => none)
    else if c == 34 then
      (match jString r with
       | some (str, rest) => some (.str str, rest)
       | none => none)
    else if c == 110 then
      (match stripPrefix cp%"ull" r with
       | some r' => some (.null, r')
       | none => none)
    else if c == 116 then
      (match stripPrefix cp%"rue" r with
       | some r' => some (.bool true, r')
       | none => none)
    else if c == 102 then
      (match stripPrefix cp%"alse" r with
       | some r' => some (.bool false, r')
       | none => none)
    else
      match jNumber (c :: r) with
      | some (t, rest) => some (.num (numTokOfText t), rest)
      | none => none
/-- at the first character of a member (white space already skipped) -/
def pMembers : Nat → Str → Option (List (Str × J) × Str)
  | 0, _ => none
  | _ + 1, [] => none
  | f + 1, c :: r =>
    if c == 34 then
      match jString r with
      | none => none
      | some (k, r1) =>
        match skipWs r1 with
        | [] => none
        | x :: r2 =>
          if x == 58 then
            match pValue f (skipWs r2) with
            | none => none
            | some (v, r3) =>
              match skipWs r3 with
              | [] => none
              | y :: r4 =>
                if y == 44 then
                  (match pMembers f (skipWs r4) with
                   | some (kvs, rest) => some ((k, v) :: kvs, rest)
                   | none => none)
                else if y == 125 then some ([(k, v)], r4)
                else none
          else none
    else none
/-- at the first character of an element (white space already skipped) -/
def pElems : Nat → Str → Option (List J × Str)
  | 0, _ => none
  | f + 1, s =>
    match pValue f s with
    | none => none
    | some (v, r1) =>
      match skipWs r1 with
      | [] => none
      | y :: r2 =>
        if y == 44 then
          (match pElems f (skipWs r2) with
           | some (xs, rest) => some (v :: xs, rest)
           | none => none)
        else if y == 93 then some ([v], r2)
        else none
end

/-- `json.Unmarshal(data, &raw)` with `raw interface{}`; `none` = any error -/
def jsonParse (s : Str) : Option J :=
  match pValue (s.length + 1) (skipWs s) with
  | some (j, rest) => if (skipWs rest).isEmpty then some j else none
  | none => none

/-! ## Unmarshal -/

def parse (wantObj : Bool) (text : Str) : Res Yson :=
  match jsonParse (preprocess text) with
  | none => .err .unmarshalJSON
  | some j => fromJRoot wantObj j

/-- `Unmarshal(v.Marshal(), &same kind)` -/
def roundTrip (v : Yson) : Res Yson := parse v.isObj (marshal v)

/-! ## which values survive: atoms and their local conditions -/

inductive Atom where
  | qstr (s : Str)         -- a string printed through strconv.Quote
  | key (s : Str)          -- an object key (printed raw)
  | dbl (d : Dbl)
  | date (t : Str)
  | typeMember             -- a nested object with a string member "type"
deriving DecidableEq, Repr

def attrAtoms : Attrs → List Atom
  | [] => []
  | (k, v) :: r => .qstr k :: .qstr v :: attrAtoms r

def textNodeAtoms (n : TextNode) : List Atom := .qstr n.val :: attrAtoms n.attrs

def textAtoms : List TextNode → List Atom
  | [] => []
  | n :: r => textNodeAtoms n ++ textAtoms r

mutual
def treeAtoms : TreeNode → List Atom
  | .mk ty v a c => .qstr ty :: .qstr v :: (attrAtoms a ++ treeAtomsList c)
def treeAtomsList : List TreeNode → List Atom
  | [] => []
  | x :: r => treeAtoms x ++ treeAtomsList r
end

def hasTypeString : List (Str × Yson) → Bool
  | [] => false
  | (k, v) :: r => (k == sType && (match v with | .str _ => true | _ => false)) || hasTypeString r

mutual
/-- atoms of a value that is a member/element of a container -/
def atoms : Yson → List Atom
  | .null => []
  | .bool _ => []
  | .double d => [.dbl d]
  | .str s => [.qstr s]
  | .int _ => []
  | .long _ => []
  | .bytes _ => []
  | .date t => [.date t]
  | .counter (.long _) => []
  | .counter (.dedup _ _) => []
  | .counter (.int _) => []
  | .text ns => textAtoms ns
  | .tree r => treeAtoms r
  | .arr xs => atomsList xs
  | .obj kvs => (if hasTypeString kvs then [.typeMember] else []) ++ atomsKvs kvs
def atomsList : List Yson → List Atom
  | [] => []
  | x :: r => atoms x ++ atomsList r
def atomsKvs : List (Str × Yson) → List Atom
  | [] => []
  | (k, x) :: r => .key k :: (atoms x ++ atomsKvs r)
end

/-- atoms of a root value: a root object may have a `type` member -/
def rootAtoms : Yson → List Atom
  | .obj kvs => atomsKvs kvs
  | v => atoms v

inductive Tag where
  | typeMember | doubleNonFinite | dateRange
deriving DecidableEq, Repr

def Tag.name : Tag → String
  | .typeMember => "c18-type-member"
  | .doubleNonFinite => "c18-double-nonfinite"
  | .dateRange => "c18-date-range"

def Tag.all : List Tag :=
  [.typeMember, .doubleNonFinite, .dateRange]

/-- does the atom exhibit the unsafe shape `t`? -/
def Atom.hits : Atom → Tag → Bool
  | .typeMember, .typeMember => true
  | .dbl .nan, .doubleNonFinite => true
  | .dbl .posInf, .doubleNonFinite => true
  | .dbl .negInf, .doubleNonFinite => true
  | .date t, .dateRange => !dateValid t
  | _, _ => false

def Atom.safe (a : Atom) : Bool := Tag.all.all (fun t => !a.hits t)

/-- the unsafe shapes present in a root value -/
def unsafeTags (v : Yson) : List Tag :=
  Tag.all.filter (fun t => (rootAtoms v).any (fun a => a.hits t))

/-- the side condition of the round-trip theorem -/
def YsonSafe (v : Yson) : Bool := (rootAtoms v).all Atom.safe

/-! ## rebuild (SetYSON → FromCRDT): which values survive -/

inductive RTag where
  | textEmptyNode | treeRoot | treeEmptyText | dedupRegisters
deriving DecidableEq, Repr

def RTag.name : RTag → String
  | .textEmptyNode => "c18-rebuild-text-empty-node"
  | .treeRoot => "c18-rebuild-tree-root"
  | .treeEmptyText => "c18-rebuild-tree-empty-text"
  | .dedupRegisters => "c18-rebuild-dedup-registers"

def RTag.all : List RTag := [.textEmptyNode, .treeRoot, .treeEmptyText, .dedupRegisters]

mutual
def treeChildSafe : TreeNode → Bool
  | .mk ty v _ c => if ty == sText then !v.isEmpty else treeChildrenSafe c
def treeChildrenSafe : List TreeNode → Bool
  | [] => true
  | x :: r => treeChildSafe x && treeChildrenSafe r
end

def treeRootSafe : TreeNode → Bool
  | .mk _ v a _ => v.isEmpty && a.isEmpty

def treeKidsOf : TreeNode → List TreeNode
  | .mk _ _ _ c => c

mutual
def rhits (t : RTag) : Yson → Bool
  | .text ns => t == .textEmptyNode && ns.any (fun n => n.val.isEmpty)
  | .tree r => (t == .treeRoot && !treeRootSafe r) || (t == .treeEmptyText && !treeChildrenSafe (treeKidsOf r))
  | .counter (.dedup _ regs) => t == .dedupRegisters && regs.length != hllBytes
  | .arr xs => rhitsList t xs
  | .obj kvs => rhitsKvs t kvs
  | _ => false
def rhitsList (t : RTag) : List Yson → Bool
  | [] => false
  | x :: r => rhits t x || rhitsList t r
def rhitsKvs (t : RTag) : List (Str × Yson) → Bool
  | [] => false
  | (_, x) :: r => rhits t x || rhitsKvs t r
end

def rebuildTags (v : Yson) : List RTag := RTag.all.filter (fun t => rhits t v)

def RebuildSafe (v : Yson) : Bool := RTag.all.all (fun t => !rhits t v)

end Yorkie.Yson
