/-
Model of pkg/locker (`Locker`: named RW locks with reference counting), the package behind
server/backend/sync `LockerManager` (C16).  Core Lean only.

Go anchor: pkg/locker/locker.go.

    type Locker  struct { mu sync.Mutex; locks map[string]*lockCtr }
    type lockCtr struct { mu sync.RWMutex; waiters int32 }

Every public operation has one section under `Locker.mu`; `Lock`, `RLock` and `TryLock` then
operate on the inner `lockCtr.mu` OUTSIDE that section, through the pointer they looked up.
The model's atomic steps are exactly these sections:

  * take reference   (`start`)    under `Locker.mu`: look the entry up, create it when absent,
                                  `waiters++`; the goroutine keeps the POINTER to the `lockCtr`
  * acquire inner    (`acquire`)  `nameLock.Lock()` / `nameLock.RLock()` returns; enabled when the
                                  inner mutex is available.  Release and acquisition are separate
                                  steps: between a holder's release and the moment a parked waiter
                                  owns the mutex, the mutex is free for everybody (sync.Mutex does
                                  not hand ownership over in normal mode) – the hand-off window
  * try inner        (`try`)      `nameLock.TryLock()`: never blocks
  * give back        (`drop`)     a FAILED `TryLock` takes `Locker.mu` again, `waiters--`, deletes the
                                  entry at 0 (since the `fix:` commit 114f7bfc; before it – variant
                                  `leakyTry` – the reference was never given back and the entry
                                  stayed in the map for ever: ghost field `leaked`)
  * release + drop   (`unlock`)   under `Locker.mu`: look the entry up BY NAME (`ErrNoSuchLock`
                                  when absent), unlock ITS inner mutex, `waiters--`, delete the
                                  entry at 0

`lockCtr` objects live in a heap (`Nat → Obj`, ids are never reused) because the defect class of
interest is exactly "the entry a goroutine holds a pointer to is no longer the entry the map has
under that name".  A *session* is one use of the locker by a goroutine (one `internalLocker` of
server/backend/sync): idle → reference taken → inner mutex held → idle.  A goroutine that holds
several named locks is several sessions.  Which enabled session moves next is arbitrary: the
theorems of Props/C16Locker.lean hold for every number of sessions and every interleaving.
The grant policy of Go's writer-preferring RWMutex only removes interleavings; it is used by the
driver engine (`Driver/LockerEngine.lean`) to predict the scripted episodes, not by the theorems.

`Variant.ofTree` is the one-line switch that says which variant the tree has (the driver engine runs
it).  `Variant.leakyTry` is the code before 114f7bfc.  `Variant.tryRefOnCreate` is the variant "TryLock takes a reference only when it creates the
entry and tries the inner mutex inside the `Locker.mu` section" (a plausible repair of the
reference leak of a failed TryLock); `Props/C16Locker.lean` shows by a three-party schedule that
it breaks the invariant.
-/
namespace Yorkie.NamedLocker

/-- one `lockCtr` -/
structure Obj where
  /-- `waiters` -/
  refs : Nat := 0
  /-- session that holds `mu` exclusively -/
  writer : Option Nat := none
  /-- sessions that hold `mu` shared -/
  readers : List Nat := []
  /-- ghost: references left behind by failed `TryLock` calls -/
  leaked : Nat := 0
  deriving DecidableEq, Repr, Inhabited

def Obj.free (o : Obj) : Bool := o.writer.isNone && o.readers.isEmpty

/-- where a session is; `k` = the name, `o` = the id of the `lockCtr` it got from the map -/
inductive Phase
  | idle
  /-- reference taken, `nameLock.Lock()` not yet returned -/
  | wantW (k o : Nat)
  /-- reference taken, `nameLock.RLock()` not yet returned -/
  | wantR (k o : Nat)
  /-- reference taken, `nameLock.TryLock()` not yet called -/
  | wantT (k o : Nat)
  /-- `nameLock.TryLock()` has failed, the reference is not yet given back -/
  | failT (k o : Nat)
  | holdW (k o : Nat)
  | holdR (k o : Nat)
  deriving DecidableEq, Repr, Inhabited

def Phase.obj : Phase → Option Nat
  | .idle => none
  | .wantW _ o | .wantR _ o | .wantT _ o | .failT _ o | .holdW _ o | .holdR _ o => some o

def Phase.key : Phase → Option Nat
  | .idle => none
  | .wantW k _ | .wantR k _ | .wantT k _ | .failT k _ | .holdW k _ | .holdR k _ => some k

/-- the session has a reference on `lockCtr` `o` -/
def Phase.uses (o : Nat) (p : Phase) : Bool := p.obj == some o

inductive Variant
  /-- the code as it is: a failed TryLock gives its reference back -/
  | current
  /-- the code before the `fix:` commit 114f7bfc: a failed TryLock keeps its reference for ever -/
  | leakyTry
  /-- TryLock: `inc` only when the entry is created, `nameLock.TryLock()` inside the section -/
  | tryRefOnCreate
  deriving DecidableEq, Repr

/-- THE SWITCH: the variant the tree has (`.leakyTry` before the `fix:` commit 114f7bfc) -/
def Variant.ofTree : Variant := .current

structure State where
  /-- `Locker.locks`: name ↦ id of the `lockCtr` -/
  map : Nat → Option Nat := fun _ => none
  heap : Nat → Obj := fun _ => {}
  /-- next fresh object id -/
  next : Nat := 0
  /-- sessions -/
  ss : List Phase := []

def State.init (n : Nat) : State := { ss := List.replicate n .idle }

def updMap (m : Nat → Option Nat) (k : Nat) (v : Option Nat) : Nat → Option Nat :=
  fun k' => if k' = k then v else m k'

def updHeap (h : Nat → Obj) (o : Nat) (f : Obj → Obj) : Nat → Obj :=
  fun o' => if o' = o then f (h o') else h o'

/-- the section of `Lock` / `RLock` / `TryLock` under `Locker.mu`: find or create the entry and
    take a reference; returns the `lockCtr` the goroutine will use -/
def takeRef (s : State) (k : Nat) : State × Nat :=
  match s.map k with
  | some o => ({ s with heap := updHeap s.heap o (fun x => { x with refs := x.refs + 1 }) }, o)
  | none =>
    let o := s.next
    ({ s with map := updMap s.map k (some o), heap := updHeap s.heap o (fun _ => { refs := 1 }), next := o + 1 }, o)

def setPhase (s : State) (i : Nat) (p : Phase) : State := { s with ss := s.ss.set i p }

inductive Act
  | startL (k : Nat)
  | startR (k : Nat)
  | startT (k : Nat)
  | acquire
  | try
  /-- a failed TryLock gives its reference back -/
  | drop
  | unlock
  deriving DecidableEq, Repr

/-- what the step returned to its caller -/
inductive Outcome
  | none
  | acquired
  | tryOk
  | tryFailed
  | released
  /-- `Unlock` / `RUnlock` found no entry under the name: `ErrNoSuchLock` -/
  | noSuchLock
  /-- `Unlock` / `RUnlock` found an entry that is NOT the `lockCtr` the session holds and unlocked
      that one (Go: releases another goroutine's lock, or `fatal error: sync: Unlock of unlocked
      RWMutex`) -/
  | foreign
  deriving DecidableEq, Repr

/-- the `Unlock` / `RUnlock` section for session `i` that holds `o` under name `k`
    (`w` = exclusive) -/
def unlockStep (s : State) (i k o : Nat) (w : Bool) : State × Outcome :=
  match s.map k with
  | none => (setPhase s i .idle, .noSuchLock)
  | some o' =>
    let x := s.heap o'
    let x' : Obj := { x with writer := if w then none else x.writer,
                             readers := if w then x.readers else x.readers.erase i,
                             refs := x.refs - 1 }
    let s' : State := { s with heap := updHeap s.heap o' (fun _ => x'),
                               map := if x'.refs = 0 then updMap s.map k none else s.map }
    (setPhase s' i .idle, if o' = o then .released else .foreign)

/-- the section in which a failed `TryLock` gives its reference on `o` back: `waiters--`, and the
    entry is deleted at 0 (when the map still has `o` under `k`) -/
def dropStep (s : State) (i k o : Nat) : State :=
  let x := s.heap o
  let x' : Obj := { x with refs := x.refs - 1 }
  let s' : State := { s with heap := updHeap s.heap o (fun _ => x'),
                             map := if x'.refs = 0 ∧ s.map k = some o then updMap s.map k none else s.map }
  setPhase s' i .idle

/-- Session `i` performs `a`; `none` = not enabled (wrong phase, or the inner mutex is not
    available). -/
def step (v : Variant) (s : State) (i : Nat) (a : Act) : Option (State × Outcome) :=
  match s.ss[i]?, a with
  | some .idle, .startL k => let (s', o) := takeRef s k; some (setPhase s' i (.wantW k o), .none)
  | some .idle, .startR k => let (s', o) := takeRef s k; some (setPhase s' i (.wantR k o), .none)
  | some .idle, .startT k =>
    match v with
    | .current | .leakyTry => let (s', o) := takeRef s k; some (setPhase s' i (.wantT k o), .none)
    | .tryRefOnCreate =>
      -- one section: reference only on creation, then `nameLock.TryLock()`
      let (s', o) := match s.map k with
        | some o => (s, o)
        | none => takeRef s k
      if (s'.heap o).free then
        some (setPhase { s' with heap := updHeap s'.heap o (fun x => { x with writer := some i }) } i (.holdW k o), .tryOk)
      else some (setPhase s' i .idle, .tryFailed)
  | some (.wantW k o), .acquire =>
    if (s.heap o).free then
      some (setPhase { s with heap := updHeap s.heap o (fun x => { x with writer := some i }) } i (.holdW k o), .acquired)
    else none
  | some (.wantR k o), .acquire =>
    if (s.heap o).writer.isNone then
      some (setPhase { s with heap := updHeap s.heap o (fun x => { x with readers := i :: x.readers }) } i (.holdR k o), .acquired)
    else none
  | some (.wantT k o), .try =>
    if (s.heap o).free then
      some (setPhase { s with heap := updHeap s.heap o (fun x => { x with writer := some i }) } i (.holdW k o), .tryOk)
    else if v = .current then
      -- the reference is given back in a section of its own
      some (setPhase s i (.failT k o), .tryFailed)
    else
      -- the reference is never given back
      some (setPhase { s with heap := updHeap s.heap o (fun x => { x with leaked := x.leaked + 1 }) } i .idle, .tryFailed)
  | some (.failT k o), .drop => some (dropStep s i k o, .none)
  | some (.holdW k o), .unlock => some (unlockStep s i k o true)
  | some (.holdR k o), .unlock => some (unlockStep s i k o false)
  | _, _ => none

inductive Reach (v : Variant) (s₀ : State) : State → Prop
  | init : Reach v s₀ s₀
  | step {s s' i a r} : Reach v s₀ s → step v s i a = some (s', r) → Reach v s₀ s'

/-- run a schedule of (session, action) pairs; `none` when a scheduled step is not enabled -/
def exec (v : Variant) : State → List (Nat × Act) → Option (State × List Outcome)
  | s, [] => some (s, [])
  | s, (i, a) :: r =>
    match step v s i a with
    | none => none
    | some (s', o) =>
      match exec v s' r with
      | none => none
      | some (s'', os) => some (s'', o :: os)

/-- number of sessions that hold a reference on `lockCtr` `o` -/
def users (s : State) (o : Nat) : Nat := s.ss.countP (Phase.uses o)

end Yorkie.NamedLocker
