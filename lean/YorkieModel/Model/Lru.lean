/-
Model of the cache wrappers used by the server (core Lean only).

* `pkg/cache/lru_with_stats.go`  – `LRU[K,V]`: `numShards` hashicorp LRUs, a key lives in
  shard `shardOf key` (`maphash.Comparable(seed,key) & (numShards-1)`; the seed is random
  per process, so `shardOf` is an arbitrary function here).
* `pkg/cache/lru_with_expires.go` – `LRUWithExpires[K,V]`: one expirable LRU; entries may
  disappear at any time (TTL).  Modelled by the extra operation `drop keep`, which also
  stands for any other eviction the environment may cause.
* hashicorp `simplelru`: entries most-recently-used first; `Add` of a present key updates
  and promotes it, `Add` of a new key pushes it and evicts the oldest entry when the
  shard exceeds its capacity; `Get` promotes; `Peek`/`Contains` do not.
* `server/packs/snapshot.go` `BuildInternalDocForServerSeq` over an abstract document
  type: `SnapWorld` (log of changes, stored snapshots, one cached rebuilt document).

Statistics counters (hits/misses) are not part of any answer and are not modelled.
-/
namespace Yorkie.Lru

structure Cache (K V : Type) where
  cap : Nat
  shardOf : K → Nat
  shards : Nat → List (K × V)

variable {K V : Type} [DecidableEq K]

def Cache.empty (cap : Nat) (shardOf : K → Nat) : Cache K V := ⟨cap, shardOf, fun _ => []⟩

/-- move / insert `(k,v)` at the most-recently-used end -/
def touch (l : List (K × V)) (k : K) (v : V) : List (K × V) :=
  (k, v) :: l.filter (fun p => p.1 ≠ k)

def Cache.onShard (c : Cache K V) (k : K) (f : List (K × V) → List (K × V)) : Cache K V :=
  { c with shards := fun i => if i = c.shardOf k then f (c.shards i) else c.shards i }

def Cache.lookup (c : Cache K V) (k : K) : Option V :=
  ((c.shards (c.shardOf k)).find? (fun p => p.1 = k)).map (·.2)

/-- `Add` -/
def Cache.add (c : Cache K V) (k : K) (v : V) : Cache K V :=
  c.onShard k (fun l => (touch l k v).take c.cap)

/-- `Get`: value + promoted entry -/
def Cache.get (c : Cache K V) (k : K) : Cache K V × Option V :=
  match c.lookup k with
  | some v => (c.onShard k (fun l => touch l k v), some v)
  | none => (c, none)

/-- `Peek` -/
def Cache.peek (c : Cache K V) (k : K) : Option V := c.lookup k

/-- `Remove` -/
def Cache.remove (c : Cache K V) (k : K) : Cache K V :=
  c.onShard k (fun l => l.filter (fun p => p.1 ≠ k))

/-- `Purge` -/
def Cache.purge (c : Cache K V) : Cache K V := { c with shards := fun _ => [] }

/-- expiry / any environment-caused eviction -/
def Cache.drop (c : Cache K V) (keep : K → Bool) : Cache K V :=
  { c with shards := fun i => (c.shards i).filter (fun p => keep p.1) }

inductive Op (K V : Type)
  | add (k : K) (v : V)
  | get (k : K)
  | peek (k : K)
  | remove (k : K)
  | purge
  | drop (keep : K → Bool)

def step (c : Cache K V) : Op K V → Cache K V × Option V
  | .add k v => (c.add k v, none)
  | .get k => c.get k
  | .peek k => (c, c.peek k)
  | .remove k => (c.remove k, none)
  | .purge => (c.purge, none)
  | .drop keep => (c.drop keep, none)

def run (c : Cache K V) : List (Op K V) → Cache K V
  | [] => c
  | op :: ops => run (step c op).1 ops

/-- reference map: the value of the last `Add k` that no `Remove k` / `Purge` followed -/
def refStep (m : K → Option V) : Op K V → K → Option V
  | .add k v => fun k' => if k' = k then some v else m k'
  | .remove k => fun k' => if k' = k then none else m k'
  | .purge => fun _ => none
  | _ => m

def ref (m : K → Option V) : List (Op K V) → K → Option V
  | [] => m
  | op :: ops => ref (refStep m op) ops

/-! ### snapshot cache over an abstract document -/

/-- one document's server-side data: change log (1-based server sequences), stored
    snapshots `(serverSeq, doc)`, and the snapshot-cache entry -/
structure SnapWorld (D C : Type) where
  log : List C
  snaps : List (Nat × D)
  cached : Option (Nat × D)

variable {D C : Type}

/-- `FindClosestSnapshotInfo(serverSeq)`: the stored snapshot with the largest
    sequence `≤ k`, the initial document when there is none -/
def closest (init : D) (snaps : List (Nat × D)) (k : Nat) : Nat × D :=
  snaps.foldl (fun best s => if s.1 ≤ k ∧ best.1 ≤ s.1 then s else best) (0, init)

/-- rebuilding from scratch -/
def cold (apply : D → C → D) (init : D) (log : List C) (k : Nat) : D :=
  (log.take k).foldl apply init

/-- `BuildInternalDocForServerSeq(serverSeq = k)`: start from the cached document unless
    it is ahead of `k`, otherwise from the closest stored snapshot; apply the changes
    `(start, k]`; store the result in the cache. -/
def build (apply : D → C → D) (init : D) (w : SnapWorld D C) (k : Nat) : SnapWorld D C × D :=
  let start : Nat × D :=
    match w.cached with
    | some (k0, d0) => if k < k0 then closest init w.snaps k else (k0, d0)
    | none => closest init w.snaps k
  let doc := ((w.log.drop start.1).take (k - start.1)).foldl apply start.2
  ({ w with cached := some (k, doc) }, doc)

inductive SnapOp (C : Type)
  | push (cs : List C)
  | build (k : Nat)
  | evict
  | storeSnapshot

def snapStep (apply : D → C → D) (init : D) (w : SnapWorld D C) : SnapOp C → SnapWorld D C
  | .push cs => { w with log := w.log ++ cs }
  | .build k => (build apply init w (min k w.log.length)).1
  | .evict => { w with cached := none }
  | .storeSnapshot => { w with snaps := (w.log.length, cold apply init w.log w.log.length) :: w.snaps }

def snapRun (apply : D → C → D) (init : D) (w : SnapWorld D C) : List (SnapOp C) → SnapWorld D C
  | [] => w
  | op :: ops => snapRun apply init (snapStep apply init w op) ops

end Yorkie.Lru
