/-
YSON (C18): value types, `Marshal`, the JSON tree `Unmarshal` works on, and the
tree-level half of `Unmarshal` (parseObject/parseArray/parseTypedValue/…).

Go anchors: pkg/document/yson/yson.go (types, Marshal, parse*), to_yson.go,
pkg/document/json/{object,array,text,tree}.go (SetYSON and friends).
The text-level half (strconv.Quote, the regex/ReplaceAll pre-pass,
encoding/json) is Model/YsonText.lean.

Modelling decisions (trusted base)
* A Go string is a `List Nat` of Unicode scalar values (`Str`).  Strings that are
  not valid UTF-8 are outside the model.  Code-point order is UTF-8 byte order,
  so `strLt` is `sort.Strings`' order.
* A Go map is an association list with strictly increasing keys (`wf`).
* `float64` values are not Lean floats.  A finite double is carried as the text
  Go's `%v` prints for it (`Dbl.fin`); a JSON number is a `NumTok` (canonical
  integer literal, or other literal text).  Since the UseNumber fix (F-C18-long) integers never pass through
  float64 (`json.Number` + `strconv.ParseInt`); the float64 conversions of the older code
  are kept in Model/YsonV0.lean (`V0Float`).
* The failed-assertion panics of the older parser are gone (checked assertions); `Res.panic`
  is only produced by `V0Float`.
* `time.Time` is carried as its RFC3339Nano text; `[]byte` as a list of bytes.
* `Counter.Value` is `int32` for Int/Dedup counters and `int64` for Long ones
  (what `FromCRDT` produces).
Core Lean only.
-/
namespace Yorkie.Yson

abbrev Str := List Nat

open Lean in
/-- `cp%"abc"` is the list of code points of the literal, as explicit numerals
(so that the kernel never has to unfold `String`). -/
macro:max "cp%" s:str : term => do
  let cs := s.getString.toList.toArray.map (fun c => Syntax.mkNumLit (toString c.toNat))
  `(([$cs,*] : List Nat))

/-- lexicographic order on code points = bytewise order of valid UTF-8 = `sort.Strings` -/
def strLt : Str → Str → Bool
  | [], [] => false
  | [], _ :: _ => true
  | _ :: _, [] => false
  | a :: r, b :: s => if a < b then true else if b < a then false else strLt r s

/-! ## outcomes -/

/-- the fixed error strings of yson.go (`Error()` text after the `%w` wrapping) -/
inductive Err where
  | unmarshalJSON        -- "unmarshal JSON: invalid YSON"
  | unmarshalObject      -- "unmarshal object: invalid YSON"
  | unmarshalArray       -- "unmarshal array: invalid YSON"
  | unsupported          -- "unsupported element"
  | parseBinData         -- "parse BinData: invalid YSON"
  | parseDate            -- "parse date: invalid YSON"
  | parseCounterSic      -- "parse counter: invalid YSON"  (Tree wrapper whose value is not an object)
  | parseText            -- "parse text: invalid YSON"
  | parseTextValue       -- "parse text value: invalid YSON"
  | counterType          -- "parse counter type: unsupported element"
  | counterValue         -- "parse counter value: unsupported element"
  | dedupType            -- "parse dedup counter type: unsupported element"
  | dedupHll             -- "parse dedup counter hll: unsupported element"
  | dedupHllInvalid      -- "parse dedup counter hll: invalid YSON"
  | dedupValue           -- "parse dedup counter value: invalid YSON"
  | parseInt             -- "parse int: invalid YSON"             (since the UseNumber fix)
  | parseLong            -- "parse long: invalid YSON"
  | parseTextNode        -- "parse text node: invalid YSON"
  | parseTextAttribute   -- "parse text attribute: invalid YSON"
  | parseTreeAttribute   -- "parse tree attribute: invalid YSON"
  | parseTreeNode        -- "parse tree node: invalid YSON"
deriving DecidableEq, Repr

/-- dynamic types of `interface{}` values produced by encoding/json -/
inductive GoTy where
  | nil | bool | float64 | string | map | slice
deriving DecidableEq, Repr

inductive Res (α : Type) where
  | ok (a : α)
  | err (e : Err)
  /-- failed type assertion `x.(want)` where x has dynamic type `got` -/
  | panic (got want : GoTy)
  /-- a panic raised by json.SetYSON (rebuild only) -/
  | setPanic (why : Nat)
deriving Repr

def Res.bind {α β} (r : Res α) (f : α → Res β) : Res β :=
  match r with
  | .ok a => f a
  | .err e => .err e
  | .panic g w => .panic g w
  | .setPanic n => .setPanic n

def Res.map {α β} (f : α → β) (r : Res α) : Res β := r.bind (fun a => .ok (f a))

/-! ## numbers -/

/-- a JSON number literal: a canonical integer literal (`-?(0|[1-9][0-9]*)`, not `-0`)
or any other literal, kept as text -/
inductive NumTok where
  | int (i : Int)
  | other (txt : Str)
deriving DecidableEq, Repr

def natDigitsAux : Nat → Nat → Str → Str
  | 0, _, acc => acc
  | fuel + 1, n, acc => if n < 10 then (48 + n) :: acc else natDigitsAux fuel (n / 10) ((48 + n % 10) :: acc)

/-- decimal digits of a natural (`%d`) -/
def natDigits (n : Nat) : Str := natDigitsAux (n + 1) n []

/-- `%d` of an integer -/
def showInt (i : Int) : Str :=
  match i with
  | .ofNat n => natDigits n
  | .negSucc n => 45 :: natDigits (n + 1)

def NumTok.text : NumTok → Str
  | .int i => showInt i
  | .other t => t


/-! digits -/

def isDigit (c : Nat) : Bool := 48 ≤ c && c ≤ 57

def digitsVal : Str → Nat → Nat
  | [], acc => acc
  | c :: r, acc => digitsVal r (acc * 10 + (c - 48))

def takeDigits : Str → Str × Str
  | [] => ([], [])
  | c :: r => if isDigit c then (c :: (takeDigits r).1, (takeDigits r).2) else ([], c :: r)


/-! JSON number grammar `-?(0|[1-9][0-9]*)(\.[0-9]+)?([eE][+-]?[0-9]+)?`, phase by phase;
each phase returns what it consumed and the rest -/

def jSign (s : Str) : Str × Str :=
  match s with
  | 45 :: r => ([45], r)
  | _ => ([], s)

def jInt (s : Str) : Option (Str × Str) :=
  match s with
  | [] => none
  | c :: r => if c == 48 then some ([48], r) else if isDigit c then some (takeDigits (c :: r)) else none

def jFrac (s : Str) : Option (Str × Str) :=
  match s with
  | [] => some ([], [])
  | c :: r =>
    if c == 46 then
      (if (takeDigits r).1.isEmpty then none else some (46 :: (takeDigits r).1, (takeDigits r).2))
    else some ([], c :: r)

def jExpSign (s : Str) : Str × Str :=
  match s with
  | [] => ([], [])
  | c :: r => if c == 43 || c == 45 then ([c], r) else ([], c :: r)

def jExp (s : Str) : Option (Str × Str) :=
  match s with
  | [] => some ([], [])
  | c :: r =>
    if c == 101 || c == 69 then
      (if (takeDigits (jExpSign r).2).1.isEmpty then none
       else some (c :: ((jExpSign r).1 ++ (takeDigits (jExpSign r).2).1), (takeDigits (jExpSign r).2).2))
    else some ([], c :: r)

/-- JSON number at the head of the text: the literal and the rest -/
def jNumber (s : Str) : Option (Str × Str) :=
  match jInt (jSign s).2 with
  | none => none
  | some (ip, s2) =>
    match jFrac s2 with
    | none => none
    | some (fp, s3) =>
      match jExp s3 with
      | none => none
      | some (ep, s4) => some ((jSign s).1 ++ ip ++ fp ++ ep, s4)

/-- the text is exactly one JSON number literal -/
def isJsonNumber (t : Str) : Bool :=
  match jNumber t with
  | some (a, []) => a == t
  | _ => false

def inI32 (n : Int) : Bool := -(2 ^ 31 : Int) ≤ n && n < (2 ^ 31 : Int)
def inI64 (n : Int) : Bool := -(2 ^ 63 : Int) ≤ n && n < (2 ^ 63 : Int)

/-- `strconv.ParseInt(n.String(), 10, _)` on a json.Number, before the range check: the
literal must consist of an optional sign and digits.  Among JSON number literals these are
the canonical integer literals and `-0`. -/
def NumTok.toInt? : NumTok → Option Int
  | .int i => some i
  | .other t => if t == [45, 48] then some 0 else none

/-- parseInt64 (since the UseNumber fix: json.Number, no float64 in between) -/
def NumTok.toI64? (n : NumTok) : Option Int :=
  match n.toInt? with
  | some i => if inI64 i then some i else none
  | none => none

/-- parseInt32 -/
def NumTok.toI32? (n : NumTok) : Option Int :=
  match n.toInt? with
  | some i => if inI32 i then some i else none
  | none => none


/-! ## base64 (encoding/base64 StdEncoding) -/

def b64Char (n : Nat) : Nat :=
  if n < 26 then 65 + n else if n < 52 then 71 + n else if n < 62 then n - 4 else if n == 62 then 43 else 47

def b64Val (c : Nat) : Option Nat :=
  if 65 ≤ c && c ≤ 90 then some (c - 65)
  else if 97 ≤ c && c ≤ 122 then some (c - 71)
  else if 48 ≤ c && c ≤ 57 then some (c + 4)
  else if c == 43 then some 62
  else if c == 47 then some 63
  else none

/-- `EncodeToString` -/
def b64Encode : List Nat → Str
  | [] => []
  | [a] => [b64Char (a / 4), b64Char (a % 4 * 16), 61, 61]
  | [a, b] => [b64Char (a / 4), b64Char (a % 4 * 16 + b / 16), b64Char (b % 16 * 4), 61]
  | a :: b :: c :: r =>
    b64Char (a / 4) :: b64Char (a % 4 * 16 + b / 16) :: b64Char (b % 16 * 4 + c / 64) :: b64Char (c % 64) :: b64Encode r

/-- decoder on input from which `\r`/`\n` were already dropped: quanta of four
characters, padding only in the last one -/
def b64DecodeAux : Str → Option (List Nat)
  | [] => some []
  | c1 :: c2 :: c3 :: c4 :: r =>
    if c4 == 61 then
      if r.isEmpty then
        if c3 == 61 then
          match b64Val c1, b64Val c2 with
          | some v1, some v2 => some [v1 * 4 + v2 / 16]
          | _, _ => none
        else
          match b64Val c1, b64Val c2, b64Val c3 with
          | some v1, some v2, some v3 => some [v1 * 4 + v2 / 16, v2 % 16 * 16 + v3 / 4]
          | _, _, _ => none
      else none
    else
      match b64Val c1, b64Val c2, b64Val c3, b64Val c4 with
      | some v1, some v2, some v3, some v4 =>
        match b64DecodeAux r with
        | some bs => some ((v1 * 4 + v2 / 16) :: (v2 % 16 * 16 + v3 / 4) :: (v3 % 4 * 64 + v4) :: bs)
        | none => none
      | _, _, _, _ => none
  | _ => none

/-- `StdEncoding.DecodeString`: newlines are skipped, padding is mandatory,
trailing bits are ignored (non-strict) -/
def notNl (c : Nat) : Bool := !(c == 10 || c == 13)

def b64Decode (s : Str) : Option (List Nat) := b64DecodeAux (List.filter notNl s)

/-! ## RFC3339Nano dates -/

def num2 (a b : Nat) : Nat := (a - 48) * 10 + (b - 48)

def daysIn (y m : Nat) : Nat :=
  if m == 2 then (if y % 4 == 0 && (y % 100 != 0 || y % 400 == 0) then 29 else 28)
  else if m == 4 || m == 6 || m == 9 || m == 11 then 30 else 31

/-- fraction of a second as `time.Format` prints it: 1–9 digits, last one not 0 -/
def fracOk : Str → Nat → Bool → Option Str
  | [], _, _ => none
  | c :: r, n, last0 =>
    if isDigit c then (if n ≥ 9 then none else fracOk r (n + 1) (c == 48))
    else if n == 0 || last0 then none else some (c :: r)

def zoneOk : Str → Bool
  | [90] => true
  | [s, h1, h2, 58, m1, m2] =>
    (s == 43 || s == 45) && isDigit h1 && isDigit h2 && isDigit m1 && isDigit m2 && num2 h1 h2 < 24 && num2 m1 m2 < 60
  | _ => false

def dateChar (c : Nat) : Bool :=
  isDigit c || c == 45 || c == 58 || c == 84 || c == 46 || c == 90 || c == 43

def dateShape (s : Str) : Bool :=
  let g (i : Nat) : Nat := s.getD i 0
  let y := num2 (g 0) (g 1) * 100 + num2 (g 2) (g 3)
  let mo := num2 (g 5) (g 6)
  let d := num2 (g 8) (g 9)
  s.length ≥ 20
    && [g 0, g 1, g 2, g 3, g 5, g 6, g 8, g 9, g 11, g 12, g 14, g 15, g 17, g 18].all isDigit
    && g 4 == 45 && g 7 == 45 && g 10 == 84 && g 13 == 58 && g 16 == 58
    && 1 ≤ mo && mo ≤ 12 && 1 ≤ d && d ≤ daysIn y mo
    && num2 (g 11) (g 12) < 24 && num2 (g 14) (g 15) < 60 && num2 (g 17) (g 18) < 60
    && (match s.drop 19 with
        | 46 :: r => (match fracOk r 0 false with | some z => zoneOk z | none => false)
        | z => zoneOk z)

/-- accepts exactly what `time.Time.Format(time.RFC3339Nano)` prints for years
0–9999; on these `time.Parse(time.RFC3339Nano, ·)` succeeds and formats back to the
same text.  Everything else is treated as a parse error (Go's parser is slightly
more lenient – e.g. trailing fractional zeros – which the generators never emit).
The character class is implied by `dateShape`; it is stated separately for the proofs. -/
def dateValid (s : Str) : Bool := s.all dateChar && dateShape s

/-! ## values -/

/-- a `float64`: non-finite values, or the `%v` text of a finite one -/
inductive Dbl where
  | nan | posInf | negInf
  | fin (txt : Str)
deriving DecidableEq, Repr

abbrev Attrs := List (Str × Str)

/-- yson.TextNode -/
structure TextNode where
  val : Str
  attrs : Attrs
deriving DecidableEq, Repr

/-- yson.TreeNode.  Normal form (`wf`): a node of type "text" has no attributes and
no children, any other node has an empty value – exactly the fields `Marshal` prints. -/
inductive TreeNode where
  | mk (type : Str) (value : Str) (attrs : Attrs) (children : List TreeNode)

/-- yson.Counter -/
inductive Counter where
  | int (n : Int)
  | long (n : Int)
  | dedup (n : Int) (regs : List Nat)
deriving DecidableEq, Repr

/-- a YSON value (`interface{}` holding a primitive or a yson.Element) -/
inductive Yson where
  | null
  | bool (b : Bool)
  | double (d : Dbl)
  | str (s : Str)
  | int (n : Int)            -- int32
  | long (n : Int)           -- int64
  | bytes (b : List Nat)
  | date (txt : Str)
  | counter (c : Counter)
  | text (nodes : List TextNode)
  | tree (root : TreeNode)
  | arr (xs : List Yson)
  | obj (kvs : List (Str × Yson))

/-- what encoding/json decodes into `interface{}`; objects are kept with strictly
increasing keys (a Go map printed in sorted order) -/
inductive J where
  | null
  | bool (b : Bool)
  | num (n : NumTok)
  | str (s : Str)
  | arr (xs : List J)
  | obj (kvs : List (Str × J))

/-! ### boolean equality (DecidableEq cannot be derived for nested inductives) -/

mutual
def TreeNode.beq : TreeNode → TreeNode → Bool
  | .mk t v a c, .mk t' v' a' c' => t == t' && v == v' && a == a' && TreeNode.beqList c c'
def TreeNode.beqList : List TreeNode → List TreeNode → Bool
  | [], [] => true
  | x :: r, y :: s => TreeNode.beq x y && TreeNode.beqList r s
  | _, _ => false
end

mutual
def Yson.beq : Yson → Yson → Bool
  | .null, .null => true
  | .bool a, .bool b => a == b
  | .double a, .double b => a == b
  | .str a, .str b => a == b
  | .int a, .int b => a == b
  | .long a, .long b => a == b
  | .bytes a, .bytes b => a == b
  | .date a, .date b => a == b
  | .counter a, .counter b => a == b
  | .text a, .text b => a == b
  | .tree a, .tree b => TreeNode.beq a b
  | .arr a, .arr b => Yson.beqList a b
  | .obj a, .obj b => Yson.beqKvs a b
  | _, _ => false
def Yson.beqList : List Yson → List Yson → Bool
  | [], [] => true
  | x :: r, y :: s => Yson.beq x y && Yson.beqList r s
  | _, _ => false
def Yson.beqKvs : List (Str × Yson) → List (Str × Yson) → Bool
  | [], [] => true
  | (k, x) :: r, (k', y) :: s => k == k' && Yson.beq x y && Yson.beqKvs r s
  | _, _ => false
end

mutual
def J.beq : J → J → Bool
  | .null, .null => true
  | .bool a, .bool b => a == b
  | .num a, .num b => a == b
  | .str a, .str b => a == b
  | .arr a, .arr b => J.beqList a b
  | .obj a, .obj b => J.beqKvs a b
  | _, _ => false
def J.beqList : List J → List J → Bool
  | [], [] => true
  | x :: r, y :: s => J.beq x y && J.beqList r s
  | _, _ => false
def J.beqKvs : List (Str × J) → List (Str × J) → Bool
  | [], [] => true
  | (k, x) :: r, (k', y) :: s => k == k' && J.beq x y && J.beqKvs r s
  | _, _ => false
end

/-- is the outcome `ok v`? -/
def Res.isOk (r : Res Yson) (v : Yson) : Bool :=
  match r with
  | .ok a => Yson.beq a v
  | _ => false

/-! ## constant strings -/

def sType : Str := cp%"type"
def sValue : Str := cp%"value"
def sVal : Str := cp%"val"
def sAttrs : Str := cp%"attrs"
def sChildren : Str := cp%"children"
def sText : Str := cp%"text"
def sRoot : Str := cp%"root"
def sInt : Str := cp%"Int"
def sLong : Str := cp%"Long"
def sBinData : Str := cp%"BinData"
def sDate : Str := cp%"Date"
def sCounter : Str := cp%"Counter"
def sDedupCounter : Str := cp%"DedupCounter"
def sTree : Str := cp%"Tree"
def sTextW : Str := cp%"Text"
def sCounterType : Str := cp%"counterType"
def sHll : Str := cp%"hll"

/-! ## the JSON tree of a value: what `Unmarshal`'s pre-pass + encoding/json make of
`Marshal`'s text when no string is damaged (bridge: Model/YsonText.lean) -/

def intLitVal (t : Str) : Int :=
  match t with
  | 45 :: r => -(digitsVal r 0 : Int)
  | _ => (digitsVal t 0 : Int)

def isIntLit (t : Str) : Bool :=
  match t with
  | 45 :: r => !r.isEmpty && r.all isDigit
  | _ => !t.isEmpty && t.all isDigit

/-- classify a number literal the way the JSON reader of the model does -/
def numTokOfText (t : Str) : NumTok :=
  if isIntLit t && showInt (intLitVal t) == t then .int (intLitVal t) else .other t

def wrapJ (ty : Str) (v : J) : J := .obj [(sType, .str ty), (sValue, v)]

def attrsJ : Attrs → List (Str × J)
  | [] => []
  | (k, v) :: r => (k, .str v) :: attrsJ r

def textNodeJ (n : TextNode) : J :=
  if n.attrs.isEmpty then .obj [(sVal, .str n.val)]
  else .obj [(sAttrs, .obj (attrsJ n.attrs)), (sVal, .str n.val)]

mutual
def treeJ : TreeNode → J
  | .mk ty v a c =>
    if ty == sText then .obj [(sType, .str ty), (sValue, .str v)]
    else if a.isEmpty then .obj [(sChildren, .arr (treeJList c)), (sType, .str ty)]
    else .obj [(sAttrs, .obj (attrsJ a)), (sChildren, .arr (treeJList c)), (sType, .str ty)]
def treeJList : List TreeNode → List J
  | [] => []
  | x :: r => treeJ x :: treeJList r
end

def counterJ : Counter → J
  | .int n => wrapJ sCounter (wrapJ sInt (.num (.int n)))
  | .long n => wrapJ sCounter (wrapJ sLong (.num (.int n)))
  | .dedup n regs =>
    .obj [(sCounterType, .str sInt), (sHll, .str (b64Encode regs)), (sType, .str sDedupCounter), (sValue, .num (.int n))]

mutual
def toJ : Yson → J
  | .null => .null
  | .bool b => .bool b
  | .double (.fin t) => .num (numTokOfText t)
  | .double _ => .null    -- NaN/±Inf have no JSON form; excluded by `YsonSafe`
  | .str s => .str s
  | .int n => wrapJ sInt (.num (.int n))
  | .long n => wrapJ sLong (.num (.int n))
  | .bytes b => wrapJ sBinData (.str (b64Encode b))
  | .date t => wrapJ sDate (.str t)
  | .counter c => counterJ c
  | .text ns => wrapJ sTextW (.arr (ns.map textNodeJ))
  | .tree r => wrapJ sTree (treeJ r)
  | .arr xs => .arr (toJList xs)
  | .obj kvs => .obj (toJKvs kvs)
def toJList : List Yson → List J
  | [] => []
  | x :: r => toJ x :: toJList r
def toJKvs : List (Str × Yson) → List (Str × J)
  | [] => []
  | (k, x) :: r => (k, toJ x) :: toJKvs r
end

/-! ## tree-level half of `Unmarshal` -/

def J.ty : J → GoTy
  | .null => .nil
  | .bool _ => .bool
  | .num _ => .float64
  | .str _ => .string
  | .arr _ => .slice
  | .obj _ => .map

/-- `raw[k]` (nil when absent) -/
def J.get : List (Str × J) → Str → J
  | [], _ => .null
  | (k', v) :: r, k => if k' == k then v else J.get r k

/-- `raw[k].(string)` with ok -/
def J.getStr? (kvs : List (Str × J)) (k : Str) : Option Str :=
  match J.get kvs k with
  | .str s => some s
  | _ => none

/-- parseInt32(x): x must be a json.Number holding an int32 literal -/
def J.asInt32 (j : J) : Res Int :=
  match j with
  | .num n => (match n.toI32? with | some i => .ok i | none => .err .parseInt)
  | _ => .err .parseInt

/-- parseInt64(x) -/
def J.asInt64 (j : J) : Res Int :=
  match j with
  | .num n => (match n.toI64? with | some i => .ok i | none => .err .parseLong)
  | _ => .err .parseLong

/-- `attrs[k] = v.(string)` with ok for every member; `e` is the caller's error -/
def parseAttrs (e : Err) : List (Str × J) → Res Attrs
  | [] => .ok []
  | (k, v) :: r =>
    match v with
    | .str s => (parseAttrs e r).bind fun rest => .ok ((k, s) :: rest)
    | _ => .err e

/-- parseCounter -/
def parseCounter (raw : List (Str × J)) : Res Counter :=
  match J.get raw sValue with
  | .obj value =>
    match J.getStr? value sType with
    | some t =>
      if t == sInt then (J.asInt32 (J.get value sValue)).bind fun i => .ok (.int i)
      else if t == sLong then (J.asInt64 (J.get value sValue)).bind fun i => .ok (.long i)
      else .err .counterType
    | none => .err .counterType
  | _ => .err .counterValue

/-- parseDedupCounter -/
def parseDedupCounter (raw : List (Str × J)) : Res Counter :=
  match J.getStr? raw sCounterType with
  | none => .err .dedupType
  | some ct =>
    match J.getStr? raw sHll with
    | none => .err .dedupHll
    | some hll =>
      match b64Decode hll with
      | none => .err .dedupHllInvalid
      | some regs =>
        if ct == sInt then
          match J.asInt32 (J.get raw sValue) with
          | .ok i => .ok (.dedup i regs)
          | _ => .err .dedupValue
        else .err .dedupType

/-- one element of parseText's loop -/
def parseTextNode (node : J) : Res TextNode :=
  match node with
  | .obj n =>
    match J.getStr? n sVal with
    | none => .err .parseTextValue
    | some val =>
      match J.get n sAttrs with
      | .obj attrs => (parseAttrs .parseTextAttribute attrs).bind fun a => .ok ⟨val, a⟩
      | _ => .ok ⟨val, []⟩
  | _ => .err .parseTextNode

def parseText : List J → Res (List TextNode)
  | [] => .ok []
  | x :: r => (parseTextNode x).bind fun n => (parseText r).bind fun ns => .ok (n :: ns)

/-- `raw["attrs"].(map[string]interface{})` then the string assertions -/
def treeAttrsIn (raw : List (Str × J)) : Res Attrs :=
  match J.get raw sAttrs with
  | .obj attrs => parseAttrs .parseTreeAttribute attrs
  | _ => .ok []

mutual
/-- parseTreeNode on `child.(map[string]interface{})` (with ok) -/
def parseTreeNode : J → Res TreeNode
  | .obj raw =>
    let ty := (J.getStr? raw sType).getD sRoot
    let value := (J.getStr? raw sValue).getD []
    (treeAttrsIn raw).bind fun attrs =>
    (treeChildrenIn raw).bind fun children => .ok (.mk ty value attrs children)
  | .null => .err .parseTreeNode
  | .bool _ => .err .parseTreeNode
  | .num _ => .err .parseTreeNode
  | .str _ => .err .parseTreeNode
  | .arr _ => .err .parseTreeNode
/-- `raw["children"].([]interface{})` and the loop over it -/
def treeChildrenIn : List (Str × J) → Res (List TreeNode)
  | [] => .ok []
  | (k, v) :: r =>
    if k == sChildren then
      match v with
      | .arr xs => parseTreeList xs
      | _ => .ok []
    else treeChildrenIn r
def parseTreeList : List J → Res (List TreeNode)
  | [] => .ok []
  | x :: r => (parseTreeNode x).bind fun n => (parseTreeList r).bind fun ns => .ok (n :: ns)
end

/-- parseTypedValue (the caller has checked that `raw["type"]` is the string `t`) -/
def parseTypedValue (raw : List (Str × J)) (t : Str) : Res Yson :=
  if t == sInt then (J.asInt32 (J.get raw sValue)).bind fun i => .ok (.int i)
  else if t == sLong then (J.asInt64 (J.get raw sValue)).bind fun i => .ok (.long i)
  else if t == sBinData then
    match J.get raw sValue with
    | .str s =>
      (match b64Decode s with
       | some b => .ok (.bytes b)
       | none => .err .parseBinData)
    | _ => .err .parseBinData
  else if t == sDate then
    match J.get raw sValue with
    | .str s => if dateValid s then .ok (.date s) else .err .parseDate
    | _ => .err .parseDate
  else if t == sCounter then (parseCounter raw).map .counter
  else if t == sDedupCounter then (parseDedupCounter raw).map .counter
  else if t == sTree then
    match J.get raw sValue with
    | .obj v => (parseTreeNode (.obj v)).map .tree
    | _ => .err .parseCounterSic
  else if t == sTextW then
    match J.get raw sValue with
    | .arr v => (parseText v).map .text
    | _ => .err .parseText
  else .err .unsupported

mutual
/-- the `switch v := v.(type)` shared by parseObject and parseArray; a bare number becomes a
Double (parseScalar: `json.Number.Float64()`) -/
def parseMember : J → Res Yson
  | .obj kvs =>
    match J.getStr? kvs sType with
    | some t => parseTypedValue kvs t
    | none => (parseObject kvs).map .obj
  | .arr xs => (parseArray xs).map .arr
  | .null => .ok .null
  | .bool b => .ok (.bool b)
  | .num n => .ok (.double (.fin n.text))
  | .str s => .ok (.str s)
def parseObject : List (Str × J) → Res (List (Str × Yson))
  | [] => .ok []
  | (k, v) :: r => (parseMember v).bind fun y => (parseObject r).bind fun ys => .ok ((k, y) :: ys)
def parseArray : List J → Res (List Yson)
  | [] => .ok []
  | x :: r => (parseMember x).bind fun y => (parseArray r).bind fun ys => .ok (y :: ys)
end

/-- the `switch e := elem.(type)` of `Unmarshal` for `*Object` / `*Array` targets:
the target kind is the kind of the value that was marshalled -/
def fromJRoot (wantObj : Bool) (raw : J) : Res Yson :=
  if wantObj then
    match raw with
    | .obj kvs => (parseObject kvs).map .obj
    | _ => .err .unmarshalObject
  else
    match raw with
    | .arr xs => (parseArray xs).map .arr
    | _ => .err .unmarshalArray

def Yson.isObj : Yson → Bool
  | .obj _ => true
  | _ => false

/-! ## well-formedness: "is the image of a Go value" -/

def validCp (c : Nat) : Bool := c < 0xD800 || (0xE000 ≤ c && c < 0x110000)
def wfStr (s : Str) : Bool := s.all validCp

/-- strictly increasing keys -/
def sortedKeys : List Str → Bool
  | [] => true
  | [_] => true
  | a :: b :: r => strLt a b && sortedKeys (b :: r)

def wfAttrs (a : Attrs) : Bool :=
  sortedKeys (a.map (·.1)) && a.all (fun p => wfStr p.1 && wfStr p.2)

def wfBytes (b : List Nat) : Bool := b.all (· < 256)

mutual
def TreeNode.wf : TreeNode → Bool
  | .mk ty v a c =>
    wfStr ty && wfStr v && wfAttrs a &&
    (if ty == sText then a.isEmpty && c.isEmpty else v.isEmpty) && TreeNode.wfList c
def TreeNode.wfList : List TreeNode → Bool
  | [] => true
  | x :: r => TreeNode.wf x && TreeNode.wfList r
end

def Counter.wf : Counter → Bool
  | .int n => inI32 n
  | .long n => inI64 n
  | .dedup n regs => inI32 n && wfBytes regs

def TextNode.wf (n : TextNode) : Bool := wfStr n.val && wfAttrs n.attrs

def Yson.keysOf : List (Str × Yson) → List Str
  | [] => []
  | (k, _) :: r => k :: Yson.keysOf r

mutual
def Yson.wf : Yson → Bool
  | .null => true
  | .bool _ => true
  | .double (.fin t) => isJsonNumber t
  | .double _ => true
  | .str s => wfStr s
  | .int n => inI32 n
  | .long n => inI64 n
  | .bytes b => wfBytes b
  | .date t => wfStr t
  | .counter c => c.wf
  | .text ns => ns.all TextNode.wf
  | .tree r => r.wf
  | .arr xs => Yson.wfList xs
  | .obj kvs => sortedKeys (Yson.keysOf kvs) && Yson.wfKvs kvs
def Yson.wfList : List Yson → Bool
  | [] => true
  | x :: r => Yson.wf x && Yson.wfList r
def Yson.wfKvs : List (Str × Yson) → Bool
  | [] => true
  | (k, x) :: r => wfStr k && Yson.wf x && Yson.wfKvs r
end

/-! ## `SetYSON` into an empty document followed by `FromCRDT`
(packs.Compact's rebuild step; revision restore after `Unmarshal`) -/

def hllBytes : Nat := 16384

mutual
/-- buildDescendants: a text node must not be empty (panic), otherwise kept -/
def rebuildTreeChild : TreeNode → Res TreeNode
  | .mk ty v a c =>
    if ty == sText then (if v.isEmpty then .setPanic 1 else .ok (.mk ty v [] []))
    else (rebuildTreeChildren c).bind fun c' => .ok (.mk ty [] a c')
def rebuildTreeChildren : List TreeNode → Res (List TreeNode)
  | [] => .ok []
  | x :: r => (rebuildTreeChild x).bind fun x' => (rebuildTreeChildren r).bind fun r' => .ok (x' :: r')
end

/-- buildRoot: the root keeps only its type (attributes and value are dropped) -/
def rebuildTree : TreeNode → Res TreeNode
  | .mk ty _ _ c => (rebuildTreeChildren c).bind fun c' => .ok (.mk ty [] [] c')

def rebuildCounter : Counter → Res Counter
  | .dedup n regs =>
    if regs.isEmpty then .ok (.dedup 0 (List.replicate hllBytes 0))
    else if regs.length == hllBytes then .ok (.dedup n regs)   -- value is recomputed from the registers; trusted consistent
    else .setPanic 2
  | c => .ok c

mutual
def rebuild : Yson → Res Yson
  | .text ns => .ok (.text (List.filter (fun n => !n.val.isEmpty) ns))   -- Edit(pos,pos,"") inserts nothing
  | .tree r => (rebuildTree r).map .tree
  | .counter c => (rebuildCounter c).map .counter
  | .arr xs => (rebuildList xs).map .arr
  | .obj kvs => (rebuildKvs kvs).map .obj
  | v => .ok v
def rebuildList : List Yson → Res (List Yson)
  | [] => .ok []
  | x :: r => (rebuild x).bind fun y => (rebuildList r).bind fun ys => .ok (y :: ys)
def rebuildKvs : List (Str × Yson) → Res (List (Str × Yson))
  | [] => .ok []
  | (k, x) :: r => (rebuild x).bind fun y => (rebuildKvs r).bind fun ys => .ok ((k, y) :: ys)
end

end Yorkie.Yson
