/-
Model of pkg/splay/splay.go: the weighted splay tree that indexes the nodes of
`RGATreeSplit` (Text) by live length.  Core Lean only.

A node carries an identity `id` (the Go code has a pointer; the harness gives every
test value a unique number), the current `value.Len()` (`len`) and the cached subtree
weight `w`.  `len` belongs to the *value*, so it can change behind the tree's back
(`SetRemovedAt`, `TextValue.Split`): `setLen` models that and deliberately leaves the
weights stale, exactly like the Go code, until `Splay`/`InsertAfter`/`DeleteRange`
recompute them.

The Go code splays bottom-up along parent pointers.  The model locates the node,
keeps the root path as a zipper (`List Frame`, nearest ancestor first) and consumes
it two frames at a time with the same case analysis (zig-zig rotates the
grandparent edge first, zig-zag the parent edge first, a final zig), built from the
same two primitive rotations `rotR`/`rotL` that recompute the weights of exactly the
two nodes `rotateRight`/`rotateLeft` recompute (`UpdateWeight(root); UpdateWeight(pivot)`).
So the resulting shapes and all cached weights coincide with the Go tree and are
compared node by node in the `splay` correspondence engine.

Pointer preconditions of the Go code (outside them the Go tree gets corrupted or
panics; the functional model cannot express that and returns the tree unchanged;
the harness never generates such calls):
  * `InsertAfter(prev, n)`: `prev` is in the tree, `n` is a fresh node;
  * `Delete(n)`: `n` is in the tree (otherwise `t.root` becomes nil);
  * `DeleteRange(l, r)`: `l` in the tree, and `r` nil or strictly after `l` in order.
-/
namespace Yorkie.Splay

inductive T where
  | nil
  | node (l : T) (id len w : Nat) (r : T)
deriving Repr, DecidableEq, Inhabited

namespace T

/-- `leftWeight`/`rightWeight` of the Go code: cached weight, 0 for nil -/
def weight : T → Nat
  | nil => 0
  | node _ _ _ w _ => w

def isNil : T → Bool
  | nil => true
  | node .. => false

/-- in-order sequence of (id, len) -/
def toList : T → List (Nat × Nat)
  | nil => []
  | node l id len _ r => l.toList ++ (id, len) :: r.toList

def ids (t : T) : List Nat := t.toList.map (·.1)

/-- `CheckWeight`: every cached weight is len + weights of the children -/
def wf : T → Prop
  | nil => True
  | node l _ len w r => l.wf ∧ r.wf ∧ w = len + l.weight + r.weight

instance decWf : (t : T) → Decidable t.wf
  | nil => isTrue trivial
  | node l _ len w r =>
    have := decWf l
    have := decWf r
    inferInstanceAs (Decidable (l.wf ∧ r.wf ∧ w = len + l.weight + r.weight))

end T
open T

/-- `UpdateWeight(node)` on a node whose children are already linked -/
def mk (l : T) (id len : Nat) (r : T) : T := node l id len (len + l.weight + r.weight) r

/-- `UpdateWeight(t.root)` -/
def T.refresh : T → T
  | nil => nil
  | node l id len _ r => mk l id len r

/-- `rotateRight(pivot)` where pivot is the left child of the root of this subtree;
weights of the old root, then of the pivot, are recomputed -/
def rotR : T → T
  | node (node a x lx _ b) p lp _ c => mk a x lx (mk b p lp c)
  | t => t

/-- `rotateLeft(pivot)` where pivot is the right child of the root of this subtree -/
def rotL : T → T
  | node c p lp _ (node a x lx _ b) => mk (mk c p lp a) x lx b
  | t => t

/-- one step of the root path: the focus is the left child of a parent `(id,len,w)`
whose right subtree is `r` (`inL`), or the right child of a parent with left subtree
`l` (`inR`) -/
inductive Frame where
  | inL (id len w : Nat) (r : T)
  | inR (l : T) (id len w : Nat)
deriving Repr, DecidableEq, Inhabited

/-- rebuild the tree around a focus without changing anything -/
def plug (t : T) : List Frame → T
  | [] => t
  | .inL id len w r :: p => plug (node t id len w r) p
  | .inR l id len w :: p => plug (node l id len w t) p

/-- `Splay(node)` given the subtree `X` rooted at the node and its root path.
The last iteration of the Go loop always ends in `updateTreeWeight(node)` at the
root, hence the `refresh` in the `[]` case (it is idempotent after a zig). -/
def splayUp (X : T) : List Frame → T
  | [] => X.refresh
  | [.inL p lp wp c] => rotR (node X p lp wp c)
  | [.inR c p lp wp] => rotL (node c p lp wp X)
  -- zig-zig: rotate the grandparent edge first
  | .inL p lp wp c :: .inL g lg wg d :: rest =>
    splayUp (rotR (rotR (node (node X p lp wp c) g lg wg d))) rest
  | .inR c p lp wp :: .inR d g lg wg :: rest =>
    splayUp (rotL (rotL (node d g lg wg (node c p lp wp X)))) rest
  -- zig-zag: rotate the parent edge first
  | .inR c p lp wp :: .inL g lg wg d :: rest =>
    splayUp (rotR (node (rotL (node c p lp wp X)) g lg wg d)) rest
  | .inL p lp wp c :: .inR d g lg wg :: rest =>
    splayUp (rotL (node d g lg wg (rotR (node X p lp wp c)))) rest

/-- find the node with identity `x` (the Go code holds a pointer): the subtree rooted
there and its root path -/
def locate (x : Nat) : T → List Frame → Option (T × List Frame)
  | nil, _ => none
  | node l id len w r, p =>
    if id = x then some (node l id len w r, p)
    else match locate x l (.inL id len w r :: p) with
      | some z => some z
      | none => locate x r (.inR l id len w :: p)

/-- `Tree.Splay(node)`; a node that is not linked into this tree leaves it unchanged -/
def splay (x : Nat) (t : T) : T :=
  match locate x t [] with
  | none => t
  | some (X, p) => splayUp X p

/-- `Tree.InsertAfter(prev, NewNode(value))` -/
def insertAfter (prev id len : Nat) (t : T) : T :=
  match locate prev t [] with
  | none => t
  | some (X, p) =>
    match splayUp X p with
    | node a q lq _ b => mk (mk a q lq nil) id len b
    | nil => nil

/-- `Tree.Insert(NewNode(value))`: new root if empty, else *after the current root* -/
def insert (id len : Nat) : T → T
  | nil => node nil id len len nil
  | node l q lq w r => insertAfter q id len (node l q lq w r)

/-- root path of the rightmost node -/
def descendMax : T → List Frame → Option (T × List Frame)
  | nil, _ => none
  | node l id len w nil, p => some (node l id len w nil, p)
  | node l id len w r, p => descendMax r (.inR l id len w :: p)

/-- `leftTree.Splay(leftTree.rightmost())` -/
def splayMax (t : T) : T :=
  match descendMax t [] with
  | none => t
  | some (X, p) => splayUp X p

/-- `Tree.Delete(node)` -/
def delete (x : Nat) (t : T) : T :=
  match locate x t [] with
  | none => t
  | some (X, p) =>
    match splayUp X p with
    | node nil _ _ _ b => b.refresh
    | node a _ _ _ b =>
      match splayMax a with
      | node a1 m lm _ _ => mk a1 m lm b
      | nil => b
    | nil => nil

/-- `traversePostorder(root.right, InitWeight)` of `cutOffRight` -/
def T.resetW : T → T
  | nil => nil
  | node l id len _ r => node l.resetW id len len r.resetW

/-- `Tree.DeleteRange(leftBoundary, rightBoundary)`.  Nothing is unlinked: the nodes
strictly between the boundaries are gathered into one subtree whose weights are
re-initialised to the nodes' own `Len()`. -/
def deleteRange (lb : Nat) (rb : Option Nat) (t : T) : T :=
  match rb with
  | none =>
    match splay lb t with
    | node a q lq w b => if q = lb then mk a q lq b.resetW else node a q lq w b
    | nil => nil
  | some rb =>
    match splay rb (splay lb t) with
    | node (node a q lq wq m) r lr wr B =>
      if q = lb then
        -- rightBoundary.left == leftBoundary
        mk (mk a q lq m.resetW) r lr B
      else
        -- rotateRight(leftBoundary): leftBoundary is the left child of rightBoundary.left
        match rotR (node a q lq wq m) with
        | node a' q' lq' _ m' =>
          if q' = lb then mk (mk a' q' lq' m'.resetW) r lr B
          else node (node a q lq wq m) r lr wr B    -- outside the precondition
        | nil => node (node a q lq wq m) r lr wr B
    | t' => t'

/-- descent of `FindForText`; `none` only for the empty tree -/
def descendText : T → Nat → List Frame → Option (T × List Frame × Nat)
  | nil, _, _ => none
  | node l id len w r, off, p =>
    if !l.isNil && off ≤ l.weight then descendText l off (.inL id len w r :: p)
    else if !r.isNil && l.weight + len < off then
      descendText r (off - (l.weight + len)) (.inR l id len w :: p)
    else some (node l id len w r, p, off - l.weight)

inductive FindRes where
  | nilTree                    -- `(nil, 0, nil)` on an empty tree
  | found (id off : Nat)
  | outOfIndex                 -- `ErrOutOfIndex`; the tree is not splayed
deriving Repr, DecidableEq, Inhabited

def rootLen : T → Nat
  | nil => 0
  | node _ _ len _ _ => len

def rootId : T → Nat
  | nil => 0
  | node _ id _ _ _ => id

/-- `Tree.FindForText(index)` for `index ≥ 0` -/
def findForText (t : T) (index : Nat) : FindRes × T :=
  match descendText t index [] with
  | none => (.nilTree, t)
  | some (X, p, off) =>
    if off > rootLen X then (.outOfIndex, t) else (.found (rootId X) off, splayUp X p)

/-- descent of `FindForArray` -/
def descendArray : T → Nat → List Frame → Option (T × List Frame)
  | nil, _, _ => none
  | node l id len w r, i, p =>
    if i < l.weight then descendArray l i (.inL id len w r :: p)   -- nil has weight 0
    else if !r.isNil && l.weight + len ≤ i then
      descendArray r (i - (l.weight + len)) (.inR l id len w :: p)
    else some (node l id len w r, p)

/-- `Tree.FindForArray(index)` for `index ≥ 0` -/
def findForArray (t : T) (index : Nat) : FindRes × T :=
  match t with
  | nil => (.nilTree, t)
  | _ =>
    if index ≥ t.weight then (.outOfIndex, t) else
    match descendArray t index [] with
    | none => (.outOfIndex, t)
    | some (X, p) => (.found (rootId X) 0, splayUp X p)

/-- `Tree.IndexOf(node)`; `none` is the Go `-1` -/
def indexOf (x : Nat) (t : T) : Option Nat × T :=
  match locate x t [] with
  | none => (none, t)
  | some (X, p) =>
    match splayUp X p with
    | node a q lq w b => (some a.weight, node a q lq w b)
    | nil => (none, nil)

/-- the value of node `x` changes its `Len()`; cached weights are NOT touched -/
def T.setLen (x n : Nat) : T → T
  | nil => nil
  | node l id len w r => node (l.setLen x n) id (if id = x then n else len) w (r.setLen x n)

/-- lens of several values change at once -/
def T.mapLen (f : Nat → Nat → Nat) : T → T
  | nil => nil
  | node l id len w r => node (l.mapLen f) id (f id len) w (r.mapLen f)

/-- exported `Tree.UpdateWeight(node)`: recompute one cached weight from the children -/
def T.updateWeightAt (x : Nat) : T → T
  | nil => nil
  | node l id len w r =>
    if id = x then mk l id len r else node (l.updateWeightAt x) id len w (r.updateWeightAt x)

/-- `Tree.Len()` -/
def T.len (t : T) : Nat := t.weight

end Yorkie.Splay
