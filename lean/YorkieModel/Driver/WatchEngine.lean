/- engine `watch`: request-level correspondence of the watch-stream / push glue (C17) -/
import YorkieModel.Driver.Proto
import YorkieModel.Model.Watch
namespace Yorkie.Driver.WatchEngine
open Yorkie Yorkie.Driver Yorkie.Watch

structure St where
  cfg : Cfg := {}
  m : Watch.State := {}
  /-- local changes not yet pushed, per (client, document): (changes, operations) -/
  pend : List ((Nat × Nat) × (Nat × Nat)) := []
  /-- documents of the trace in order of first attach -/
  docs : List Nat := []

def sortNats (l : List Nat) : List Nat := sortBy (fun a b => a < b) l

def showNats (l : List Nat) : String := ",".intercalate (l.map toString)

def parseNats (s : String) : List Nat :=
  if s.isEmpty then [] else (s.splitOn ",").map parseNatD

def pendGet (st : St) (c d : Nat) : Nat × Nat :=
  match st.pend.find? (·.1 == (c, d)) with
  | some p => p.2
  | none => (0, 0)

def pendSet (st : St) (c d : Nat) (v : Nat × Nat) : St :=
  { st with pend := ((c, d), v) :: st.pend.filter (·.1 != (c, d)) }

def showIds (st : St) : String :=
  " ".intercalate (st.docs.map (fun d => s!"d{d}:[{showNats (sortNats (st.m.clientIDs d))}]"))

/-- which established streams receive the `DocChanged` of a push: one entry per subscription of
the document held by another client, by stream -/
def showGot (before : Watch.State) (d c : Nat) (published : Bool) : String :=
  if !published then "[]" else
  let rs := sortBy (fun (a b : Sub) => a.stream < b.stream) (before.receivers d c)
  "[" ++ " ".intercalate (rs.map (fun x => s!"s{x.stream}:c{c}")) ++ "]"

def doPush (st : St) (d c n ops : Nat) (removed : Bool) : St × List String :=
  let before := st.m
  let m' := Watch.step st.cfg before (.push d c n ops removed)
  let published := m'.published.length > before.published.length
  let st' := { st with m := m', docs := if st.docs.contains d then st.docs else st.docs ++ [d] }
  (pendSet st' c d (0, 0), [s!"head={m'.head d} got={showGot before d c published}"])

def showErr : Option Err → String
  | none => "ok"
  | some .limit => "err:limit"
  | some .notFound => "err:notfound"

def step (st : St) (toks : List String) : St × List String :=
  let c := parseNatD (arg toks "c")
  let d := parseNatD (arg toks "d")
  match toks with
  | "CFG" :: _ =>
    let n := parseNatD (arg toks "limit")
    ({ cfg := { limit := n } }, [s!"cfg limit={n}"])
  | "ATTACH" :: _ => doPush st d c 1 0 false
  | "EDIT" :: _ =>
    let (n, o) := pendGet st c d
    let k := arg toks "kind"
    let v := (n + 1, if k == "pres" then o else o + 1)
    (pendSet st c d v, [s!"pend={v.1},{v.2}"])
  | "SYNC" :: _ =>
    let (n, o) := pendGet st c d
    doPush st d c n o false
  | "REMOVE" :: _ =>
    let (n, o) := pendGet st c d
    doPush st d c n o true
  | "WOPEN" :: _ =>
    let s := parseNatD (arg toks "s")
    let m' := Watch.step st.cfg st.m (.watchOpen s c (parseNats (arg toks "docs")))
    let st' := { st with m := m' }
    (st', [s!"r={showErr m'.last} ids={showIds st'}"])
  | "WCLOSE" :: _ =>
    let s := parseNatD (arg toks "s")
    let st' := { st with m := Watch.step st.cfg st.m (.watchClose s) }
    (st', [s!"ids={showIds st'}"])
  | "END" :: _ =>
    let m' := st.m.live.foldl (fun m s => Watch.step st.cfg m (.watchClose s)) st.m
    let st' := { st with m := m' }
    (st', [s!"end subs={m'.subs.length} ids={showIds st'}"])
  | _ => (st, ["bad-op"])

def engine : Engine := { State := St, init := {}, step := step }

end Yorkie.Driver.WatchEngine
