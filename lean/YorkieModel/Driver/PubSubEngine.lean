/- engine `pubsub`: lock-granularity correspondence for server/backend/pubsub (C17) -/
import YorkieModel.Driver.Proto
import YorkieModel.Model.PubSub
namespace Yorkie.Driver.PubSubEngine
open Yorkie Yorkie.Driver Yorkie.PubSub

structure St where
  m : PubSub.State := {}
  maxFail : Nat := 100

def showNats (l : List Nat) : String := ",".intercalate (l.map toString)

def sortNats (l : List Nat) : List Nat := sortBy (fun a b => a < b) l

def loopName : Loop → String
  | .wait => "loop.wait"
  | .take _ => "flush.take"
  | .snap .. => "flush.snapshot"
  | .isDead .. => "flush.isdead"
  | .send .. => "flush.send"
  | .isDead2 .. => "flush.isdead2"
  | .reap .. => "flush.reap"
  | .exited => "exited"

def opName : Op → String
  | .none => "none"
  | .subscribe _ _ _ .upsert => "sub.upsert"
  | .subscribe _ _ _ (.idsGet _) => "ids.get"
  | .subscribe _ _ _ (.idsVals ..) => "ids.values"
  | .subscribe _ _ _ (.done _) => "done"
  | .unsubscribe _ .close => "unsub.close"
  | .unsubscribe _ .get => "unsub.get"
  | .unsubscribe _ (.delete _) => "unsub.delete"
  | .unsubscribe _ .mapDelete => "unsub.mapdelete"
  | .unsubscribe _ .done => "done"
  | .publish _ _ _ _ .get => "pub.get"
  | .publish _ _ _ _ (.enqueue _) => "pub.enqueue"
  | .publish _ _ _ _ (.done _) => "done"

def showObj (s : PubSub.State) (o : Nat) : String :=
  let b := s.objs o
  s!"{o}:m={showNats (sortNats b.members)};b={showNats (b.batch.map (·.eid))};c={if b.closed then 1 else 0};l={loopName b.loop}"

def showSub (s : PubSub.State) (i : Nat) : String :=
  let x := s.subs i
  s!"{i}:c={if x.closed then 1 else 0};n={x.buffer.length};f={x.failures}"

def showState (s : PubSub.State) : String :=
  let e := match s.entry with | some o => toString o | none => "-"
  let os := " ".intercalate ((List.range s.nObjs).map (showObj s))
  let ss := " ".intercalate ((List.range s.nSubs).map (showSub s))
  let ps := " ".intercalate ((List.range s.nOps).map (fun k => s!"{k}:{opName (s.ops k)}"))
  s!"E={e} O=[{os}] S=[{ss}] P=[{ps}] X={if s.panicSub then 1 else 0}{if s.panicPub then 1 else 0}"

/-- what the call returns when this step finishes it -/
def opResult (s : PubSub.State) (k : Nat) : String :=
  match s.ops k with
  | .subscribe _ l _ .upsert =>
    let n := match s.entry with | some o => (s.objs o).members.length | none => 0
    if l > 0 ∧ n ≥ l then "err:limit" else "-"
  | .subscribe _ _ _ (.idsGet sid) =>
    match s.entry with | none => s!"sub:{sid}:ids=" | some _ => "-"
  | .subscribe _ _ _ (.idsVals sid p) =>
    s!"sub:{sid}:ids={showNats (sortNats ((s.objs p).members.map (fun i => (s.subs i).owner)))}"
  | _ => "-"

def leak (s : PubSub.State) : String :=
  let openObjs := (List.range s.nObjs).filter (fun o => !(s.objs o).closed)
  s!"entry={match s.entry with | some _ => 1 | none => 0} open={openObjs.length}"

def step (st : St) (toks : List String) : St × List String :=
  let s := st.m
  let out (r : String) (s' : PubSub.State) : St × List String :=
    ({ st with m := s' }, [s!"r={r} {showState s'}"])
  match toks with
  | "CFG" :: _ =>
    let n := parseNatD (arg toks "maxfail")
    ({ st with maxFail := n }, [s!"cfg maxfail={n}"])
  | "SUB" :: _ =>
    if parseNatD (arg toks "op") != s.nOps then (st, ["bad-op-id"]) else
    out "-" (PubSub.step s (.startSub (parseNatD (arg toks "actor")) (parseNatD (arg toks "limit")) st.maxFail))
  | "UNSUB" :: _ =>
    if parseNatD (arg toks "op") != s.nOps then (st, ["bad-op-id"]) else
    out "-" (PubSub.step s (.startUnsub (parseNatD (arg toks "sid"))))
  | "PUB" :: _ =>
    if parseNatD (arg toks "op") != s.nOps then (st, ["bad-op-id"]) else
    out "-" (PubSub.step s (.startPub { eid := parseNatD (arg toks "eid"), actor := parseNatD (arg toks "actor"),
                                        changed := arg toks "changed" == "1" }))
  | "STEP" :: _ =>
    let k := parseNatD (arg toks "op")
    out (opResult s k) (PubSub.step s (.op k))
  | "TICK" :: _ => out "-" (PubSub.step s (.tick (parseNatD (arg toks "obj"))))
  | "WAKE" :: _ => out "-" (PubSub.step s (.wake (parseNatD (arg toks "obj"))))
  | "LOOP" :: _ => out "-" (PubSub.step s (.loop (parseNatD (arg toks "obj")) (parseNatD (arg toks "pick"))))
  | "RECV" :: _ =>
    let i := parseNatD (arg toks "sid")
    let r := match (s.subs i).buffer with
      | e :: _ => s!"ev:{e.eid}"
      | [] => if (s.subs i).chanClosed then "closed" else "empty"
    out r (PubSub.step s (.consume i))
  | "END" :: _ => (st, [s!"end {leak s} {showState s}"])
  | "STRESS" :: _ => (st, ["ok"])
  | _ => (st, ["bad-op"])

def engine : Engine := { State := St, init := {}, step := step }

end Yorkie.Driver.PubSubEngine
