/-
engine `treeundo`: `Document.Update` / `Undo` / `Redo` on a document holding one tree (C14, tree part), with a
receiving second replica.

The model is INTEGRATED: it is given the json-layer calls and the words UNDO / REDO only. It computes the forward
operations, their reverses, the stacks, the undo/redo operations and what the receiver applies from its own state
(Model/TreeUndo.lean); the Go reverse operations are never fed to it. Every produced change is printed on both sides
(positions, contents, tickets, restore / retombstone spans, mode, vector) and compared.

Lines (written by harness/eng_treeundo.go):
  SEED <seedActor> <editorActor> <receiverActor> <json>   a seed document creates the tree; editor `e` and receiver `r`
                                                         apply that change (converter round trip)          → ok|err
  E <call>            one Update on the editor with one call (edit:/style:/rmstyle: as in engine `tree`)    → ch …|ch none|err
  UNDO | REDO         Document.Undo / Redo on the editor                                                    → ch …|empty|err
  SYNC                the editor's undelivered changes go to the receiver, one pack per change             → ok n=<k>|err at=<i>
  H                   stack depths and top entries                                   → undo=<n> redo=<m> utop=[…] rtop=[…]
  CRAFT <mode> <rs> <ts>   a fabricated identity reverse (spans cutting pieces anywhere) is pushed on the undo stack  → ok
  LEAN                harness-only (no structural dumps in this trace)                                      → (nothing)
  M <rep> | MC <rep>  Marshal() of root / clone           X <rep> <side>  ToXML()       D <rep> <side>  structural dump
  KNOWN … | # …       harness-only                                                                          → (nothing)
-/
import YorkieModel.Driver.TreeEngine
import YorkieModel.Model.TreeUndo
namespace Yorkie.Driver.TreeUndoEngine
open Yorkie Yorkie.Driver Yorkie.Tree Yorkie.TreeUndo
open Yorkie.Driver.TreeEngine hiding St step engine getRep setRep

structure St where
  ed : Option Doc := none
  edFailed : Bool := false
  rc : Option Rep := none
  rcFailed : Bool := false
  outbox : List WChange := []
  delivered : Nat := 0

/-! ### parsing of calls -/

def parseKVsEq (s : String) : List (Str × Str) :=
  if s.isEmpty then [] else
  (s.splitOn ";").filterMap (fun kv =>
    match kv.splitOn "=" with
    | [k, v] => some (codes (pctDecode k), codes (pctDecode v))
    | _ => none)

def parseJItem (s : String) : Option JItem :=
  match s.splitOn "~" with
  | [d, ty, v, as] => some ⟨parseNatD d, codes (pctDecode ty), Text.unitsOfString (pctDecode v), parseKVsEq as⟩
  | _ => none

def parseJ (s : String) : Option (List JItem) := (s.splitOn "|").mapM parseJItem

def parseCall (s : String) : Option Call :=
  match s.splitOn ":" with
  | ["edit", f, t, sl, cs] =>
    let contents : Option (List (List JItem)) := if cs == "-" then some [] else (cs.splitOn "/").mapM parseJ
    contents.map (fun c => .edit (parseNatD f) (parseNatD t) c (parseNatD sl))
  | ["style", f, t, kvs] => some (.style (parseNatD f) (parseNatD t) (parseKVsEq kvs))
  | ["rmstyle", f, t, ks] =>
    some (.removeStyle (parseNatD f) (parseNatD t) (if ks.isEmpty then [] else (ks.splitOn ",").map (fun k => codes (pctDecode k))))
  | ["nop"] => some .nop
  | _ => none

def parseSpan (s : String) : Option Span :=
  match s.splitOn "~" with
  | [id, len, k] => (parseId id).map (fun i => ⟨i, k == "t", parseNatD len⟩)
  | _ => none

def parseSpans (s : String) : Option (List Span) := if s == "-" then some [] else (s.splitOn ",").mapM parseSpan

/-! ### printing -/

def showSpan (s : Span) : String := s!"{showId s.id}~{s.length}~{if s.isText then "t" else "e"}"
def showSpans (l : List Span) : String := if l.isEmpty then "-" else ",".intercalate (l.map showSpan)

/-- a stacked operation: what it will do (no ticket, no vector) -/
def showTop : Option UOp → String
  | none => "none"
  | some (.restore fr to rs tbs mode) =>
    s!"restore from={showPos fr} to={showPos to} rs={showSpans rs} ts={showSpans tbs} mode={if mode == .restore then "restore" else "retombstone"}"
  | some (.noop idx) => s!"noop idx={idx}"
  | some (.style fr to set rem) =>
    s!"style from={showPos fr} to={showPos to} attrs={showKV set ":" ","} rem={",".intercalate (rem.map pctS)}"
  | some .unsupported => "unsupported"

/-- what the travelling operation of an undo/redo change looks like on the wire; `pre` = the editor's root before -/
def showUndo (pre : Tree) (u : UOp) (ts : Ticket) (vv : VV) : String :=
  match u with
  | .restore fr to rs tbs mode =>
    s!"{showTop (some u)} t={showTicket ts} vv={showVV vv}"
  | .noop idx =>
    match pre.findPos idx with
    | .ok p => s!"edit from={showPos p} to={showPos p} contents=- sl=0 t={showTicket ts} st=- vv={showVV vv}"
    | .error _ => "edit from=err"
  | .style fr to set rem =>
    s!"style from={showPos fr} to={showPos to} attrs={showKV set ":" ","} rem={",".intercalate (rem.map pctS)} t={showTicket ts} vv={showVV vv}"
  | .unsupported => "unsupported"

def showW (pre : Tree) (ch : WChange) : String :=
  match ch.op with
  | .fwd op => showChange (some ⟨ch.id, op⟩)
  | .undo u ts => showUndo pre u ts ch.id.vv

def sideOf (t : Tree) : Side := { tc := some ⟨0, 0, 0⟩, tree := t }

def treeOf (s : St) (r side : String) : Option Tree :=
  if r == "r" then
    if s.rcFailed then none else s.rc.map (fun x => if side == "clone" then x.clone else x.root)
  else
    if s.edFailed then none else s.ed.map (fun x => if side == "clone" then x.clone else x.root)

def obs (f : Side → String) (o : Option Tree) : String :=
  match o with
  | none => "none"
  | some t => f (sideOf t)

def deliver (r : Rep) : List WChange → Nat → Except Nat (Rep × Nat)
  | [], n => .ok (r, n)
  | ch :: rest, n =>
    match applyWire r ch with
    | .error _ => .error n
    | .ok r' => deliver r' rest (n + 1)

def step (s : St) (toks : List String) : St × List String :=
  match toks with
  | ["SEED", sa, ea, ra, j] =>
    match parseJ j with
    | none => (s, ["bad-op"])
    | some init =>
      match seedDoc (parseNatD ea) (parseNatD sa) init, seedRep (parseNatD ra) (parseNatD sa) init with
      | .ok d, .ok r => ({ ed := some d, rc := some r }, ["ok"])
      | _, _ => (s, ["err"])
  | ["E", c] =>
    match s.ed, parseCall c with
    | some d, some call =>
      if s.edFailed then (s, ["skipped"]) else
      match d.update call with
      | .error _ => ({ s with edFailed := true }, ["err"])
      | .ok (_, none) => (s, ["ch none"])
      | .ok (d', some ch) => ({ s with ed := some d', outbox := s.outbox ++ [ch] }, ["ch " ++ showW d.root ch])
    | _, _ => (s, ["bad-op"])
  | [w] =>
    if w == "UNDO" || w == "REDO" then
      match s.ed with
      | none => (s, ["bad-op"])
      | some d =>
        if s.edFailed then (s, ["skipped"]) else
        match d.undoRedo (w == "UNDO") with
        | .empty => (s, ["empty"])
        | .failed d' _ => ({ s with ed := some d', edFailed := true }, ["err"])
        | .done d' ch => ({ s with ed := some d', outbox := s.outbox ++ [ch] }, ["ch " ++ showW d.root ch])
    else if w == "SYNC" then
      match s.rc with
      | none => (s, ["bad-op"])
      | some r =>
        if s.rcFailed || s.edFailed then (s, ["skipped"]) else
        match deliver r (s.outbox.drop s.delivered) 0 with
        | .error i => ({ s with rcFailed := true }, [s!"err at={i}"])
        | .ok (r', n) => ({ s with rc := some r', delivered := s.delivered + n }, [s!"ok n={n}"])
    else if w == "H" then
      match s.ed with
      | none => (s, ["bad-op"])
      | some d => (s, [s!"undo={d.undo.length} redo={d.redo.length} utop=[{showTop d.undo.head?}] rtop=[{showTop d.redo.head?}]"])
    else if w == "KNOWN" || w == "LEAN" then (s, []) else (s, ["bad-op"])
  | ["CRAFT", mode, rs, tbs] =>
    match s.ed, parseSpans rs, parseSpans tbs with
    | some d, some r, some tb =>
      if s.edFailed then (s, ["skipped"]) else
      match d.root.findPos 0 with
      | .error _ => (s, ["err"])
      | .ok p =>
        let u : UOp := .restore p p r tb (if mode == "retombstone" then .retombstone else .restore)
        ({ s with ed := some { d with undo := push d.undo u } }, ["ok"])
    | _, _, _ => (s, ["bad-op"])
  | "KNOWN" :: _ => (s, [])
  | ["M", r] => (s, [match treeOf s r "root" with
      | none => "none"
      | some t => marshalDoc (sideOf t)])
  | ["MC", r] => (s, [match treeOf s r "clone" with
      | none => "none"
      | some t => marshalDoc (sideOf t)])
  | ["X", r, side] => (s, [obs xml (treeOf s r side)])
  | ["D", r, side] => (s, [obs dump (treeOf s r side)])
  | _ => (s, ["bad-op"])

def engine : Engine := { State := St, init := {}, step := step }

end Yorkie.Driver.TreeUndoEngine
