/- engine `locker` (C16, named-lock layer): scripted episodes on the real pkg/locker predicted by
   Model/NamedLocker.lean.

   NEW nG nK            fresh locker, goroutines g0..g(nG-1), names k0..k(nK-1)            → `NEW`
   OP g op k            goroutine g calls op ∈ L (Lock) | R (RLock) | T (TryLock) | U (Unlock) |
                        RU (RUnlock) on name k; the harness lets the system come to rest
                        → `<res> | g0:<held>:<wait> … | map=<k=waiters,…>`
   END                  → `END map=…` (`… stuck` when somebody is still parked)
   STRESS seed n        free-running share, oracle only                                    → `STRESS done`

   Every call of the script is a *session* of the model and a sequence of its atomic steps
   (`step Variant.ofTree`): L = start, acquire (when enabled);  T = start, try and – after a failed
   try – drop (the reference is given back before the call returns);  U/RU = unlock.  What the
   model leaves open – which parked call returns when the inner mutex becomes available – is
   decided here by the policy of Go's writer-preferring `sync.RWMutex`, observed at rest:
     * `Lock` returns at once iff nobody holds the mutex; `RLock` iff no writer holds it and no
       writer is parked; `TryLock` succeeds iff nobody holds it (a parked writer implies a holder);
     * an exclusive release lets ALL parked readers in, then – when there were none – the parked
       writer that arrived first;
     * a shared release that leaves the mutex without holders lets the first parked writer in.
   Every macro step is a sequence of `step`s of the model, so the episodes are runs of the
   transition system the theorems of Props/C16Locker.lean quantify over. -/
import YorkieModel.Driver.Proto
import YorkieModel.Model.NamedLocker
namespace Yorkie.Driver.LockerEngine
open Yorkie Yorkie.Driver Yorkie.NamedLocker

structure G where
  /-- (exclusive?, name, session) in acquisition order -/
  held : List (Bool × Nat × Nat) := []
  wait : Option (Bool × Nat × Nat) := none
  deriving Inhabited

structure St where
  s : State := {}
  gs : List G := []
  nK : Nat := 0
  nextSess : Nat := 0
  /-- parked sessions in arrival order -/
  waitQ : List Nat := []

def maxSessions : Nat := 256

def showHeld (h : Bool × Nat × Nat) : String := (if h.1 then "W" else "R") ++ s!".k{h.2.1}"

def showG (i : Nat) (g : G) : String :=
  let held := if g.held.isEmpty then "-" else ",".intercalate (g.held.map showHeld)
  let wait := match g.wait with
    | none => "-"
    | some w => (if w.1 then "L" else "R") ++ s!".k{w.2.1}"
  s!"g{i}:{held}:{wait}"

def showMap (st : St) : String :=
  let es := (List.range st.nK).filterMap (fun k =>
    match st.s.map k with
    | some o => some s!"k{k}={(st.s.heap o).refs}"
    | none => none)
  "map=" ++ (if es.isEmpty then "-" else ",".intercalate es)

def tail (st : St) : String :=
  " | " ++ " ".intercalate ((List.range st.gs.length).map (fun i => showG i (st.gs.getD i {}))) ++ " | " ++ showMap st

/-- `lockCtr` a parked session points to -/
def objOf (st : St) (sess : Nat) : Option Nat := (st.s.ss.getD sess .idle).obj

def isWantW (st : St) (sess : Nat) : Bool :=
  match st.s.ss.getD sess .idle with
  | .wantW _ _ => true
  | _ => false

def isWantR (st : St) (sess : Nat) : Bool :=
  match st.s.ss.getD sess .idle with
  | .wantR _ _ => true
  | _ => false

/-- a writer is parked on `o` -/
def writerParked (st : St) (o : Nat) : Bool :=
  st.waitQ.any (fun j => isWantW st j && objOf st j == some o)

/-- the parked call of session `sess` returns: model step `acquire`, the goroutine now holds -/
def grant (st : St) (sess : Nat) : St :=
  match step Variant.ofTree st.s sess .acquire with
  | none => st
  | some (s', _) =>
    { st with s := s', waitQ := st.waitQ.filter (· != sess),
              gs := st.gs.map (fun g =>
                match g.wait with
                | some w => if w.2.2 == sess then { held := g.held ++ [w], wait := none } else g
                | none => g) }

/-- an exclusive release lets all parked readers of `o` in -/
def grantReaders (st : St) (o : Nat) (excl : Bool) : St :=
  (if excl then st.waitQ.filter (fun j => isWantR st j && objOf st j == some o) else []).foldl grant st

/-- when nobody holds the inner mutex of `o`, the parked writer that arrived first gets it -/
def grantWriter (st : St) (o : Nat) : St :=
  if (st.s.heap o).free then
    match st.waitQ.find? (fun j => isWantW st j && objOf st j == some o) with
    | some j => grant st j
    | none => st
  else st

/-- who gets the inner mutex of `o` after a release (`excl` = it was an exclusive release) -/
def settle (st : St) (o : Nat) (excl : Bool) : St := grantWriter (grantReaders st o excl) o

def setG (st : St) (g : Nat) (f : G → G) : St :=
  { st with gs := (List.range st.gs.length).map (fun i => let x := st.gs.getD i {}; if i == g then f x else x) }

/-- remove the most recent entry for (mode, name) -/
def dropHeld (w : Bool) (k : Nat) (held : List (Bool × Nat × Nat)) : List (Bool × Nat × Nat) :=
  let rec go : List (Bool × Nat × Nat) → List (Bool × Nat × Nat)
    | [] => []
    | h :: t => if h.1 == w && h.2.1 == k then t else h :: go t
  (go held.reverse).reverse

/-- second half of `TryLock` by goroutine `g` (session `sess`, reference already taken) -/
def opTry (st : St) (g sess k : Nat) : St × String :=
  match NamedLocker.step Variant.ofTree st.s sess .try with
  | some (s2, .tryOk) => (setG { st with s := s2 } g (fun x => { x with held := x.held ++ [(true, k, sess)] }), "try-ok")
  | some (s2, _) =>
    -- the failed call gives its reference back before it returns (nothing to do in the variant
    -- `leakyTry`, where the session is idle already)
    match NamedLocker.step Variant.ofTree s2 sess .drop with
    | some (s3, _) => ({ st with s := s3 }, "try-failed")
    | none => ({ st with s := s2 }, "try-failed")
  | none => (st, "model-stuck")

/-- does `Lock` (`w`) / `RLock` on `lockCtr` `obj` return at once? -/
def canAcquire (st : St) (obj : Nat) (w : Bool) : Bool :=
  if w then (st.s.heap obj).free else (st.s.heap obj).writer.isNone && !writerParked st obj

/-- second half of `Lock` (`w`) / `RLock` by goroutine `g`: returns at once or parks -/
def opAcquire (st : St) (g sess k : Nat) (w : Bool) : St × String :=
  if canAcquire st ((objOf st sess).getD 0) w then
    match NamedLocker.step Variant.ofTree st.s sess .acquire with
    | some (s2, _) => (setG { st with s := s2 } g (fun x => { x with held := x.held ++ [(w, k, sess)] }), "acquired")
    | none => (st, "model-stuck")
  else
    (setG { st with waitQ := st.waitQ ++ [sess] } g (fun x => { x with wait := some (w, k, sess) }), "blocked")

/-- `Lock` / `RLock` / `TryLock` of name `k` by goroutine `g`: take the reference, then the rest -/
def opStart (st : St) (g : Nat) (o : String) (k : Nat) : St × String :=
  let sess := st.nextSess
  let act : Act := if o == "L" then .startL k else if o == "R" then .startR k else .startT k
  match NamedLocker.step Variant.ofTree st.s sess act with
  | none => (st, "model-stuck")
  | some (s1, _) =>
    let st1 : St := { st with s := s1, nextSess := sess + 1 }
    if o == "T" then opTry st1 g sess k else opAcquire st1 g sess k (o == "L")

/-- `Unlock` (`w`) / `RUnlock` of the entry `h` goroutine `g` holds -/
def opRelease (st : St) (g k : Nat) (w : Bool) (h : Bool × Nat × Nat) : St × String :=
  let obj := (objOf st h.2.2).getD 0
  match NamedLocker.step Variant.ofTree st.s h.2.2 .unlock with
  | none => (st, "model-stuck")
  | some (s1, r) =>
    let st1 := setG { st with s := s1 } g (fun x => { x with held := dropHeld w k x.held })
    let res := match r with
      | .released => "released"
      | .noSuchLock => "err:no-such-lock"
      | _ => "err:other"
    (settle st1 obj w, res)

def op (st : St) (g : Nat) (o : String) (k : Nat) : St × String :=
  let G := st.gs.getD g {}
  if G.wait.isSome then (st, "busy") else
  if o == "L" || o == "R" || o == "T" then
    if G.held.any (fun h => h.2.1 == k) then (st, "illegal") else opStart st g o k
  else if o == "U" || o == "RU" then
    let w := o == "U"
    match G.held.reverse.find? (fun h => h.1 == w && h.2.1 == k) with
    | none => (st, "illegal")
    | some h => opRelease st g k w h
  else (st, "bad-op")

def step (st : St) (toks : List String) : St × List String :=
  match toks with
  | ["NEW", nG, nK] =>
    ({ s := State.init maxSessions, gs := List.replicate (parseNatD nG) {}, nK := parseNatD nK }, ["NEW"])
  | ["OP", g, o, k] =>
    let g := parseNatD g
    let k := parseNatD k
    if g ≥ st.gs.length || k ≥ st.nK || st.nextSess + 1 ≥ maxSessions then (st, ["bad-op"]) else
    let (st', res) := op st g o k
    if res == "bad-op" then (st, ["bad-op"]) else (st', [res ++ tail st'])
  | ["END"] =>
    (st, ["END " ++ showMap st ++ (if st.gs.any (fun g => g.wait.isSome) then " stuck" else "")])
  | ["STRESS", _, _] => (st, ["STRESS done"])
  | _ => (st, ["bad-op"])

def engine : Engine := { State := St, init := {}, step := step }

end Yorkie.Driver.LockerEngine
