/- engine `yson`: correspondence of Model/Yson.lean + Model/YsonText.lean with
pkg/document/yson (Marshal, Unmarshal) and json.SetYSON → yson.FromCRDT (C18).

Commands
  Y <literal>            check one YSON value
  DY <replica> <literal> the same; the value is the export of a document the harness built
  D …                    document-building step (implementation only; the model prints nothing)

Literal grammar (one token, no spaces; str = hex code points joined by '.'):
  n | t | f | d<%v text as str>; | dN; dP; dM; | s<str>; | i<int>; | l<int>; | b<hex bytes>; | D<str>;
  ci<int>; | cl<int>; | cd<int>,<hex bytes>; | T node* ;   node = ( str ; attrs )
  R tnode      tnode = < str ; str ; attrs tnode* >       attrs = { (str = str ;)* }
  [ value* ] | { (str : value)* }
-/
import YorkieModel.Driver.Proto
import YorkieModel.Model.YsonText
namespace Yorkie.Driver.YsonEngine
open Yorkie Yorkie.Driver Yorkie.Yson

abbrev P := StateM (List Char)

instance : Inhabited Yson := ⟨.null⟩
instance : Inhabited TreeNode := ⟨.mk [] [] [] []⟩

def peek : P (Option Char) := do return (← get).head?
def next : P (Option Char) := do
  match (← get) with
  | [] => return none
  | c :: r => set r; return some c

def hexNat (cs : List Char) : Nat :=
  cs.foldl (fun acc c =>
    let d := if '0' ≤ c && c ≤ '9' then c.toNat - 48 else if 'a' ≤ c && c ≤ 'f' then c.toNat - 87 else 0
    acc * 16 + d) 0

def isHexC (c : Char) : Bool := ('0' ≤ c && c ≤ '9') || ('a' ≤ c && c ≤ 'f')

partial def takeWhileP (p : Char → Bool) : P (List Char) := do
  match (← peek) with
  | some c => if p c then do let _ ← next; let r ← takeWhileP p; return c :: r else return []
  | none => return []

/-- str: hex code points joined by '.' -/
def pStr : P Str := do
  let cs ← takeWhileP (fun c => isHexC c || c == '.')
  if cs.isEmpty then return [] else
  return ((String.ofList cs).splitOn ".").map (fun h => hexNat h.toList)

def pInt : P Int := do
  let cs ← takeWhileP (fun c => c == '-' || c.isDigit)
  return (String.ofList cs).toInt?.getD 0

partial def hexPairs : List Char → List Nat
  | a :: b :: r => hexNat [a, b] :: hexPairs r
  | _ => []

def pBytes : P (List Nat) := do
  let cs ← takeWhileP isHexC
  return hexPairs cs

def expect (c : Char) : P Unit := do let _ ← next; let _ := c; return ()

partial def pAttrs : P Attrs := do
  expect '{'
  let rec loop (acc : Attrs) : P Attrs := do
    match (← peek) with
    | some '}' => let _ ← next; return acc.reverse
    | none => return acc.reverse
    | _ =>
      let k ← pStr; expect '='
      let v ← pStr; expect ';'
      loop ((k, v) :: acc)
  loop []

partial def litTreeNode : P TreeNode := do
  expect '<'
  let ty ← pStr; expect ';'
  let v ← pStr; expect ';'
  let a ← pAttrs
  let rec kids (acc : List TreeNode) : P (List TreeNode) := do
    match (← peek) with
    | some '<' => let k ← litTreeNode; kids (k :: acc)
    | _ => let _ ← next; return acc.reverse
  let c ← kids []
  return .mk ty v a c

partial def litValue : P Yson := do
  match (← next) with
  | some 'n' => return .null
  | some 't' => return .bool true
  | some 'f' => return .bool false
  | some 'd' =>
    match (← peek) with
    | some 'N' => let _ ← next; expect ';'; return .double .nan
    | some 'P' => let _ ← next; expect ';'; return .double .posInf
    | some 'M' => let _ ← next; expect ';'; return .double .negInf
    | _ => let s ← pStr; expect ';'; return .double (.fin s)
  | some 's' => let s ← pStr; expect ';'; return .str s
  | some 'i' => let i ← pInt; expect ';'; return .int i
  | some 'l' => let i ← pInt; expect ';'; return .long i
  | some 'b' => let b ← pBytes; expect ';'; return .bytes b
  | some 'D' => let s ← pStr; expect ';'; return .date s
  | some 'c' =>
    match (← next) with
    | some 'i' => let i ← pInt; expect ';'; return .counter (.int i)
    | some 'l' => let i ← pInt; expect ';'; return .counter (.long i)
    | _ => let i ← pInt; expect ','; let b ← pBytes; expect ';'; return .counter (.dedup i b)
  | some 'T' =>
    let rec nodes (acc : List TextNode) : P (List TextNode) := do
      match (← next) with
      | some '(' =>
        let v ← pStr; expect ';'
        let a ← pAttrs; expect ')'
        nodes (⟨v, a⟩ :: acc)
      | _ => return acc.reverse
    return .text (← nodes [])
  | some 'R' => return .tree (← litTreeNode)
  | some '[' =>
    let rec elems (acc : List Yson) : P (List Yson) := do
      match (← peek) with
      | some ']' => let _ ← next; return acc.reverse
      | none => return acc.reverse
      | _ => let v ← litValue; elems (v :: acc)
    return .arr (← elems [])
  | some '{' =>
    let rec members (acc : List (Str × Yson)) : P (List (Str × Yson)) := do
      match (← peek) with
      | some '}' => let _ ← next; return acc.reverse
      | none => return acc.reverse
      | _ => let k ← pStr; expect ':'; let v ← litValue; members ((k, v) :: acc)
    return .obj (← members [])
  | _ => return .null

def parseLit (s : String) : Yson := (litValue.run s.toList).1

/-! printing -/

def hexStr (n : Nat) : String := String.ofList (Nat.toDigits 16 n)

/-- text as one ASCII line: printable ASCII except `\` raw, everything else `\{hex}` -/
def esc (s : Str) : String :=
  String.join (s.map fun c =>
    if 0x20 ≤ c && c ≤ 0x7e && c != 92 then String.singleton (Char.ofNat c) else "\\{" ++ hexStr c ++ "}")

def errMsg : Err → String
  | .unmarshalJSON => "unmarshal_JSON:_invalid_YSON"
  | .unmarshalObject => "unmarshal_object:_invalid_YSON"
  | .unmarshalArray => "unmarshal_array:_invalid_YSON"
  | .unsupported => "unsupported_element"
  | .parseBinData => "parse_BinData:_invalid_YSON"
  | .parseDate => "parse_date:_invalid_YSON"
  | .parseCounterSic => "parse_counter:_invalid_YSON"
  | .parseText => "parse_text:_invalid_YSON"
  | .parseTextValue => "parse_text_value:_invalid_YSON"
  | .counterType => "parse_counter_type:_unsupported_element"
  | .counterValue => "parse_counter_value:_unsupported_element"
  | .dedupType => "parse_dedup_counter_type:_unsupported_element"
  | .dedupHll => "parse_dedup_counter_hll:_unsupported_element"
  | .dedupHllInvalid => "parse_dedup_counter_hll:_invalid_YSON"
  | .dedupValue => "parse_dedup_counter_value:_invalid_YSON"
  | .parseInt => "parse_int:_invalid_YSON"
  | .parseLong => "parse_long:_invalid_YSON"
  | .parseTextNode => "parse_text_node:_invalid_YSON"
  | .parseTextAttribute => "parse_text_attribute:_invalid_YSON"
  | .parseTreeAttribute => "parse_tree_attribute:_invalid_YSON"
  | .parseTreeNode => "parse_tree_node:_invalid_YSON"

def tyName : GoTy → String
  | .nil => "nil" | .bool => "bool" | .float64 => "float64" | .string => "string" | .map => "map" | .slice => "slice"

def showRes (orig : Yson) (origText : Str) (tag : String) (r : Res Yson) : String :=
  match r with
  | .ok v =>
    let t := marshal v
    s!"{tag} ok eq={showBool (Yson.beq v orig)} re=" ++ (if t == origText then "=" else esc t)
  | .err e => s!"{tag} err:{errMsg e}"
  | .panic g w => s!"{tag} panic:{tyName g}!{tyName w}"
  | .setPanic n => s!"{tag} panic:set{n}"

def joinOrDash (l : List String) : String := if l.isEmpty then "-" else ",".intercalate l

def check (v : Yson) : List String :=
  if !v.wf then ["NOT-WF"] else
  let m := marshal v
  let u := roundTrip v
  let safe := YsonSafe v
  -- the bridge between the text level and the tree level, checked on every value the
  -- model calls safe: pre-pass + JSON reader yield exactly `toJ v`
  let bridge : List String :=
    if safe then
      match jsonParse (preprocess m) with
      | some j => if J.beq j (toJ v) then [] else ["BRIDGE-MISMATCH tree"]
      | none => ["BRIDGE-MISMATCH json"]
    else []
  let thm : List String :=
    (if safe && !(u.isOk v) then ["THEOREM-MISMATCH roundtrip"] else [])
    ++ (if RebuildSafe v && !((rebuild v).isOk v) then ["THEOREM-MISMATCH rebuild"] else [])
  [s!"M {esc m}", showRes v m "U" u, s!"S {joinOrDash ((unsafeTags v).map Tag.name)}"]
  ++ (if v.isObj then [showRes v m "B" (rebuild v), s!"R {joinOrDash ((rebuildTags v).map RTag.name)}"] else [])
  ++ bridge ++ thm

def step (s : Unit) (toks : List String) : Unit × List String :=
  match toks with
  | ["Y", lit] => (s, check (parseLit lit))
  | ["DY", _, lit] => (s, check (parseLit lit))
  | "D" :: _ => (s, [])
  | _ => (s, ["bad-op"])

def engine : Engine := { State := Unit, init := (), step := step }

end Yorkie.Driver.YsonEngine
