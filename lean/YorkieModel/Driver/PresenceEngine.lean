/- engine `presence`: presence maps of replicas and pending presence changes (C12, C08) -/
import YorkieModel.Driver.Proto
import YorkieModel.Model.Presence
namespace Yorkie.Driver.PresenceEngine
open Yorkie Yorkie.Driver Yorkie.Presence

structure Rep where
  /-- presence data per actor, association list (the driver keeps data, not closures) -/
  data : List (Actor × PData) := []
  pending : List POp := []

structure St where
  reps : List (String × Rep) := []

instance : Inhabited Rep := ⟨{}⟩

def parseData (s : String) : PData :=
  if s == "-" then [] else
  (s.splitOn ",").filterMap (fun kv =>
    match kv.splitOn "=" with
    | [k, v] => some (pctDecode k, pctDecode v)
    | _ => none)

def showData (d : PData) : String :=
  if d.isEmpty then "-" else
  ",".intercalate ((sortBy (fun a b => a.1 < b.1) d).map (fun p => s!"{p.1}={p.2}"))

def parseChange (toks : List String) : PChange :=
  match toks with
  | ["clear"] => .clear
  | ["put", d] => .put (parseData d)
  | _ => .clear

def showChange : PChange → String
  | .clear => "clear"
  | .put d => "put " ++ showData d

/-- `inner.Change.Execute` on the association-list state (same function as `Presence.execute`
    read through lookups) -/
def exec (r : Rep) (op : POp) : Rep :=
  let rest := r.data.filter (·.1 != op.actor)
  match op.change with
  | .put d => { r with data := (op.actor, d) :: rest }
  | .clear => { r with data := rest }

def showMap (r : Rep) : String :=
  "{" ++ ";".intercalate ((sortBy (fun a b => a.1 < b.1) r.data).map (fun p => s!"{p.1}:{showData p.2}")) ++ "}"

def step (s : St) (toks : List String) : St × List String :=
  match toks with
  | ["R", r] => ({ reps := regSet s.reps r {} }, ["ok"])
  | "PO" :: r :: "local" :: a :: n :: rest =>
    let op : POp := ⟨parseNatD a, parseNatD n, parseChange rest⟩
    let rep := exec (regGet s.reps r) op
    ({ reps := regSet s.reps r { rep with pending := rep.pending ++ [op] } }, ["ok"])
  | "PO" :: r :: "recv" :: a :: n :: rest =>
    let op : POp := ⟨parseNatD a, parseNatD n, parseChange rest⟩
    ({ reps := regSet s.reps r (exec (regGet s.reps r) op) }, ["ok"])
  | ["PFAIL", _] => (s, ["ok"])   -- a failing update leaves everything as it was
  | ["ACKP", r] =>
    let rep := regGet s.reps r
    ({ reps := regSet s.reps r { rep with pending := [] } }, ["ok"])
  | ["PQ", r] => (s, [showMap (regGet s.reps r)])
  | ["PP", r] => (s, ["[" ++ ";".intercalate ((regGet s.reps r).pending.map (fun op => showChange op.change)) ++ "]"])
  | _ => (s, ["bad-op"])

def engine : Engine := { State := St, init := {}, step := step }

end Yorkie.Driver.PresenceEngine
