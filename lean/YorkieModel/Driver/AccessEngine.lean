/- engine `access`: the request matrix of C13 replayed through Model/Access.lean -/
import YorkieModel.Driver.Proto
import YorkieModel.Model.Access
import YorkieModel.Generated.Rpc
namespace Yorkie.Driver.AccessEngine
open Yorkie Yorkie.Driver Yorkie.Access

structure St where
  cfg : Cfg := {}
  auth : AuthSt := {}

def parseSvc : String → Option Svc
  | "YorkieService" => some .yorkie
  | "AdminService" => some .admin
  | "ClusterService" => some .cluster
  | _ => none

/-- credential kinds of the command lines; the caller's home project is `A`, the other one `B` -/
def parseCred : String → Option Cred
  | "none" => some .none
  | "badkey" => some .badKey
  | "otherkey" => some (.apiKey .B)
  | "ownkey" => some (.apiKey .A)
  | "badtoken" => some .badToken
  | "outsider" => some (.token .uN)
  | "member" => some (.token .mA)
  | "owner" => some (.token .uA)
  | "badsecret" => some .badSecret
  | "emptysecret" => some .emptySecret
  | "othersecret" => some (.secret .B)
  | "ownsecret" => some (.secret .A)
  | "wrongsecret" => some .wrongClusterSecret
  | "prefixsecret" => some .wrongClusterSecret
  | "longersecret" => some .wrongClusterSecret
  | "rightsecret" => some .clusterSecret
  | _ => none

def parseTarget : String → Option Target
  | "own" => some .own
  | "fclient" => some (.client false) | "gclient" => some (.client true)
  | "fdocid" => some (.docid false) | "gdocid" => some (.docid true)
  | "fname" => some (.name false) | "gname" => some (.name true)
  | "frev" => some (.rev false) | "grev" => some (.rev true)
  | "fsession" => some (.session false) | "gsession" => some (.session true)
  | "fproject" => some (.project false) | "gproject" => some (.project true)
  | "fpass" => some .pass
  | _ => none

def showLine (cfg : Cfg) (svc : Svc) (proc : String) (c : Cred) (t : Target) : String :=
  let d := decideReq cfg svc proc c t
  let v := if victimOf cfg svc proc c t then "CHANGED" else "unchanged"
  s!"{d.show} victim={v}"

/-- run-time descriptor list against the T-gen table -/
def checkProcs (toks : List String) : String :=
  let gen := Generated.Rpc.procedures.map (fun p => p.1 ++ "/" ++ p.2)
  let missing := gen.filter (fun g => !toks.contains g)
  let extra := toks.filter (fun t => !gen.contains t)
  if missing.isEmpty && extra.isEmpty then s!"procs ok n={toks.length}"
  else s!"procs MISMATCH not-in-descriptors={missing} not-in-source-constants={extra}"

def parseToken : String → Option Token
  | "none" => some .none | "ta" => some .ta | "tb" => some .tb | "terr" => some .terr
  | _ => none

def parseHome : String → Option Proj
  | "A" => some .A | "B" => some .B
  | _ => none

/-- `AUTH proc=<p> home=<A|B> token=<t>`: the own-ids request of the home project with its API
key and that token, against the current auth state (webhooks on/off, verdict cache) -/
def authLine (s : St) (proc : String) (home : Proj) (tok : Token) : St × String :=
  match handlerOf .yorkie proc with
  | none => (s, "unimplemented consulted=0 victim=unchanged")
  | some h =>
    let w := worldFor h
    let out := execA s.cfg w .yorkie proc h (.apiKey home) tok (homeReq home) s.auth
    let v := if victimChanged s.cfg [home] w out.2.1 then "CHANGED" else "unchanged"
    ({ s with auth := { out.2.2.1 with now := out.2.2.1.now + 1 } },
     s!"{out.1.show} consulted={out.2.2.2} victim={v}")

def step (s : St) (toks : List String) : St × List String :=
  match toks with
  | ["WEBHOOK", "on"] => ({ s with auth := { on := true } }, ["webhook on"])
  | ["WEBHOOK", "off"] => ({ s with auth := {} }, ["webhook off"])
  | ["WEBHOOK", "flush"] => ({ s with auth := { s.auth with cache := [] } }, ["webhook flush"])
  | ["WEBHOOK", "expire"] => ({ s with auth := { s.auth with cache := [] } }, ["webhook expire"])
  | "AUTH" :: rest =>
    match parseHome (arg rest "home"), parseToken (arg rest "token") with
    | some home, some tok =>
      let (s', l) := authLine s (arg rest "proc") home tok
      (s', [l])
    | _, _ => (s, ["bad-line"])
  | "CONFIG" :: rest =>
    ({ s with cfg := { udp := arg rest "udp" == "true", third := arg rest "third" == "true" } }, ["config ok"])
  | "PROCS" :: rest => (s, [checkProcs rest])
  | "RPC" :: rest =>
    match parseSvc (arg rest "svc"), parseCred (arg rest "cred"), parseTarget (arg rest "target") with
    | some svc, some c, some t => (s, [showLine s.cfg svc (arg rest "proc") c t])
    | _, _, _ => (s, ["bad-line"])
  | _ => (s, ["bad-op"])

def engine : Engine := { State := St, init := {}, step := step }

end Yorkie.Driver.AccessEngine
