/- engine `conc`: the small-step concurrency model (Model/Conc.lean) executed under the schedule
the harness forced on the real server with the yield hooks.  See harness/eng_conc.go.

Commands: every `proto` command (executed atomically on the store: sequential setup), plus
  REQ r<i> <ATT|PP|DET|REM line> [lost=1]    declare a request
  SCH req=r<i> point=<p>                      start it if necessary and run its phases until its
                                              program counter stands at the yield point `p`
Yield points ↔ program counters: push.before = .push, push.done = .pull, minvv.before = .vvWrite,
minvv.read = .vvRead, clientinfo.before = .persist, end = returned and finished. -/
import YorkieModel.Driver.ProtoEngine
import YorkieModel.Model.Conc
namespace Yorkie.Driver.ConcEngine
open Yorkie Yorkie.Driver Yorkie.Server Yorkie.Conc Yorkie.Driver.ProtoEngine

structure State where
  sys : Sys
  /-- declared, not yet started -/
  reqs : List (Nat × Request × Bool)

def pointPc : String → Option Pc
  | "push.before" => some .push
  | "push.done" => some .pull
  | "minvv.before" => some .vvWrite
  | "minvv.read" => some .vvRead
  | "clientinfo.before" => some .persist
  | "end" => some .done
  | _ => none

def pcPoint : Pc → String
  | .validate => "validate" | .strip => "strip" | .push => "push.before" | .pull => "push.done"
  | .status => "status" | .vvWrite => "minvv.before" | .vvRead => "minvv.read"
  | .persist => "clientinfo.before" | .done => "end"

/-- `pullPack` calls `UpdateMinVersionVector` only without `DisableGC`: such a request has no
yield point between the two transactions -/
def effTarget (r : InFlight) (target : Pc) : Pc :=
  if target = .vvRead ∧ r.f.disableGC then .persist else target

/-- run the phases of `id` until its counter stands at `target`; a request whose `PushPull` has
returned (error or last phase done) finishes at once – the handler returns and releases `pull` -/
def runTo : Nat → Sys → Nat → Pc → Sys
  | 0, σ, _, _ => σ
  | fuel + 1, σ, id, target =>
    match σ.flight? id with
    | none => σ
    | some r =>
      if r.pc = .done then stepFn σ (.finish id)
      else if Pc.ord r.pc ≥ Pc.ord (effTarget r target) then σ
      else runTo fuel (stepFn σ (.phase id)) id target

def parseRequest (toks : List String) : Option Request :=
  match toks with
  | "ATT" :: c :: k :: _ =>
    some (.attach (parseRef c) (parseRef k) (parsePack (parseRef c) toks) (flag toks "dp") (flag toks "nogc"))
  | "PP" :: c :: d :: _ =>
    some (.pushpull (parseRef c) (parseRef d) (parsePack (parseRef c) toks) (flag toks "pushonly") (flag toks "nogc"))
  | "DET" :: c :: d :: _ => some (.detach (parseRef c) (parseRef d) (parsePack (parseRef c) toks))
  | "REM" :: c :: d :: _ => some (.remove (parseRef c) (parseRef d) (parsePack (parseRef c) toks))
  | _ => none

def report (σ : Sys) (id : Nat) : List String :=
  match σ.flight? id with
  | some r => [s!"S req=r{id} at={pcPoint r.pc}"]
  | none =>
    match σ.done? id with
    | some dn => [s!"S req=r{id} at=end", showResult dn.out]
    | none => [s!"S req=r{id} at=gone"]

def sched (st : State) (id : Nat) (target : Pc) : State × List String :=
  match st.sys.flight? id with
  | some _ =>
    let σ := runTo 12 st.sys id target
    ({ st with sys := σ }, report σ id)
  | none =>
    match st.reqs.find? (·.1 == id) with
    | none => (st, [s!"S req=r{id} at=gone"])
    | some (_, req, lost) =>
      if !st.sys.lockFree (lockOf st.sys.srv req) then (st, [s!"S req=r{id} at=blocked"])
      else
        let σ := runTo 12 (stepFn st.sys (.start id req lost)) id target
        ({ sys := σ, reqs := st.reqs.filter (·.1 != id) }, report σ id)

def step (st : State) (toks : List String) : State × List String :=
  match toks with
  | "REQ" :: r :: rest =>
    match parseRequest rest with
    | some req => ({ st with reqs := (parseRef r, req, flag rest "lost") :: st.reqs }, [s!"Q r{parseRef r}"])
    | none => (st, ["bad-op"])
  | "SCH" :: _ =>
    match pointPc (arg toks "point") with
    | some pc => sched st (parseRef (arg toks "req")) pc
    | none => (st, ["bad-op"])
  | _ =>
    let (s', out) := ProtoEngine.step st.sys.srv toks
    ({ st with sys := { st.sys with srv := s' } }, out)

def engine : Engine := { State := State, init := { sys := Sys.init, reqs := [] }, step := step }

end Yorkie.Driver.ConcEngine
