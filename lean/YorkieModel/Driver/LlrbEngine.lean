/- engine `llrb`: correspondence of pkg/llrb with Model/Llrb.lean (C07, tree half).
Every command prints `<result> | <String()> | <shape> | len=<Len>`. -/
import YorkieModel.Driver.Proto
import YorkieModel.Model.Llrb
namespace Yorkie.Driver.LlrbEngine
open Yorkie Yorkie.Driver Yorkie.Llrb Yorkie.RB

/-- `Tree.String()`: values in key order joined by `,` -/
def showVals (t : T) : String := ",".intercalate ((toList t).map (fun p => toString p.2))

def showShape : T → String
  | .nil => "-"
  | .node l a c r =>
    "(" ++ showShape l ++ s!" {a.k}={a.v}:{if c then "R" else "B"} " ++ showShape r ++ ")"

def obs (res : String) (m : M) : String := s!"{res} | {showVals m.t} | {showShape m.t} | len={len m}"

def step (m : M) (toks : List String) : M × List String :=
  let n := parseNatD
  match toks with
  | ["put", k, v] => let m' := put m (n k) (n v); (m', [obs "ok" m'])
  | ["rem", k] =>
    if removePanics m (n k) then (m, ["panic"]) else
    let m' := remove m (n k); (m', [obs "ok" m'])
  | ["floor", q] =>
    (m, [obs (match floor m (n q) with | some (k, v) => s!"{k}={v}" | none => "nil") m])
  | _ => (m, ["bad-op"])

def engine : Engine := { State := M, init := {}, step := step }

end Yorkie.Driver.LlrbEngine
