/- engine `crdt`: op-fed replay of document operations on model replicas (C01, C07, C08) -/
import YorkieModel.Driver.Proto
import YorkieModel.Model.Crdt
namespace Yorkie.Driver.CrdtEngine
open Yorkie Yorkie.Driver Yorkie.Crdt

structure St where
  reps : List (String × Doc) := []
  /-- the replica's change id (`InternalDocument.changeID`): C06's client clock -/
  clocks : List (String × ChangeID) := []

def getRep (s : St) (r : String) : Doc :=
  match s.reps.find? (·.1 == r) with
  | some p => p.2
  | none => Doc.init

def setRep (s : St) (r : String) (d : Doc) : St := { s with reps := regSet s.reps r d }

def parseID (toks : List String) : ChangeID :=
  { clientSeq := parseNatD (arg toks "cs"), serverSeq := 0, lamport := parseIntD (arg toks "lam"),
    actor := parseNatD (arg toks "actor"), vv := parseVV (arg toks "vv") }

def parseVal (v : String) : Option Val :=
  if v == "obj" then some .newObj
  else if v == "arr" then some .newArr
  else if v.startsWith "prim:" then some (.prim (pctDecode (v.drop 5).toString))
  else if v.startsWith "opq:" then some (.newOpaque (pctDecode (v.drop 4).toString))
  else if v.startsWith "cnt:i:" then some (.newCounter false (parseIntD (v.drop 6).toString))
  else if v.startsWith "cnt:l:" then some (.newCounter true (parseIntD (v.drop 6).toString))
  else none

/-- parse the canonical operation encoding written by harness/eng_crdt.go `encOp` -/
def parseOp (toks : List String) : Option Op :=
  let t := parseTicket (arg toks "t")
  let p := parseTicket (arg toks "p")
  -- value identity and execution ticket coincide for every non-undo operation
  let vtOk := arg toks "vt" == arg toks "t"
  match toks with
  | "set" :: _ => if vtOk then (parseVal (arg toks "v")).map (fun v => .set p (pctDecode (arg toks "k")) v t) else none
  | "add" :: _ => if vtOk then (parseVal (arg toks "v")).map (fun v => .add p (parseTicket (arg toks "prev")) v t) else none
  | "move" :: _ => some (.move p (parseTicket (arg toks "prev")) (parseTicket (arg toks "target")) t)
  | "remove" :: _ => some (.remove p (parseTicket (arg toks "target")) t)
  | "aset" :: _ => if vtOk then (parseVal (arg toks "v")).map (fun v => .arraySet p (parseTicket (arg toks "target")) v t) else none
  | "inc" :: _ => some (.increase p (parseIntD (arg toks "d")) t)
  | _ => none

def showErr : Err → String
  | .notApplicable => "err"
  | .childNotFound => "err"
  | .unsupported => "err"

def step (s : St) (toks : List String) : St × List String :=
  match toks with
  | ["R", r] => (setRep s r Doc.init, ["ok"])
  | ["R", r, a] =>
    let s := setRep s r Doc.init
    ({ s with clocks := regSet s.clocks r (ChangeID.initial.setActor (parseNatD a)) }, ["ok"])
  | ["SETACTOR", r, a] =>
    -- `Document.SetActor`: the document's change id adopts the actor (vector untouched)
    ({ s with clocks := regSet s.clocks r ((regGet s.clocks r).setActor (parseNatD a)) }, ["ok"])
  | ["CID", r, "local"] =>
    -- `Update`: the change gets `changeID.Next()` and the document adopts it
    let id := (regGet s.clocks r).next
    ({ s with clocks := regSet s.clocks r id }, [showID id])
  | "CID" :: r :: "recv" :: rest =>
    -- `applyChanges`: `changeID = changeID.SyncClocks(c.ID())`
    let id := (regGet s.clocks r).syncClocks (parseID rest)
    ({ s with clocks := regSet s.clocks r id }, ["ok"])
  | ["CIDQ", r] =>
    let id := regGet s.clocks r
    (s, [s!"lam={id.lamport} vv={showVV id.vv}"])
  | "OP" :: r :: rest =>
    match parseOp rest with
    | none => (s, ["unsupported"])
    | some op =>
      match execute (getRep s r) op with
      | .ok d' => (setRep s r d', ["ok"])
      | .error e => (s, [showErr e])
  | ["M", r] => (s, [marshalV (getRep s r) 64 [] rootId])
  | _ => (s, ["bad-op"])

def engine : Engine := { State := St, init := {}, step := step }

end Yorkie.Driver.CrdtEngine
