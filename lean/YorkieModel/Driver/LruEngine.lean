/- engine `lru`: pkg/cache wrappers against Model/Lru.lean (C20, secondary part).

   NEW kind size   kind = ex (LRUWithExpires, ttl 1h: one deterministic LRU of `size`, 0 = unbounded)
                        | shbig (sharded LRU whose shards can hold every key used: no eviction)
                        | shsmall (sharded LRU with evictions; shard choice uses a random hash
                          seed, so answers are not replayable: lines print `-`, oracle only)
   WIRE cache ttl  the backend cache manager built with distinct TTL options: wall clock, not in the
                   model (answered `WIRE done`); oracle on the Go side, theorems in Props/C20Wiring.lean
   A k v | G k | K k (Peek) | C k (Contains) | D k (Remove) | PG (Purge) | LEN
-/
import YorkieModel.Driver.Proto
import YorkieModel.Model.Lru
namespace Yorkie.Driver.LruEngine
open Yorkie Yorkie.Driver Yorkie.Lru

structure St where
  det : Bool := true
  c : Cache Nat Nat := Cache.empty 1000000000 (fun _ => 0)

def showOpt (tag : String) : Option Nat → String
  | some v => s!"{tag} hit {v}"
  | none => s!"{tag} miss"

def step (s : St) (toks : List String) : St × List String :=
  let out (d : String) (o : String) : List String := [if s.det then o else d ++ " -"]
  match toks with
  | ["NEW", kind, size] =>
    let n := parseNatD size
    let cap := if kind == "ex" && n > 0 then n else 1000000000
    ({ det := kind != "shsmall", c := Cache.empty cap (fun _ => 0) }, ["NEW"])
  | ["A", k, v] =>
    let k := parseNatD k
    let ev := (s.c.lookup k).isNone && decide ((s.c.shards 0).length ≥ s.c.cap)
    ({ s with c := s.c.add k (parseNatD v) }, out "A" s!"A {showBool ev}")
  | ["G", k] =>
    let (c', r) := s.c.get (parseNatD k)
    ({ s with c := c' }, out "G" (showOpt "G" r))
  | ["K", k] => (s, out "K" (showOpt "K" (s.c.peek (parseNatD k))))
  | ["C", k] => (s, out "C" s!"C {showBool (s.c.lookup (parseNatD k)).isSome}")
  | ["D", k] =>
    let k := parseNatD k
    ({ s with c := s.c.remove k }, out "D" s!"D {showBool (s.c.lookup k).isSome}")
  | ["WIRE", _, _] => (s, ["WIRE done"])
  | ["PG"] => ({ s with c := s.c.purge }, ["PG"])
  | ["LEN"] => (s, out "LEN" s!"LEN {(s.c.shards 0).length}")
  | _ => (s, ["bad-op"])

def engine : Engine := { State := St, init := {}, step := step }

end Yorkie.Driver.LruEngine
