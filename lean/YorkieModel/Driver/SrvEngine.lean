/-
engine `srv`: INTEGRATED correspondence – real `client.Client`s talking to the real in-process server
(memory DB, snapshots enabled) – replayed by the existing models (C01, C02, C06, C20):

  * request bookkeeping of the server: `Model/Server.lean` (`attach` / `pushpullReq` / `detach` /
    `deactivate`, `Config.snapshotThreshold` = the trace's), fed with the summary of every captured
    request pack; the response (checkpoint, returned changes, snapshot flag, version vector, removed)
    and the stored rows (log, head, client checkpoints, `versionvectors` rows) are predicted;
  * snapshot table, snapshot cache, snapshot response vector: `Model/ServerSnap.lean`;
  * per replica the CLOCK model `Model/Time.lean` (`ChangeID.next` / `syncClocks` / `syncLamport` /
    `setClocks`), the request the replica must have built (`Replica.packMatches`) and its checkpoint;
  * per replica the document CONTENT: `Model/Crdt.lean` (objects, arrays, counters) or
    `Model/Text.lean` (a document `{"t": Text}`), op-fed exactly like the engines `crdt` / `text`;
    a snapshot-fed replica continues on a copy of the model's SERVER LOG FOLD (`MSNAP`).

Lines (written by harness/eng_srv.go):
  CFG thr=<n> int=<n> content=json|text gc=0|1          → CFG ok
  ACT c<k> actor=<nat>                                   → R client=<nat>
  DEACT c<k>                                             → R ok | R err=<kind>
  R r<j> c<k> nogc=0|1                                   → ok          (new document.Document of client k)
  CID r<j> local | localp                                → the id of the new local change
  CID r<j> recv cs= lam= actor= vv=                      → ok          (one applied remote change)
  CID r<j> snap lam= vv=                                 → ok          (applied snapshot)
  CIDQ r<j>                                              → lam= vv= cp= pend=
  ATT|PP|DET|REM c<k> r<j> cp=<ss>,<cs> chg=<cs>/<lam>/<kind>/<vv>|… vv=<vv> nogc=0|1 [po=1] [lost=1]
                                                         → R cp= changes=[actor:cs:ss;…] snap= vv= removed= req=ok
  SOP <ss> <op>                                          → ok|err      (operation of stored row ss, server fold)
  LOG | LOGF                                             → L …         (rows appended since the last LOG | all rows)
  OP r<j> <op>                                           → ok|err|unsupported
  M r<j>                                                 → Marshal()
  MSNAP r<j> <ss>                                        → Marshal() of the log fold at ss; the replica continues on it
  BUILD seq=<n> mode=cold|warm                           → B ss= lam= vv= , Marshal() of the log fold at n, its presences
  PO r<j> local|recv <actor> <n> put <data>|clear        → ok          (forwarded to Driver/PresenceEngine.lean)
  PQ r<j>                                                → presence map (PresenceEngine)
  SPO <ss> <actor> <n> put <data>|clear                  → ok          (presence change of stored row ss)
  PSNAP r<j> <ss>                                        → presence map of the log fold at ss; the replica continues on it
  ! …                                                    → (nothing)   API-level line executed by the harness only

Presence (C12): the maps of the replicas live in a `PresenceEngine.St`; `PO`/`PQ` lines are handed to
`PresenceEngine.step` unchanged.  The server's document applies every stored presence change, so its map –
and with it the map inside a snapshot – is the fold of the `SPO` lines.  `Client.attachDocument` resets the
local map when the response says the document is presenceless and the client had not opted out.
-/
import YorkieModel.Driver.Proto
import YorkieModel.Driver.CrdtEngine
import YorkieModel.Driver.TextEngine
import YorkieModel.Driver.ProtoEngine
import YorkieModel.Driver.PresenceEngine
import YorkieModel.Model.ServerSnap
import YorkieModel.Model.CrdtTable
namespace Yorkie.Driver.SrvEngine
open Yorkie Yorkie.Driver Yorkie.Server Yorkie.ServerSnap Yorkie.Presence

/-- document content of one replica (only the part selected by `CFG content=` is used).  The heap of the
observable document model is kept as a strict table (`Model/CrdtTable.lean`; `CrdtTable.step_lookup`: it is the
heap `Crdt.execute` computes) – a chain of `Crdt.markRemoved` closures doubles the cost of a lookup per layer. -/
structure Content where
  json : CrdtTable.Table := CrdtTable.Table.init
  text : TextEngine.Side := {}

instance : Inhabited Content := ⟨{}⟩

structure Rep where
  client : Nat := 0
  sync : Replica := Replica.new 0 false
  content : Content := {}
  /-- presence changes of the local changes not yet acknowledged, with their client sequence number
  (`ApplyChangePack` re-applies `localChanges` after a snapshot) -/
  ppend : List (Nat × POp) := []

instance : Inhabited Rep := ⟨{}⟩

structure St where
  s : Server := Server.init
  snaps : Snaps := {}
  interval : Int := 1000000000
  isText : Bool := false
  /-- `c<k>` → actor -/
  clients : List (String × Nat) := []
  reps : List (String × Rep) := []
  /-- operations of the stored rows, in log order (token lists as written by the harness) -/
  slog : List (Int × List String) := []
  /-- the eager fold of `slog` -/
  sfold : Content := {}
  sseq : Int := 0
  /-- how many log rows the last `LOG` line covered -/
  logged : Nat := 0
  /-- presence maps of the replicas (engine `presence`) -/
  pres : PresenceEngine.St := {}
  /-- presence changes of the stored rows, in log order -/
  spres : List (Int × POp) := []

def docId : DocId := 0
def docKey : Nat := 0

def clientOf (s : St) (c : String) : Nat := regGet s.clients c
def getRep (s : St) (r : String) : Rep := regGet s.reps r
def setRep (s : St) (r : String) (x : Rep) : St := { s with reps := regSet s.reps r x }

/-! ### content -/

inductive OpRes | ok | err | unsupported

def applyContent (isText : Bool) (c : Content) (toks : List String) : Content × OpRes :=
  if isText then
    match TextEngine.applyOp c.text toks with
    | some (.ok y) => ({ c with text := y }, .ok)
    | some (.error .unsupported) => (c, .unsupported)
    | some (.error _) => (c, .err)
    | none => (c, .unsupported)
  else
    match CrdtEngine.parseOp toks with
    | none => (c, .unsupported)
    | some op =>
      match CrdtTable.step c.json op with
      | .ok tb => ({ c with json := tb }, .ok)
      | .error _ => (c, .err)

def showOpRes : OpRes → String
  | .ok => "ok" | .err => "err" | .unsupported => "unsupported"

def marshalContent (isText : Bool) (c : Content) : String :=
  if isText then TextEngine.marshalDoc c.text else Crdt.marshalV c.json.doc 64 [] Crdt.rootId

/-- fold of the stored operations up to `seq` from the empty document -/
def foldTo (isText : Bool) (slog : List (Int × List String)) (seq : Int) : Content :=
  (slog.filter (fun p => p.1 ≤ seq)).foldl (fun c p => (applyContent isText c p.2).1) {}

/-! ### parsing / printing -/

/-- `cs/lam/kind/vv` -/
def parseChange (actor : Nat) (s : String) : Option ChangeReq :=
  match s.splitOn "/" with
  | [cs, lam, kind, vv] =>
    some { clientSeq := parseNatD cs, lamport := parseIntD lam, vv := parseVV vv, actor := actor,
           hasOps := kind == "ops" || kind == "both", hasPresence := kind == "pres" || kind == "both", tag := 0 }
  | _ => none

def parseChanges (actor : Nat) (s : String) : List ChangeReq :=
  if s == "-" || s.isEmpty then [] else (s.splitOn "|").filterMap (parseChange actor)

def parsePack (actor : Nat) (toks : List String) : Pack :=
  { cp := ProtoEngine.parseCp (arg toks "cp"), changes := parseChanges actor (arg toks "chg"),
    vv := parseVV (arg toks "vv"), isRemoved := ProtoEngine.flag toks "rm" }

def b01 (b : Bool) : String := if b then "1" else "0"

def showRespRow (r : Row) : String :=
  s!"{r.actor}:{r.clientSeq}:{r.serverSeq}:{ProtoEngine.kindOf r.hasOps r.hasPresence}"

def showResp (r : Except ErrKind Resp) (snapVV : Option VV) (reqOk : Bool) : String :=
  match r with
  | .error e => s!"R err={ProtoEngine.showErr e}"
  | .ok r =>
    let vv := if r.snapshot then snapVV.getD [] else r.minVV.getD []
    s!"R cp={r.cp.serverSeq},{r.cp.clientSeq} changes=[{";".intercalate (r.changes.map showRespRow)}] " ++
    s!"snap={b01 r.snapshot} vv={showVV vv} removed={b01 r.isRemoved} req={if reqOk then "ok" else "MISMATCH"}"

def showLogRow (r : Row) : String :=
  s!"{r.serverSeq}:{r.actor}:{r.clientSeq}:{r.lamport}:{ProtoEngine.kindOf r.hasOps r.hasPresence}:{showVV r.vv}"

def showClientDoc (p : Nat × Client) : Option String :=
  match p.2.docs.get? docId with
  | none => none
  | some cd => some s!"{p.1}:{ProtoEngine.showStatus cd.status}:{cd.serverSeq}:{cd.clientSeq}"

def showSnapRow (r : SnapRow) : String := s!"{r.serverSeq}:{r.lamport}:{showVV r.vv}"

def showCache : Option SDoc → String
  | none => "-"
  | some d => s!"{d.serverSeq}:{d.clock.lamport}:{showVV d.clock.vv}"

def showLog (st : St) (full : Bool) : String :=
  match st.s.findDoc docId with
  | none => "L none"
  | some doc =>
    let rows := if full then doc.log else doc.log.drop st.logged
    let byKey {α} (l : List (Nat × α)) := sortBy (fun a b => a.1 < b.1) l
    let vvs := ";".intercalate ((byKey doc.vvRows).map (fun p => s!"{p.1}:{showVV p.2}"))
    let cls := ";".intercalate ((byKey st.s.clients).filterMap showClientDoc)
    let act := ",".intercalate ((byKey st.s.clients).map (fun p => s!"{p.1}:{b01 p.2.activated}"))
    let sn := ";".intercalate ((sortBy (fun (a b : SnapRow) => a.serverSeq < b.serverSeq) st.snaps.rows).map showSnapRow)
    s!"L seq={doc.serverSeq} n={doc.log.length} removed={b01 doc.removed} dp={b01 doc.disablePresence} rows=[{";".intercalate (rows.map showLogRow)}] " ++
    s!"vv=[{vvs}] clients=[{cls}] act=[{act}] snaps=[{sn}] cache={showCache st.snaps.cache}"

/-! ### presence -/

/-- the presence map of the server's document at `seq`: fold of the stored presence changes -/
def presFoldTo (spres : List (Int × POp)) (seq : Int) : PresenceEngine.Rep :=
  (spres.filter (fun p => p.1 ≤ seq)).foldl (fun r p => PresenceEngine.exec r p.2) {}

def setPres (st : St) (r : String) (x : PresenceEngine.Rep) : St :=
  { st with pres := { reps := regSet st.pres.reps r x } }

def docIsPresenceless (s : Server) : Bool :=
  match s.findDoc docId with
  | some d => d.disablePresence
  | none => false

/-- `Client.detachDocument` updates the document with `p.Clear()` before it builds the pack: unless the
document is presenceless (the update is dropped) the last change of a detach request clears presence -/
def detachClears (s : Server) (pack : Pack) : Bool :=
  docIsPresenceless s ||
  (match pack.changes.getLast? with
   | some c => c.hasPresence
   | none => false)

/-! ### requests -/

/-- run one document request through `Model/Server.lean` + `Model/ServerSnap.lean`, and the
acknowledgement part of `ApplyChangePack` on the replica -/
def request (st : St) (kind c r : String) (toks : List String) : St × List String :=
  let cid := clientOf st c
  let rep := getRep st r
  let pack := parsePack cid toks
  let nogc := ProtoEngine.flag toks "nogc"
  let reqDp := ProtoEngine.flag toks "dp"
  let reqOk := rep.sync.packMatches pack && (kind != "DET" || detachClears st.s pack)
  let (s', res) :=
    if kind == "ATT" then Server.attach st.s cid docKey pack reqDp nogc
    else if kind == "PP" then Server.pushpullReq st.s cid docId pack (ProtoEngine.flag toks "po") nogc
    else if kind == "REM" then Server.remove st.s cid docId pack
    else Server.detach st.s cid docId pack
  let (snaps', snapVV) := finishRequest st.interval st.snaps st.s s' docId cid pack nogc res
    (requestCpSeq st.s cid docId (kind == "ATT"))
  -- `lost=1`: the server processed the request, the response never reached the client: nothing is
  -- acknowledged, the replica keeps its checkpoint and its pending changes and will send them again
  let lost := ProtoEngine.flag toks "lost"
  let rep' : Rep := match res with
    | .ok resp =>
      if lost then rep
      else { rep with sync := rep.sync.ack resp.cp, ppend := rep.ppend.filter (fun p => p.1 > resp.cp.clientSeq) }
    | .error _ => rep
  let st' := setRep { st with s := s', snaps := snaps' } r rep'
  -- `attachDocument`: `if res.Msg.DisablePresence && !opts.DisablePresence { ResetPresences() }`
  let st'' := match res with
    | .ok _ => if kind == "ATT" && docIsPresenceless s' && !reqDp then setPres st' r {} else st'
    | .error _ => st'
  (st'', [showResp res snapVV reqOk])

def deactivateReq (st : St) (c : String) : St × List String :=
  let cid := clientOf st c
  let (s', res) := Server.deactivate st.s cid []
  -- `clusterServer.DetachDocument` pushes one presence-clear change: step 04 of its `PushPull` runs
  let snaps' := backgroundPart st.snaps st.s s' docId false st.interval
  ({ st with s := s', snaps := snaps' },
   [match res with | .ok _ => "R ok" | .error e => s!"R err={ProtoEngine.showErr e}"])

def showSync (x : Replica) : String :=
  s!"lam={x.clock.lamport} vv={showVV x.clock.vv} cp={x.cp.serverSeq},{x.cp.clientSeq} pend={x.pending.length}"

def step (st : St) (toks : List String) : St × List String :=
  match toks with
  | "CFG" :: _ =>
    ({ st with s := { st.s with cfg := { st.s.cfg with snapshotThreshold := parseIntD (arg toks "thr") } },
               interval := parseIntD (arg toks "int"), isText := arg toks "content" == "text" }, ["CFG ok"])
  | "ACT" :: c :: _ =>
    -- client ids are ObjectIDs chosen by the server: the trace supplies the value, `activate` does the rest
    let a := parseNatD (arg toks "actor")
    let (s', res) := Server.activate { st.s with nextClient := a }
    ({ st with s := s', clients := regSet st.clients c a },
     [match res with
      | .ok r => (match r.client with | some x => s!"R client={x}" | none => "R ok")
      | .error e => s!"R err={ProtoEngine.showErr e}"])
  | ["DEACT", c] => deactivateReq st c
  | "!" :: _ => (st, [])
  | "R" :: r :: c :: _ =>
    let a := clientOf st c
    (setPres (setRep st r { client := a, sync := Replica.new a (ProtoEngine.flag toks "nogc") }) r {}, ["ok"])
  | "PO" :: r :: "local" :: a :: n :: rest =>
    -- the change this presence change belongs to is the replica's next local change
    let (p', out) := PresenceEngine.step st.pres toks
    let x := getRep st r
    let op : POp := ⟨parseNatD a, parseNatD n, PresenceEngine.parseChange rest⟩
    (setRep { st with pres := p' } r { x with ppend := x.ppend ++ [(x.sync.clock.clientSeq + 1, op)] }, out)
  | "PO" :: _ =>
    let (p', out) := PresenceEngine.step st.pres toks
    ({ st with pres := p' }, out)
  | ["PQ", _] =>
    let (p', out) := PresenceEngine.step st.pres toks
    ({ st with pres := p' }, out)
  | "SPO" :: ss :: a :: n :: rest =>
    ({ st with spres := st.spres ++ [(parseIntD ss, ⟨parseNatD a, parseNatD n, PresenceEngine.parseChange rest⟩)] }, ["ok"])
  | ["PSNAP", r, ss] =>
    -- `applySnapshot`: `d.presences = presences` of the server's document, then the local changes that
    -- are still unacknowledged are applied again
    let x := (getRep st r).ppend.foldl (fun m p => PresenceEngine.exec m p.2) (presFoldTo st.spres (parseIntD ss))
    (setPres st r x, [PresenceEngine.showMap x])
  | ["CID", r, "local"] =>
    let x := getRep st r
    let (y, id) := x.sync.localChange
    (setRep st r { x with sync := y }, [showID id])
  | ["CID", r, "localp"] =>
    let x := getRep st r
    let (y, id) := x.sync.localPresence
    (setRep st r { x with sync := y }, [showID id])
  | "CID" :: r :: "recv" :: rest =>
    let x := getRep st r
    (setRep st r { x with sync := x.sync.recv (CrdtEngine.parseID rest) }, ["ok"])
  | "CID" :: r :: "snap" :: rest =>
    let x := getRep st r
    (setRep st r { x with sync := x.sync.applySnapshot (parseIntD (arg rest "lam")) (parseVV (arg rest "vv")) }, ["ok"])
  | ["CIDQ", r] => (st, [showSync (getRep st r).sync])
  | "ATT" :: c :: r :: rest => request st "ATT" c r rest
  | "PP" :: c :: r :: rest => request st "PP" c r rest
  | "DET" :: c :: r :: rest => request st "DET" c r rest
  | "REM" :: c :: r :: rest => request st "REM" c r rest
  | "SOP" :: ss :: rest =>
    let n := parseIntD ss
    let (c', res) := applyContent st.isText st.sfold rest
    ({ st with slog := st.slog ++ [(n, rest)], sfold := c', sseq := Max.max st.sseq n }, [showOpRes res])
  | ["LOG"] => ({ st with logged := (storedLog st.s docId).length }, [showLog st false])
  | ["LOGF"] => (st, [showLog st true])
  | "OP" :: r :: rest =>
    let x := getRep st r
    let (c', res) := applyContent st.isText x.content rest
    (setRep st r { x with content := c' }, [showOpRes res])
  | ["M", r] => (st, [marshalContent st.isText (getRep st r).content])
  | ["MSNAP", r, ss] =>
    -- the snapshot a client receives is the server's document at `ss`; its content is the fold of
    -- the log prefix (`C01.result_is_log_fold`); every row up to `ss` has been fed by `SOP` lines
    let x := getRep st r
    let c := if parseIntD ss == st.sseq then st.sfold else foldTo st.isText st.slog (parseIntD ss)
    (setRep st r { x with content := c }, [marshalContent st.isText c])
  | "BUILD" :: _ =>
    let seq := parseIntD (arg toks "seq")
    let sn := if arg toks "mode" == "cold" then { st.snaps with cache := none } else st.snaps
    let (sn', d) := buildDoc sn (storedLog st.s docId) seq
    ({ st with snaps := sn' },
     [s!"B ss={d.serverSeq} lam={d.clock.lamport} vv={showVV d.clock.vv}", marshalContent st.isText (foldTo st.isText st.slog seq),
      PresenceEngine.showMap (presFoldTo st.spres seq)])
  | _ => (st, ["bad-op"])

def engine : Engine := { State := St, init := {}, step := step }

end Yorkie.Driver.SrvEngine
