/- engine `json`: INTEGRATED replay of the json layer (C07 array/object/counter half, C08).
   The harness sends only API calls (`CALL <container> <kind> args`); the model issues the tickets,
   builds the operations (`Json.callOps`), applies them and prints them in the canonical form of
   harness/eng_crdt.go `encOp` (`showOp` is the inverse of `CrdtEngine.parseOp`). Remote changes of
   the peer are op-fed (`RC` / `OP` lines). -/
import YorkieModel.Driver.Proto
import YorkieModel.Driver.CrdtEngine
import YorkieModel.Model.Json
namespace Yorkie.Driver.JsonEngine
open Yorkie Yorkie.Driver Yorkie.Crdt Yorkie.Json

/-! ### canonical printing (inverse of `CrdtEngine.parseOp` / `parseVal`) -/

def unreserved (b : UInt8) : Bool :=
  (b ≥ 48 && b ≤ 57) || (b ≥ 65 && b ≤ 90) || (b ≥ 97 && b ≤ 122) ||
    b == 45 || b == 95 || b == 46 || b == 126

def hexChar (n : Nat) : Char :=
  if n < 10 then Char.ofNat (48 + n) else Char.ofNat (55 + n)

/-- Go's `url.QueryEscape` with `%20` for space (harness `pct`) -/
def pctEncode (s : String) : String :=
  s.toUTF8.foldl (fun acc b =>
    if unreserved b then acc.push (Char.ofNat b.toNat)
    else ((acc.push '%').push (hexChar (b.toNat / 16))).push (hexChar (b.toNat % 16))) ""

def showVal : Val → String
  | .prim r => "prim:" ++ pctEncode r
  | .newObj => "obj"
  | .newArr => "arr"
  | .newCounter false v => s!"cnt:i:{wrap false v}"
  | .newCounter true v => s!"cnt:l:{wrap true v}"
  | .newOpaque r => "opq:" ++ pctEncode r

def showOp : Op → String
  | .set p k v t => s!"set p={showTicket p} k={pctEncode k} v={showVal v} t={showTicket t} vt={showTicket t}"
  | .add p prev v t => s!"add p={showTicket p} prev={showTicket prev} v={showVal v} t={showTicket t} vt={showTicket t}"
  | .move p prev target t => s!"move p={showTicket p} prev={showTicket prev} target={showTicket target} t={showTicket t}"
  | .remove p target t => s!"remove p={showTicket p} target={showTicket target} t={showTicket t}"
  | .arraySet p target v t => s!"aset p={showTicket p} target={showTicket target} v={showVal v} t={showTicket t} vt={showTicket t}"
  | .increase p d t => s!"inc p={showTicket p} d={d} t={showTicket t}"

/-! ### `CALL <container> <kind> args…` -/

def parseCall (toks : List String) : Option Call :=
  match toks with
  | c :: kind :: rest =>
    let t := parseTicket c
    let i := parseNatD (arg rest "i")
    let j := parseNatD (arg rest "j")
    let v := CrdtEngine.parseVal (arg rest "v")
    let k := pctDecode (arg rest "k")
    if kind == "obj.set" then v.map (fun v => .objSet t k v)
    else if kind == "obj.delete" then some (.objDelete t k)
    else if kind == "arr.add" then v.map (fun v => .arrAdd t v)
    else if kind == "arr.insertAfter" then v.map (fun v => .arrInsertAfter t i v)
    else if kind == "arr.delete" then some (.arrDelete t i)
    else if kind == "arr.moveAfter" then some (.arrMoveAfter t i j)
    else if kind == "arr.moveFront" then some (.arrMoveFront t i)
    else if kind == "arr.moveLast" then some (.arrMoveLast t i)
    else if kind == "arr.moveBefore" then some (.arrMoveBefore t i j)
    else if kind == "arr.set" then v.map (fun v => .arrSet t i v)
    else if kind == "cnt.increase" then some (.cntIncrease t (parseIntD (arg rest "d")))
    else none
  | _ => none

/-! ### state -/

structure St where
  /-- the document between updates (root ≡ clone in the functional model) -/
  doc : Box := ⟨Doc.init⟩
  /-- the clone the running updater edits -/
  work : Box := ⟨Doc.init⟩
  ctx : Ctx := ⟨1, 0, 0⟩
  /-- `changeID.lamport` / actor of the editing replica -/
  lamport : Int := 0
  actor : Nat := 0
  /-- operations pushed by the running updater -/
  ops : List Op := []
  failed : Bool := false

def showM (b : Box) : String := marshalV b.d 64 [] rootId

def optTicket : Option Ticket → String
  | some t => showTicket t
  | none => "nil"

def joinOps (ops : List Op) : String :=
  ops.foldl (fun acc o => acc ++ " | " ++ showOp o) s!"change {ops.length}"

def step (s : St) (toks : List String) : St × List String :=
  match toks with
  | ["INIT", a] => ({ actor := parseNatD a }, ["ok"])
  | ["BEGIN"] =>
    ({ s with work := s.doc, ctx := Ctx.begin s.lamport s.actor, ops := [], failed := false }, ["ok"])
  | "CALL" :: rest =>
    if s.failed then (s, ["skipped"]) else
    match parseCall rest with
    | none => (s, ["bad-call"])
    | some c =>
      match localCallB s.work s.ctx c with
      | .error _ => ({ s with failed := true }, ["panic"])
      | .ok out =>
        ({ s with work := out.doc, ctx := out.ctx, ops := s.ops ++ out.ops },
          [(if out.ops.isEmpty then "noop " else "ok ") ++ showM out.doc])
  | ["LEN", a] => (s, [toString (arrLen s.work.d (parseTicket a))])
  | ["GET", a, i] => (s, [optTicket (arrGet s.work.d (parseTicket a) (parseNatD i))])
  | ["COMMIT"] =>
    if s.failed then ({ s with work := s.doc, ops := [], failed := false }, ["failed"]) else
    ({ s with doc := s.work, lamport := if s.ops.isEmpty then s.lamport else s.lamport + 1, ops := [] },
      [joinOps s.ops])
  | ["ABORT"] => ({ s with work := s.doc, ops := [], failed := false }, ["aborted"])
  | "RC" :: rest =>
    ({ s with lamport := Max.max s.lamport (parseIntD (arg rest "lam")) + 1 }, ["ok"])
  | "OP" :: rest =>
    match CrdtEngine.parseOp rest with
    | none => (s, ["unsupported"])
    | some op =>
      match execute s.doc.d op with
      | .ok d' => ({ s with doc := ⟨d'⟩, work := ⟨d'⟩ }, ["ok"])
      | .error _ => (s, ["err"])
  | ["SYNCED"] => (s, [s!"lamport={s.lamport}"])
  | ["M"] => (s, [s!"root={showM s.doc} clone={showM s.doc}"])
  | _ => (s, ["bad-op"])

def engine : Engine := { State := St, init := {}, step := step }

end Yorkie.Driver.JsonEngine
