/- engine `splay`: correspondence of pkg/splay with Model/Splay.lean (C07, tree half).
Every command prints `<result> | <ToTestString> | <shape> | cw=<CheckWeight> len=<Len>`. -/
import YorkieModel.Driver.Proto
import YorkieModel.Model.Splay
namespace Yorkie.Driver.SplayEngine
open Yorkie Yorkie.Driver Yorkie.Splay

/-- `Tree.ToTestString()` with `String()` of the test value = its id -/
def showList : T → String
  | .nil => ""
  | .node l id len w r => showList l ++ s!"[{w},{len}]{id}" ++ showList r

def showShape : T → String
  | .nil => "-"
  | .node l id _ w r => "(" ++ showShape l ++ s!" {id}:{w} " ++ showShape r ++ ")"

def obs (res : String) (t : T) : String :=
  s!"{res} | {showList t} | {showShape t} | cw={showBool (decide t.wf)} len={t.len}"

def showFind : FindRes → String
  | .nilTree => "nil"
  | .found id off => s!"{id}:{off}"
  | .outOfIndex => "err"

/-- position of an id in the in-order sequence -/
def posOf (t : T) (x : Nat) : Option Nat :=
  let rec go : List Nat → Nat → Option Nat
    | [], _ => none
    | y :: r, i => if y = x then some i else go r (i + 1)
  go t.ids 0

/-- pointer preconditions of the Go calls (see Model/Splay.lean); outside them both
sides print `precond` and skip the call -/
def precondOk (t : T) : List String → Bool
  | ["insert", id, _] => !(t.ids.contains (parseNatD id))
  | ["ins", prev, id, _] => t.ids.contains (parseNatD prev) && !(t.ids.contains (parseNatD id))
  | ["del", x] => t.ids.contains (parseNatD x)
  | ["delrange", l, r] =>
    match posOf t (parseNatD l) with
    | none => false
    | some lp =>
      if r == "-" then true else
      match posOf t (parseNatD r) with
      | none => false
      | some rp => lp < rp
  | _ => true

def step (t : T) (toks : List String) : T × List String :=
  let n := parseNatD
  if !precondOk t toks then (t, ["precond"]) else
  match toks with
  | ["insert", id, len] => let t' := insert (n id) (n len) t; (t', [obs "ok" t'])
  | ["ins", prev, id, len] => let t' := insertAfter (n prev) (n id) (n len) t; (t', [obs "ok" t'])
  | ["del", x] => let t' := delete (n x) t; (t', [obs "ok" t'])
  | ["splay", x] => let t' := splay (n x) t; (t', [obs "ok" t'])
  | ["find", p] => let (r, t') := findForText t (n p); (t', [obs (showFind r) t'])
  | ["finda", i] =>
    let (r, t') := findForArray t (n i)
    (t', [obs (match r with | .found id _ => toString id | r => showFind r) t'])
  | ["idx", x] =>
    let (r, t') := indexOf (n x) t
    (t', [obs (match r with | some i => toString i | none => "-1") t'])
  | ["setlen", x, k] => let t' := t.setLen (n x) (n k); (t', [obs "ok" t'])
  | ["updw", x] => let t' := t.updateWeightAt (n x); (t', [obs "ok" t'])
  | ["delrange", l, r] =>
    let t' := deleteRange (n l) (if r == "-" then none else some (n r)) t
    (t', [obs "ok" t'])
  | _ => (t, ["bad-op"])

def engine : Engine := { State := T, init := .nil, step := step }

end Yorkie.Driver.SplayEngine
