/- engine `time`: unit-level correspondence for L0 (C06, part of C09) -/
import YorkieModel.Driver.Proto
namespace Yorkie.Driver.TimeEngine
open Yorkie Yorkie.Driver

structure St where
  ids : List (String × ChangeID) := []
  vvs : List (String × VV) := []

def step (s : St) (toks : List String) : St × List String :=
  match toks with
  | ["ID.init", r, a] =>
    let id := ChangeID.initial.setActor (parseNatD a)
    ({ s with ids := regSet s.ids r id }, [showID id])
  | ["ID.next", r, x] =>
    let id := (regGet s.ids x).next
    ({ s with ids := regSet s.ids r id }, [showID id])
  | ["ID.nextp", r, x] =>
    let id := (regGet s.ids x).nextPresenceOnly
    ({ s with ids := regSet s.ids r id }, [showID id])
  | ["ID.sync", r, x, o] =>
    let id := (regGet s.ids x).syncClocks (regGet s.ids o)
    ({ s with ids := regSet s.ids r id }, [showID id])
  | ["ID.synclam", r, x, o] =>
    let id := (regGet s.ids x).syncLamport (regGet s.ids o)
    ({ s with ids := regSet s.ids r id }, [showID id])
  | ["ID.setclocks", r, x, l, v] =>
    let id := (regGet s.ids x).setClocks (parseIntD l) (regGet s.vvs v)
    ({ s with ids := regSet s.ids r id }, [showID id])
  | ["ID.setactor", r, x, a] =>
    let id := (regGet s.ids x).setActor (parseNatD a)
    ({ s with ids := regSet s.ids r id }, [showID id])
  | ["ID.hasclocks", x] => (s, [showBool (regGet s.ids x).hasClocks])
  | ["ID.vv", v, x] =>
    let vv := (regGet s.ids x).vv
    ({ s with vvs := regSet s.vvs v vv }, [showVV vv])
  | ["VV.new", v, lit] =>
    let vv := parseVV lit
    ({ s with vvs := regSet s.vvs v vv }, [showVV vv])
  | ["VV.set", v, a, x] =>
    let vv := (regGet s.vvs v).set (parseNatD a) (parseIntD x)
    ({ s with vvs := regSet s.vvs v vv }, [showVV vv])
  | ["VV.unset", v, a] =>
    let vv := (regGet s.vvs v).unset (parseNatD a)
    ({ s with vvs := regSet s.vvs v vv }, [showVV vv])
  | ["VV.max", v, w] =>
    let vv := (regGet s.vvs v).max (regGet s.vvs w)
    ({ s with vvs := regSet s.vvs v vv }, [showVV vv])
  | ["VV.min", v, w] =>
    let vv := (regGet s.vvs v).min (regGet s.vvs w)
    ({ s with vvs := regSet s.vvs v vv }, [showVV vv])
  | "MINVV" :: r :: ws =>
    let vv := minVV (ws.map (regGet s.vvs))
    ({ s with vvs := regSet s.vvs r vv }, [showVV vv])
  | ["VV.aoe", v, w] => (s, [showBool ((regGet s.vvs v).afterOrEqual (regGet s.vvs w))])
  | ["VV.equal", v, w] => (s, [showBool ((regGet s.vvs v).equal (regGet s.vvs w))])
  | ["VV.eta", v, t] => (s, [showBool ((regGet s.vvs v).equalToOrAfter (parseTicket t))])
  | ["VV.maxlam", v] => (s, [toString (regGet s.vvs v).maxLamport])
  | ["VV.get", v, a] =>
    (s, [match (regGet s.vvs v).get? (parseNatD a) with | some x => s!"{x} true" | none => "0 false"])
  | ["TK.cmp", a, b] =>
    (s, [match (parseTicket a).cmp (parseTicket b) with | .lt => "-1" | .eq => "0" | .gt => "1"])
  | ["TK.after", a, b] => (s, [showBool ((parseTicket a).after (parseTicket b))])
  | ["CP.fwd", a1, a2, b1, b2] =>
    let c := (Checkpoint.mk (parseIntD a1) (parseNatD a2)).forward ⟨parseIntD b1, parseNatD b2⟩
    (s, [s!"{c.serverSeq},{c.clientSeq}"])
  | ["CP.nss", a1, a2, b] =>
    let c := (Checkpoint.mk (parseIntD a1) (parseNatD a2)).nextServerSeq (parseIntD b)
    (s, [s!"{c.serverSeq},{c.clientSeq}"])
  | ["CP.scs", a1, a2, b] =>
    let c := (Checkpoint.mk (parseIntD a1) (parseNatD a2)).syncClientSeq (parseNatD b)
    (s, [s!"{c.serverSeq},{c.clientSeq}"])
  | _ => (s, ["bad-op"])

def engine : Engine := { State := St, init := {}, step := step }

end Yorkie.Driver.TimeEngine
