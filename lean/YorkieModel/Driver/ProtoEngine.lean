/- engine `proto`: correspondence of the server protocol model (L5) with a real in-process
server on the memory DB (C04, C11; later C05/C10/C12).  See harness/eng_proto.go. -/
import YorkieModel.Driver.Proto
import YorkieModel.Model.Server
import YorkieModel.Model.ServerCompact
import YorkieModel.Model.ServerFault
namespace Yorkie.Driver.ProtoEngine
open Yorkie Yorkie.Driver Yorkie.Server

/-- `c3` / `d1` / `k0` → 3 / 1 / 0 -/
def parseRef (s : String) : Nat := parseNatD (s.drop 1).toString

def flag (toks : List String) (k : String) : Bool := arg toks k == "1"

def parseCp (s : String) : Checkpoint :=
  match s.splitOn "," with
  | [a, b] => ⟨parseIntD a, parseNatD b⟩
  | _ => Checkpoint.initial

/-- `{c0:1,c2:5}` -/
def parseCVV (s : String) : VV :=
  let body := ((s.drop 1).dropEnd 1).toString
  if body.isEmpty then [] else
  (body.splitOn ",").filterMap (fun kv =>
    match kv.splitOn ":" with
    | [k, v] => some (parseRef k, parseIntD v)
    | _ => none)

def changeVV (actor : Actor) (lam : Int) : VV := if lam == 0 then [] else [(actor, lam)]

/-- `cs:lam:kind:tag[:actor]` -/
def parseChange (c : ClientId) (s : String) : Option ChangeReq :=
  let mk (cs lam kind tag : String) (actor : Actor) : ChangeReq :=
    { clientSeq := parseNatD cs, lamport := parseIntD lam, vv := changeVV actor (parseIntD lam), actor := actor,
      hasOps := kind == "ops" || kind == "both", hasPresence := kind == "pres" || kind == "both",
      tag := parseNatD tag }
  match s.splitOn ":" with
  | [cs, lam, kind, tag] => some (mk cs lam kind tag c)
  | [cs, lam, kind, tag, a] => some (mk cs lam kind tag (parseRef a))
  | _ => none

def parseChanges (c : ClientId) (s : String) : List ChangeReq :=
  if s == "-" || s.isEmpty then [] else (s.splitOn ",").filterMap (parseChange c)

def parsePack (c : ClientId) (toks : List String) : Pack :=
  { cp := parseCp (arg toks "cp"), changes := parseChanges c (arg toks "chg"),
    vv := parseCVV (arg toks "vv"), isRemoved := flag toks "rm" }

def parseOrder (s : String) : List DocId :=
  if s.isEmpty || s == "-" then [] else (s.splitOn ",").map parseRef

def b01 (b : Bool) : String := if b then "1" else "0"

def showCVV (v : VV) : String :=
  "{" ++ ",".intercalate ((sortBy (fun a b => a.1 < b.1) v).map (fun p => s!"c{p.1}:{p.2}")) ++ "}"

def kindOf (ops pres : Bool) : String :=
  if ops && pres then "both" else if ops then "ops" else if pres then "pres" else "none"

def showRespRow (r : Row) : String :=
  s!"c{r.actor}:{r.clientSeq}:{r.serverSeq}:{r.tag}:{kindOf r.hasOps r.hasPresence}"

def showErr : ErrKind → String
  | .clientNotFound => "clientNotFound"
  | .clientNotActivated => "clientNotActivated"
  | .documentNotAttached => "documentNotAttached"
  | .documentNeverAttached => "documentNeverAttached"
  | .documentAlreadyAttached => "documentAlreadyAttached"
  | .documentAlreadyDetached => "documentAlreadyDetached"
  | .documentNotFound => "documentNotFound"
  | .changeNotFound => "changeNotFound"
  | .invalidClientSeq => "invalidClientSeq"
  | .invalidServerSeq => "invalidServerSeq"
  | .epochMismatch => "epochMismatch"
  | .internal => "internal"

def showPackResp (r : Resp) : String :=
  let doc := match r.doc with | some d => s!"doc=d{d} " | none => ""
  s!"R {doc}cp={r.cp.serverSeq},{r.cp.clientSeq} changes=[{";".intercalate (r.changes.map showRespRow)}] " ++
  s!"snap={b01 r.snapshot} minvv={showCVV (r.minVV.getD [])} removed={b01 r.isRemoved}"

def showResult (r : Except ErrKind Resp) (plain : Bool := false) : String :=
  match r with
  | .error e => s!"R err={showErr e}"
  | .ok r =>
    match r.client with
    | some c => s!"R client=c{c}"
    | none => if plain then "R ok" else showPackResp r

def showStatus : DocStatus → String
  | .attaching => "attaching" | .attached => "attached" | .detached => "detached"
  | .removed => "removed" | .none => "none"

def showLogRow (r : Row) : String :=
  s!"{r.serverSeq}:c{r.actor}:{r.clientSeq}:{r.lamport}:{kindOf r.hasOps r.hasPresence}:{r.tag}"

def showClientDoc (d : DocId) (p : Nat × Client) : Option String :=
  match p.2.docs.get? d with
  | none => none
  | some cd => some s!"c{p.1}:{showStatus cd.status}:{cd.serverSeq}:{cd.clientSeq}:{cd.epoch}"

def showLog (s : Server) (d : DocId) : String :=
  match s.findDoc d with
  | none => s!"L d{d} none"
  | some doc =>
    let rows := ";".intercalate (doc.log.map showLogRow)
    let vvs := ";".intercalate ((sortBy (fun a b => a.1 < b.1) doc.vvRows).map (fun p => s!"c{p.1}:{showCVV p.2}"))
    let cls := ";".intercalate ((sortBy (fun a b => a.1 < b.1) s.clients).filterMap (showClientDoc d))
    let act := ",".intercalate ((sortBy (fun a b => a.1 < b.1) s.clients).map (fun p => s!"c{p.1}:{b01 p.2.activated}"))
    s!"L d{d} key=k{doc.key} seq={doc.serverSeq} epoch={doc.epoch} removed={b01 doc.removed} dp={b01 doc.disablePresence} " ++
    s!"log=[{rows}] vv=[{vvs}] clients=[{cls}] act=[{act}]"

/-- `clients.Deactivate` ranges over a Go map, so the runtime picks the order.  The harness reports
the documents it saw detached (`order=`); when the call failed with two or more documents still
open it cannot tell which of them the runtime tried (`amb=1`): the driver then resolves the choice
with the model itself – the next document is one whose detach fails in the state reached so far. -/
def deactOrder (s : Server) (c : ClientId) (toks : List String) : List DocId :=
  let done := parseOrder (arg toks "order")
  if !flag toks "amb" then done else
  match s.findClient c with
  | none => done
  | some info =>
    let s1 := (clusterDetachAll c s done).1
    let rest := (openIds info).filter (fun d => !done.contains d)
    match rest.find? (fun d => match (clusterDetach s1 c d).2 with | .error _ => true | .ok _ => false) with
    | some x => done ++ [x]
    | none => done

def step (s : Server) (toks : List String) : Server × List String :=
  match toks with
  | "CFG" :: _ =>
    ({ s with cfg := { s.cfg with removeOnDetach := flag toks "rod" } }, ["CFG ok"])
  | "ACT" :: _ =>
    let (s', r) := Server.step s .activate
    (s', [showResult r])
  | "DEACT" :: c :: _ =>
    let (s', r) := Server.step s (.deactivate (parseRef c) (deactOrder s (parseRef c) toks))
    (s', [showResult r true])
  | "ATT" :: c :: k :: _ =>
    let cid := parseRef c
    let (s', r) := Server.step s (.attach cid (parseRef k) (parsePack cid toks) (flag toks "dp") (flag toks "nogc"))
    (s', [showResult r])
  | "PP" :: c :: d :: _ =>
    let cid := parseRef c
    let (s', r) := Server.step s (.pushpull cid (parseRef d) (parsePack cid toks) (flag toks "pushonly") (flag toks "nogc"))
    (s', [showResult r])
  | "DET" :: c :: d :: _ =>
    let cid := parseRef c
    let (s', r) := Server.step s (.detach cid (parseRef d) (parsePack cid toks))
    (s', [showResult r])
  | "REM" :: c :: d :: _ =>
    let cid := parseRef c
    let (s', r) := Server.step s (.remove cid (parseRef d) (parsePack cid toks))
    (s', [showResult r])
  | ["LOG", d] => (s, [showLog s (parseRef d)])
  | _ => (s, ["bad-op"])

def engine : Engine := { State := Server, init := Server.init, step := step }


/-! ### engines `compact` (C10) and `faults` (C05): the `proto` commands plus

  `CP k<key> force=<0|1>`                          `Yorkie.CompactDocument(ctx, key, force)`
  `FLT call=<DB method> nth=<n> when=<before|after>` arm ONE fault for the next ATT/PP/DET/REM line

(additions only: `step`/`engine` above are untouched and still serve the `proto` engine) -/
namespace X
open Yorkie Yorkie.Driver Yorkie.Server

structure State where
  s : Server := Server.init
  /-- armed fault: DB method, n-th call of it inside the request, after? -/
  armed : Option (String × Nat × Bool) := none

def showCompactErr : CompactErr → String
  | .documentNotFound => "documentNotFound"
  | .documentAttached => "documentAttached"
  | .contentMismatch => "contentMismatch"
  | .invalidSize => "invalidSize"

/-- which storage call of the request is the `nth` call of `method` (Model/ServerFault.lean header) -/
def faultAt (attach : Bool) (method : String) (nth : Nat) : Option FaultAt :=
  if method == "FindClientInfoByRefKey" && nth == 1 then some .handlerFindClient
  else if method == "FindDocInfoByRefKey" then
    (if attach then (if nth == 1 then some .pushFindDoc else none)
     else if nth == 1 then some .handlerFindDoc else if nth == 2 then some .pushFindDoc else none)
  else if nth != 1 then none
  else if method == "CreateChangeInfos" then some .createChanges
  else if method == "FindChangeInfosBetweenServerSeqs" then some .pullFindChanges
  else if method == "UpdateMinVersionVector" then some .updateMinVV
  else if method == "UpdateClientInfoAfterPushPull" then some .updateClientInfo
  else if attach && method == "FindOrCreateDocInfo" then some .findOrCreateDoc
  else if attach && method == "TryAttaching" then some .tryAttaching
  else none

def faultOf (attach : Bool) (armed : Option (String × Nat × Bool)) : Option Fault :=
  match armed with
  | none => none
  | some (m, n, after) =>
    match faultAt attach m n with
    | some p => some { point := p, after := after }
    | none => none

def request (toks : List String) : Option Request :=
  match toks with
  | "ATT" :: c :: k :: _ =>
    some (.attach (parseRef c) (parseRef k) (parsePack (parseRef c) toks) (flag toks "dp") (flag toks "nogc"))
  | "PP" :: c :: d :: _ =>
    some (.pushpull (parseRef c) (parseRef d) (parsePack (parseRef c) toks) (flag toks "pushonly") (flag toks "nogc"))
  | "DET" :: c :: d :: _ => some (.detach (parseRef c) (parseRef d) (parsePack (parseRef c) toks))
  | "REM" :: c :: d :: _ => some (.remove (parseRef c) (parseRef d) (parsePack (parseRef c) toks))
  | _ => none

def step (st : State) (toks : List String) : State × List String :=
  match toks with
  | "FLT" :: _ =>
    ({ st with armed := some (arg toks "call", parseNatD (arg toks "nth"), arg toks "when" == "after") }, ["FLT ok"])
  | "CP" :: k :: _ =>
    let (s', r) := compactByKey tagSem (flag toks "force") st.s (parseRef k)
    ({ st with s := s' },
     [match r with | .ok _ => "C ok" | .error e => s!"C err={showCompactErr e}"])
  | _ =>
    match st.armed, request toks with
    | some a, some req =>
      let (s', r) := stepF (faultOf (toks.head? == some "ATT") (some a)) st.s req
      ({ s := s', armed := none }, [showResult r])
    | _, _ =>
      let (s', out) := ProtoEngine.step st.s toks
      ({ st with s := s' }, out)

def engine : Engine := { State := State, init := {}, step := step }

end X

end Yorkie.Driver.ProtoEngine
