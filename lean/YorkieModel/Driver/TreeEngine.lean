/-
engine `tree`: op-fed replay of `TreeEdit`/`TreeStyle` operations on model replicas (C19, C01, C07) and
the tie of the C19 table + the integrated scenario function `runCase` to the implementation.

Every replica has two model trees, mirroring `document.Document`: `root` (`d.doc.root`) and `clone`
(`d.cloneRoot`); a server copy (`InternalDocument`) uses `root` only. The harness prints one
`OP <replica> <side> …` line per application (the json-layer call on the clone sees no version vector;
`Change.Execute` on the root sees the change's vector; the server replays with `rev=0`).

Lines (written by harness/eng_tree.go):
  R <rep> <actor> | RS <rep>               new replica / server copy                      → ok
  U … | S … | Q | KNOWN … | #…             API-level lines executed by the harness only   → (nothing)
  OP <rep> <side> new t=<ticket> nodes=<n|n|…> vv=… rev=…                                 → ok|err
  OP <rep> <side> edit p=<ticket> from=<pos> to=<pos> contents=<tree/tree|-> sl=<n> t=<ticket>
       st=<ticket,…|-> spans=<n> vv=<{a:l,…}|-> rev=<0|1>                                 → ok|err|unsupported
  OP <rep> <side> style p=… from=… to=… attrs=<k:v,…> rem=<k,…> t=… vv=… rev=…            → ok|err
  M <rep> / MC <rep>                       `Marshal()` of root / clone: {"t":…}
  X <rep> <side>                           `ToXML()` (pct-encoded)
  D <rep> <side>                           structural dump, post-order
  P <rep> <from> <to>                      `FindPos` of both indices on the clone
  IP <rep> <idx>                           index → index.TreePos → path → index on the clone
  SNAP <src> <dst>                         dst.root := snapshot codec of src.root; dst.clone := DeepCopy → ok|err
  CASE <idx>                               the row of the Lean matrix table, canonical text
  RUN <idx> <12|21> <1|2>                  `runCase` + `thirdClient` on that row: changes and final XMLs
-/
import YorkieModel.Driver.Proto
import YorkieModel.Driver.TextEngine
import YorkieModel.Model.TreeDoc
import YorkieModel.Model.TreeMatrixTable
namespace Yorkie.Driver.TreeEngine
open Yorkie Yorkie.Driver Yorkie.Tree

structure Side where
  tc : Option Ticket := none
  tree : Tree := emptyTree
  /-- an operation failed on this copy: the Go tree is partially mutated, the harness stops observing it -/
  failed : Bool := false
deriving Inhabited

structure RepS where
  root : Side := {}
  clone : Side := {}
deriving Inhabited

structure St where
  reps : List (String × RepS) := []

def getRep (s : St) (r : String) : RepS := regGet s.reps r
def setRep (s : St) (r : String) (x : RepS) : St := { reps := regSet s.reps r x }
def getSide (x : RepS) (side : String) : Side := if side == "clone" then x.clone else x.root
def setSide (x : RepS) (side : String) (y : Side) : RepS :=
  if side == "clone" then { x with clone := y } else { x with root := y }

/-! ### strings -/

def ofCodes (l : Str) : String := String.ofList (l.map Char.ofNat)
def codes (s : String) : Str := s.toList.map Char.toNat
def pctS (l : Str) : String := TextEngine.pctEncode (ofCodes l)
def pctU (u : List Nat) : String := TextEngine.pctEncode (Text.stringOfUnits u)

/-! ### parsing -/

def parseId (s : String) : Option NodeId :=
  match s.splitOn ":" with
  | [l, d, a, off] => some ⟨⟨parseIntD l, parseNatD d, parseNatD a⟩, parseNatD off⟩
  | _ => none

def parseOptTicket (s : String) : Option Ticket := if s == "-" then none else some (parseTicket s)

def parsePos (s : String) : Option Pos :=
  match s.splitOn "/" with
  | [p, l] =>
    match parseId p, parseId l with
    | some a, some b => some ⟨a, b⟩
    | _, _ => none
  | _ => none

/-- `[k=v@l:d:a!;…]` -/
def parseAttrs (s : String) : List Attr :=
  let body := ((s.drop 1).dropEnd 1).toString
  if body.isEmpty then [] else
  (body.splitOn ";").filterMap (fun a =>
    match a.splitOn "@" with
    | [kv, tk] =>
      let removed := tk.endsWith "!"
      let tk' := if removed then (tk.dropEnd 1).toString else tk
      match kv.splitOn "=" with
      | [k, v] => some ⟨codes (pctDecode k), codes (pctDecode v), parseTicket tk', removed⟩
      | _ => none
    | _ => none)

/-- `depth,id,type,value,removedAt,insPrev,insNext,mergedFrom,mergedAt,[attrs]` -/
def parseFlat (s : String) : Option Flat :=
  match s.splitOn "," with
  | [d, id, ty, val, rm, ip, inx, mf, ma, as] =>
    match parseId id with
    | none => none
    | some i =>
      some ⟨parseNatD d,
        { mkNode i (codes (pctDecode ty)) (Text.unitsOfString (pctDecode val)) (parseAttrs as) with
          removedAt := parseOptTicket rm, insPrev := parseId ip, insNext := parseId inx,
          mergedFrom := parseId mf, mergedAt := parseOptTicket ma }⟩
  | _ => none

def parseFlats (s : String) : Option (List Flat) := (s.splitOn "|").mapM parseFlat

def parseContents (s : String) : Option (List (List Flat)) :=
  if s == "-" then some [] else (s.splitOn "/").mapM parseFlats

def parseTickets (s : String) : List Ticket := if s == "-" then [] else (s.splitOn ",").map parseTicket

def parseVVOpt (s : String) : VV := if s == "-" then [] else parseVV s

def parseKVs (s : String) : List (Str × Str) :=
  if s.isEmpty then [] else
  (s.splitOn ",").filterMap (fun kv =>
    match kv.splitOn ":" with
    | [k, v] => some (codes (pctDecode k), codes (pctDecode v))
    | _ => none)

def parseKeys (s : String) : List Str := if s.isEmpty then [] else (s.splitOn ",").map (fun k => codes (pctDecode k))

/-! ### printing -/

def showId (i : NodeId) : String := s!"{showTicket i.createdAt}:{i.offset}"
def showOptId : Option NodeId → String
  | none => "-"
  | some i => showId i
def showOptTk : Option Ticket → String
  | none => "-"
  | some t => showTicket t
def showPos (p : Pos) : String := s!"{showId p.parent}/{showId p.left}"

def showAttr (a : Attr) : String :=
  s!"{pctS a.key}={pctS a.val}@{showTicket a.updatedAt}{if a.removed then "!" else ""}"

def showAttrs (as : List Attr) : String := "[" ++ ";".intercalate ((sortAttrs as).map showAttr) ++ "]"

def showFlat (f : Flat) : String :=
  let n := f.node
  s!"{f.depth},{showId n.id},{pctS n.type},{pctU n.value},{showOptTk n.removedAt},{showOptId n.insPrev},{showOptId n.insNext},{showOptId n.mergedFrom},{showOptTk n.mergedAt},{showAttrs n.attrs}"

def showContents (cs : List (List Flat)) : String :=
  if cs.isEmpty then "-" else "/".intercalate (cs.map (fun fl => "|".intercalate (fl.map showFlat)))

def showTickets (ts : List Ticket) : String := if ts.isEmpty then "-" else ",".intercalate (ts.map showTicket)

def dumpNode (t : Tree) (pd : Ptr × Nat) : String :=
  let n := t.get pd.1
  let reg := match exactGo n.id t.idmap with
    | some q => if q == pd.1 then "r" else "-"
    | none => "-"
  s!"{pd.2},{showId n.id},{pctS n.type},{pctU n.value},{showOptTk n.removedAt},{showOptId n.insPrev},{showOptId n.insNext},{showOptId n.mergedFrom},{showOptTk n.mergedAt},{showOptId n.mergedInto},{n.visLen},{n.totLen},{reg},{showAttrs n.attrs}"

def dump (x : Side) : String :=
  match x.tc with
  | none => "none"
  | some _ => " ".intercalate ((postorderD x.tree.fuel x.tree x.tree.root 0).map (dumpNode x.tree))

def xml (x : Side) : String :=
  match x.tc with
  | none => "none"
  | some _ => TextEngine.pctEncode (ofCodes x.tree.toXMLCodes)

def marshalDoc (x : Side) : String :=
  match x.tc with
  | none => "{}"
  | some _ => "{\"t\":" ++ ofCodes x.tree.marshalCodes ++ "}"

def showPath (p : List Nat) : String := ".".intercalate (p.map toString)

/-! ### the C19 table, canonical text of a row -/

def showKV (kvs : List (Str × Str)) (kvSep sep : String) : String :=
  sep.intercalate (kvs.map (fun kv => pctS kv.1 ++ kvSep ++ pctS kv.2))

def showJItem (it : JItem) : String :=
  s!"{it.depth}~{pctS it.type}~{pctU it.value}~{showKV it.attrs "=" ";"}"

def showJ (items : List JItem) : String := if items.isEmpty then "-" else "|".intercalate (items.map showJItem)

def showCall : Call → String
  | .nop => "nop"
  | .edit fr to cs sl => s!"edit:{fr}:{to}:{sl}:{if cs.isEmpty then "-" else "/".intercalate (cs.map showJ)}"
  | .style fr to kvs => s!"style:{fr}:{to}:{showKV kvs "=" ";"}"
  | .removeStyle fr to ks => s!"rmstyle:{fr}:{to}:{",".intercalate (ks.map pctS)}"

def showCase (c : Case) : String := s!"case {c.idx} init={showJ c.init} c1={showCall c.call1} c2={showCall c.call2}"

def showChange : Option Change → String
  | none => "none"
  | some ch =>
    match ch.op with
    | .edit fr to cs sl ts st =>
      s!"edit from={showPos fr} to={showPos to} contents={showContents cs} sl={sl} t={showTicket ts} st={showTickets st} vv={showVV ch.id.vv}"
    | .style fr to arg ts =>
      let (a, r) := match arg with
        | .set kvs => (showKV kvs ":" ",", "")
        | .remove ks => ("", ",".intercalate (ks.map pctS))
      s!"style from={showPos fr} to={showPos to} attrs={a} rem={r} t={showTicket ts} vv={showVV ch.id.vv}"

def xmlT (t : Tree) : String := TextEngine.pctEncode (ofCodes t.toXMLCodes)

def runLines (c : Case) (order12 : Bool) (snapAt : Nat) : List String :=
  match runCase c with
  | .error _ => ["run failed"]
  | .ok o =>
    let third := match thirdClient o order12 snapAt with
      | .error _ => ["d3 failed", "srv failed"]
      | .ok (s, d3) => [s!"d3 root={xmlT d3.root} clone={xmlT d3.clone}", s!"srv root={xmlT s}"]
    [s!"ch1 {showChange o.ch1}", s!"ch2 {showChange o.ch2}",
     s!"d1 root={xmlT o.d1.root} clone={xmlT o.d1.clone}",
     s!"d2 root={xmlT o.d2.root} clone={xmlT o.d2.clone}"] ++ third

/-! ### operations -/

def applyOpLine (x : Side) (toks : List String) : Option (Except Err Side) :=
  let t := parseTicket (arg toks "t")
  let vv := parseVVOpt (arg toks "vv")
  let rev := arg toks "rev" != "0"
  match toks with
  | "new" :: _ =>
    match parseFlats (arg toks "nodes") with
    | none => none
    | some fl =>
      match Tree.ofFlat fl with
      | .error e => some (.error e)
      | .ok tr => some (.ok { tc := some t, tree := tr })
  | "edit" :: _ =>
    if arg toks "spans" != "0" then some (.error .unsupported) else
    if some (parseTicket (arg toks "p")) != x.tc then some (.error .notFound) else
    match parsePos (arg toks "from"), parsePos (arg toks "to"), parseContents (arg toks "contents") with
    | some fr, some to, some cs =>
      let st := parseTickets (arg toks "st")
      match x.tree.applyOp (.edit fr to cs (parseNatD (arg toks "sl")) t st) vv rev with
      | .ok tr => some (.ok { x with tree := tr })
      | .error e => some (.error e)
    | _, _, _ => none
  | "style" :: _ =>
    if some (parseTicket (arg toks "p")) != x.tc then some (.error .notFound) else
    match parsePos (arg toks "from"), parsePos (arg toks "to") with
    | some fr, some to =>
      let kvs := parseKVs (arg toks "attrs")
      -- `TreeStyle.Execute`: attributes take priority, otherwise RemoveStyle (possibly with no key)
      let sa : StyleArg := if !kvs.isEmpty then .set kvs else .remove (parseKeys (arg toks "rem"))
      match x.tree.applyOp (.style fr to sa t) vv rev with
      | .ok tr => some (.ok { x with tree := tr })
      | .error e => some (.error e)
    | _, _ => none
  | _ => none

def showPosR : Except Err Pos → String
  | .ok p => showPos p
  | .error _ => "err"

def step (s : St) (toks : List String) : St × List String :=
  match toks with
  | "R" :: r :: _ => (setRep s r {}, ["ok"])
  | "RS" :: r :: _ => (setRep s r {}, ["ok"])
  | "U" :: _ => (s, [])
  | "S" :: _ => (s, [])
  | "Q" :: _ => (s, [])
  | "KNOWN" :: _ => (s, [])
  | "OP" :: r :: side :: rest =>
    let x := getRep s r
    match rest with
    | "unsupported" :: _ => (s, ["unsupported"])
    | _ =>
      match applyOpLine (getSide x side) rest with
      | none => (s, ["bad-op"])
      | some (.ok y) => (setRep s r (setSide x side y), ["ok"])
      | some (.error .unsupported) => (s, ["unsupported"])
      | some (.error _) => (setRep s r (setSide x side { getSide x side with failed := true }), ["err"])
  | ["M", r] => (s, [marshalDoc (getRep s r).root])
  | ["MC", r] => (s, [marshalDoc (getRep s r).clone])
  | ["X", r, side] => (s, [xml (getSide (getRep s r) side)])
  | ["D", r, side] => (s, [dump (getSide (getRep s r) side)])
  | ["P", r, f, t] =>
    let x := (getRep s r).clone
    match x.tree.findPos (parseIntD f), x.tree.findPos (parseIntD t) with
    | .ok a, .ok b => (s, [s!"from={showPos a} to={showPos b}"])
    | _, _ => (s, ["from=err to=err"])
  | ["IP", r, i] =>
    let x := (getRep s r).clone
    match x.tree.indexToPath (parseIntD i) with
    | .error _ => (s, ["err"])
    | .ok p =>
      match x.tree.pathToIndex p with
      | .error _ => (s, ["err"])
      | .ok b => (s, [s!"path={showPath p} back={b}"])
  | ["SNAP", src, dst] =>
    let a := (getRep s src).root
    let d := getRep s dst
    if a.failed || d.root.failed || d.clone.failed then (s, ["skipped"]) else
    match a.tc with
    | none => (s, ["err"])
    | some _ =>
      match a.tree.snapshot with
      | .error _ => (s, ["err"])
      | .ok t => (setRep s dst { root := { tc := a.tc, tree := t }, clone := { tc := a.tc, tree := t.deepCopy } }, ["ok"])
  | ["CASE", i] =>
    match Matrix.matrix[parseNatD i]? with
    | some c => (s, [showCase c])
    | none => (s, ["case ? out of range"])
  | ["RUN", i, ord, sn] =>
    match Matrix.matrix[parseNatD i]? with
    | some c => (s, runLines c (ord == "12") (parseNatD sn))
    | none => (s, ["run ? out of range"])
  | _ => (s, ["bad-op"])

def engine : Engine := { State := St, init := {}, step := step }

end Yorkie.Driver.TreeEngine
