/- engines `store` / `storex`: per-call correspondence of mongo.ChangeStore with
   Model/ChangeStore.lean against a ground-truth table (C20).

   Commands (one per line; rows are `seq:actor:pres:tag`, pres ∈ n|p|c):
     TR row…            set the ground-truth table of this trace
     E lo hi k          EnsureChanges(lo,hi) with a fetcher that fails on call number k (0-based)
     I row…             ReplaceOrInsert(rows)
     X lo hi            ExpandRange{lo,hi}
     Q lo hi            ChangesInRange(lo,hi)
     R actor            RemoveChangesByActor(actor)  (the rows leave the table as well)
     P lo hi row…       CreateChangeInfos: table += rows; ReplaceOrInsert(rows); ExpandRange{lo,hi}
     V                  the store is evicted from the changeCache LRU: continue with NewChangeStore()
     QA lo hi           ChangesInRange(f,t) for every f,t ∈ [lo,hi] (one line)
     L cmd…             look-ahead: run cmd on a copy, print its result, keep the state
     LA u               look-ahead over the whole alphabet of universe 1..u (one line)
-/
import YorkieModel.Driver.Proto
import YorkieModel.Model.ChangeStore
namespace Yorkie.Driver.ChangeStoreEngine
open Yorkie Yorkie.Driver Yorkie.CS

structure St where
  truth : List Change := []
  /-- table and actor set as given by `TR` (alphabet of `LA`) -/
  rows0 : List Change := []
  store : Store := {}

inductive Cmd
  | ensure (lo hi k : Nat)
  | insert (cs : List Change)
  | expand (lo hi : Nat)
  | query (lo hi : Nat)
  | remove (a : Nat)
  | push (lo hi : Nat) (cs : List Change)
  | evict
  | bad

def parsePres (s : String) : Pres :=
  if s == "p" then .put else if s == "c" then .clear else .none

def parseRow (s : String) : Change :=
  match s.splitOn ":" with
  | [q, a, p, t] => ⟨parseNatD q, parseNatD a, parsePres p, parseNatD t⟩
  | _ => default

def parseCmd : List String → Cmd
  | ["E", lo, hi, k] => .ensure (parseNatD lo) (parseNatD hi) (parseNatD k)
  | "I" :: rows => .insert (rows.map parseRow)
  | ["X", lo, hi] => .expand (parseNatD lo) (parseNatD hi)
  | ["Q", lo, hi] => .query (parseNatD lo) (parseNatD hi)
  | ["R", a] => .remove (parseNatD a)
  | "P" :: lo :: hi :: rows => .push (parseNatD lo) (parseNatD hi) (rows.map parseRow)
  | ["V"] => .evict
  | _ => .bad

def showRanges (rs : List Range) : String :=
  "[" ++ ",".intercalate (rs.map (fun r => s!"{r.lo}-{r.hi}")) ++ "]"

def showRows (cs : List Change) : String :=
  "[" ++ ",".intercalate (cs.map (fun c => s!"{c.seq}:{c.tag}")) ++ "]"

def showSeqs (cs : List Change) : String := ",".intercalate (cs.map (fun c => toString c.seq))

def showStore (s : Store) : String := s!"r={showRanges s.ranges} t={showRows s.tree}"

def truthFn (t : List Change) : Truth := fun q => t.find? (fun c => c.seq == q)

def exec (st : St) : Cmd → St × String
  | .ensure lo hi k =>
    let res := ensure (truthFn st.truth).fetch st.store lo hi k
    ({ st with store := res.store },
      s!"E {lo} {hi} {k} {if res.ok then "ok" else "err"} f={showRanges res.calls} {showStore res.store} q={showRows (changesInRange res.store lo hi)}")
  | .insert cs =>
    let s' := replaceOrInsert st.store cs
    ({ st with store := s' }, s!"I {showSeqs cs} {showStore s'}")
  | .expand lo hi =>
    let s' := expandRange st.store ⟨lo, hi⟩
    ({ st with store := s' }, s!"X {lo} {hi} {showStore s'}")
  | .query lo hi => (st, s!"Q {lo} {hi} {showRows (changesInRange st.store lo hi)}")
  | .remove a =>
    match removeByActor st.store a with
    | some s' =>
      ({ st with store := s', truth := List.filter (fun c => !removable a c) st.truth }, s!"R {a} ok {showStore s'}")
    | none => (st, s!"R {a} panic {showStore st.store}")
  | .push lo hi cs =>
    let s' := expandRange (replaceOrInsert st.store cs) ⟨lo, hi⟩
    -- the table is a map: a pushed row replaces an existing row of the same sequence number
    let kept := List.filter (fun c => !(cs.any (fun d => d.seq == c.seq))) st.truth
    ({ st with store := s', truth := cs ++ kept }, s!"P {lo} {hi} {showSeqs cs} {showStore s'}")
  | .evict => ({ st with store := Store.new }, s!"V {showStore Store.new}")
  | .bad => (st, "bad-op")

/-- `[(f,t) | f ← [lo..hi], t ← [f..hi]]` -/
def subRanges (lo hi : Nat) : List (Nat × Nat) :=
  (List.range' lo (hi + 1 - lo)).flatMap (fun f => (List.range' f (hi + 1 - f)).map (fun t => (f, t)))

def dedupSorted : List Nat → List Nat
  | [] => []
  | [x] => [x]
  | x :: y :: r => if x == y then dedupSorted (y :: r) else x :: dedupSorted (y :: r)

/-- the alphabet of the exhaustive enumeration over universe `1..u` (same order as
    `storeAlphabet` in harness/eng_store.go) -/
def alphabet (st : St) (u : Nat) : List Cmd :=
  let rg := subRanges 1 u
  let rows := sortBy (fun a b => a.seq < b.seq) st.rows0
  let actors := dedupSorted (sortBy (fun a b => a < b) (st.rows0.map (·.actor)))
  rg.map (fun p => Cmd.ensure p.1 p.2 99) ++
  rg.map (fun p => Cmd.expand p.1 p.2) ++
  rows.map (fun c => Cmd.insert [c]) ++
  actors.map Cmd.remove ++
  rg.map (fun p => Cmd.ensure p.1 p.2 0) ++
  rg.map (fun p => Cmd.ensure p.1 p.2 1) ++
  (if u > 1 then [Cmd.ensure u 1 99, Cmd.expand u 1] else [])

def step (st : St) (toks : List String) : St × List String :=
  match toks with
  | "TR" :: rows =>
    let t := rows.map parseRow
    ({ truth := t, rows0 := t, store := {} }, [s!"TR {t.length}"])
  | "L" :: cmd => (st, ["L " ++ (exec st (parseCmd cmd)).2])
  | ["LA", u] =>
    (st, ["LA " ++ "|".intercalate ((alphabet st (parseNatD u)).map (fun c => (exec st c).2))])
  | ["QA", lo, hi] =>
    let lo := parseNatD lo
    let hi := parseNatD hi
    let ns := List.range' lo (hi + 1 - lo)
    (st, ["QA " ++ ";".intercalate (ns.flatMap (fun f => ns.map (fun t =>
      s!"{f}-{t}={showRows (changesInRange st.store f t)}")))])
  | _ =>
    let (st', o) := exec st (parseCmd toks)
    (st', [o])

def engine : Engine := { State := St, init := {}, step := step }

end Yorkie.Driver.ChangeStoreEngine
