/- engine `codec`: byte-level codecs of C09 (version vector, primitive, counter, snapshot frame).
   engine `pbfuzz`: the protobuf-level stream has no model; every command is answered with no
   output (the harness prints nothing either), so only `T` lines are compared. -/
import YorkieModel.Driver.Proto
import YorkieModel.Model.VVBytes
import YorkieModel.Model.PrimBytes
import YorkieModel.Model.SnapshotHeader
namespace Yorkie.Driver.CodecEngine
open Yorkie Yorkie.Driver Yorkie.ByteCodec

def hexDigit (n : Nat) : Char := if n < 10 then Char.ofNat (48 + n) else Char.ofNat (87 + n)

/-- lower-case hex, `-` for the empty string -/
def showHex (b : Bytes) : String :=
  if b.isEmpty then "-" else
  String.ofList (b.flatMap (fun x => [hexDigit (x.toNat / 16), hexDigit (x.toNat % 16)]))

def hexNibble? (c : Char) : Option Nat :=
  if '0' ≤ c ∧ c ≤ '9' then some (c.toNat - 48)
  else if 'a' ≤ c ∧ c ≤ 'f' then some (c.toNat - 87)
  else none

def parseHexList : List Char → Option Bytes
  | [] => some []
  | [_] => none
  | a :: b :: r =>
    match hexNibble? a, hexNibble? b, parseHexList r with
    | some x, some y, some t => some (UInt8.ofNat (x * 16 + y) :: t)
    | _, _, _ => none

def parseHex (s : String) : Option Bytes := if s == "-" then some [] else parseHexList s.toList

def showPrim : PrimBytes.Prim → String
  | .null => "null:-"
  | .boolean b => s!"boolean:{showBool b}"
  | .integer v => s!"integer:{v.toInt}"
  | .long v => s!"long:{v.toInt}"
  | .double v => s!"double:{v.toNat}"
  | .string s => s!"string:{showHex s}"
  | .bytes b => s!"bytes:{showHex b}"
  | .date v => s!"date:{v.toInt}"

/-- `<type> <value>` as printed by `showPrim`, split -/
def parsePrim (t v : String) : Option PrimBytes.Prim :=
  match t with
  | "null" => some .null
  | "boolean" => some (.boolean (v == "true"))
  | "integer" => some (.integer (BitVec.ofInt 32 (parseIntD v)))
  | "long" => some (.long (BitVec.ofInt 64 (parseIntD v)))
  | "double" => some (.double (BitVec.ofNat 64 (parseNatD v)))
  | "string" => (parseHex v).map .string
  | "bytes" => (parseHex v).map .bytes
  | "date" => some (.date (BitVec.ofInt 64 (parseIntD v)))
  | "goint" => some (PrimBytes.ofGoInt (parseIntD v))
  | _ => none

def showCnt : PrimBytes.Cnt → String
  | .int v => s!"int:{v.toInt}"
  | .long v => s!"long:{v.toInt}"
  | .dedup v => s!"dedup:{v.toInt}"

def parseCnt (t v : String) : Option PrimBytes.Cnt :=
  match t with
  | "int" => some (.int (BitVec.ofInt 32 (parseIntD v)))
  | "long" => some (.long (BitVec.ofInt 64 (parseIntD v)))
  | "dedup" => some (.dedup (BitVec.ofInt 32 (parseIntD v)))
  | _ => none

/-- the abstract zstd pair instantiated at the one point the command supplies -/
def zstdAt (c : Bytes) (d : Option Bytes) : SnapshotHeader.Zstd := ⟨fun _ => c, fun _ => d⟩

def parseZres (s : String) : Option (Option Bytes) :=
  if s == "err" then some none
  else if s.startsWith "ok:" then (parseHex (s.drop 3).toString).map some
  else none

def step (s : Unit) (toks : List String) : Unit × List String :=
  match toks with
  | ["VVENC", lit] => (s, [showHex (VVBytes.encode (parseVV lit))])
  | ["VVDEC", h] =>
    (s, [match parseHex h with
      | none => "bad-hex"
      | some b => match VVBytes.decode b with
        | none => "reject"
        | some v => showVV v])
  | ["PRIMENC", t, v] =>
    (s, [match parsePrim t v with
      | none => "bad-arg"
      | some p => (if t == "goint" then s!"{(showPrim p).takeWhile (· != ':')} " else "") ++ showHex (PrimBytes.encode p)])
  | ["PRIMDEC", t, h] =>
    (s, [match parseHex h with
      | none => "bad-hex"
      | some b => match PrimBytes.VType.ofNat? (parseNatD t) with
        | none => "reject"
        | some vt => match PrimBytes.decode vt b with
          | none => "reject"
          | some p => showPrim p])
  | ["CNTENC", t, v] =>
    (s, [match parseCnt t v with
      | none => "bad-arg"
      | some c => showHex (PrimBytes.cntEncode c)])
  | ["CNTDEC", t, h] =>
    (s, [match parseHex h with
      | none => "bad-hex"
      | some b => match PrimBytes.CType.ofNat? (parseNatD t) with
        | none => "reject"
        | some ct => match PrimBytes.cntDecode ct b with
          | none => "reject"
          | some c => showCnt c])
  | ["CNTINC", t, v, pt, pv] =>
    (s, [match parseCnt t v, parsePrim pt pv with
      | some c, some p => match PrimBytes.increase c p with
        | none => "err"
        | some c' => showCnt c' ++ " " ++ showHex (PrimBytes.cntEncode c')
      | _, _ => "bad-arg"])
  | ["HDRENC", h, z] =>
    (s, [match parseHex h, parseHex z with
      | some d, some c => showHex (SnapshotHeader.frame (zstdAt c none) d)
      | _, _ => "bad-hex"])
  | ["HDRDEC", h, z] =>
    (s, [match parseHex h, parseZres z with
      | some d, some r => match SnapshotHeader.unframe (zstdAt [] r) d with
        | none => "reject"
        | some o => showHex o
      | _, _ => "bad-hex"])
  | ["HDRBIG", n] =>
    -- a stored snapshot of `n` MiB (pattern data built by the harness) must be read back whole:
    -- `unframe (frame d) = some d` (Props/C09 snapshot_header_roundtrip) at a size where decoder limits bite
    (s, [match n.toNat? with
      | some k => "ok len=" ++ toString (k * 1048576)
      | none => "bad-arg"])
  | _ => (s, ["bad-op"])

def engine : Engine := { State := Unit, init := (), step := step }

/-- protobuf-level stream: not interpreted by the model -/
def pbfuzzEngine : Engine := { State := Unit, init := (), step := fun s _ => (s, []) }

end Yorkie.Driver.CodecEngine
