/-
Line-protocol helpers shared by all driver engines (core Lean only).
-/
import YorkieModel.Model.Time
namespace Yorkie.Driver

/-- insertion sort on a key, stable; used only for canonical printing -/
def sortBy {α} (lt : α → α → Bool) (l : List α) : List α :=
  l.foldl (fun acc x =>
    let rec ins : List α → List α
      | [] => [x]
      | y :: r => if lt x y then x :: y :: r else y :: ins r
    ins acc) []

def showVV (v : VV) : String :=
  "{" ++ ",".intercalate ((sortBy (fun a b => a.1 < b.1) v).map (fun p => s!"{p.1}:{p.2}")) ++ "}"

def parseIntD (s : String) : Int := s.toInt?.getD 0
def parseNatD (s : String) : Nat := s.toNat?.getD 0

/-- parse `{a:n,b:m}`; insertion order kept -/
def parseVV (s : String) : VV :=
  let body := ((s.drop 1).dropEnd 1).toString
  if body.isEmpty then [] else
  (body.splitOn ",").filterMap (fun kv =>
    match kv.splitOn ":" with
    | [k, v] => some (parseNatD k, parseIntD v)
    | _ => none)

def showTicket (t : Ticket) : String := s!"{t.lamport}:{t.delim}:{t.actor}"

def parseTicket (s : String) : Ticket :=
  match s.splitOn ":" with
  | [l, d, a] => { lamport := parseIntD l, delim := parseNatD d, actor := parseNatD a }
  | _ => default

def showID (id : ChangeID) : String :=
  s!"cs={id.clientSeq} ss={id.serverSeq} lam={id.lamport} actor={id.actor} vv={showVV id.vv}"

def showBool (b : Bool) : String := if b then "true" else "false"

/-- association-list register file used by several engines -/
def regGet {α} [Inhabited α] (m : List (String × α)) (k : String) : α :=
  match m.find? (·.1 == k) with
  | some p => p.2
  | none => default

def regSet {α} (m : List (String × α)) (k : String) (v : α) : List (String × α) :=
  (k, v) :: m.filter (·.1 != k)

/-- `key=value` lookup in a token list -/
def arg (toks : List String) (k : String) : String :=
  match toks.find? (fun t => t.startsWith (k ++ "=")) with
  | some t => (t.drop (k.length + 1)).toString
  | none => ""

def hexVal (c : Char) : Nat :=
  if '0' ≤ c ∧ c ≤ '9' then c.toNat - '0'.toNat
  else if 'a' ≤ c ∧ c ≤ 'f' then c.toNat - 'a'.toNat + 10
  else if 'A' ≤ c ∧ c ≤ 'F' then c.toNat - 'A'.toNat + 10
  else 0

/-- percent-decoding (inverse of Go's url.QueryEscape with %20 for space) -/
def pctDecode (s : String) : String :=
  let rec go : List Char → ByteArray → ByteArray
    | [], acc => acc
    | '%' :: a :: b :: r, acc => go r (acc.push (UInt8.ofNat (hexVal a * 16 + hexVal b)))
    | c :: r, acc => go r (c.toString.toUTF8.foldl (fun a x => a.push x) acc)
  match String.fromUTF8? (go s.toList ByteArray.empty) with
  | some r => r
  | none => s

/-- A driver engine: state machine over token lists. -/
structure Engine where
  State : Type
  init : State
  step : State → List String → State × List String

end Yorkie.Driver
