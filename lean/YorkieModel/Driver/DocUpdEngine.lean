/- engine `docupd`: `Document.Update` state machine incl. failing / panicking callbacks (C08) -/
import YorkieModel.Driver.CrdtEngine
import YorkieModel.Model.Document
namespace Yorkie.Driver.DocUpdEngine
open Yorkie Yorkie.Driver Yorkie.Crdt Yorkie.Document

structure St where
  doc : DocSt := DocSt.init
  buf : List Op := []

def step (s : St) (toks : List String) : St × List String :=
  match toks with
  | "BUF" :: rest =>
    match CrdtEngine.parseOp rest with
    | some op => ({ s with buf := s.buf ++ [op] }, ["ok"])
    | none => (s, ["unsupported"])
  | ["UPD", out, n] =>
    let k := parseNatD n
    let o : Outcome := if out == "ok" then .ok else if out == "err" then .error k
      else if out == "panic" then .panic k else .rejected
    ({ doc := update panicResetsClone s.doc s.buf o, buf := [] }, ["done"])
  | ["REM"] => ({ doc := applyRemote s.doc s.buf, buf := [] }, ["done"])
  | ["ACK", n] => ({ s with doc := ack s.doc (parseNatD n) }, ["done"])
  | ["SCN", _] => (s, ["scenario"])
  | ["M"] => (s, [marshalV s.doc.root.d 64 [] rootId])
  | ["MC"] => (s, [marshalV (ensureClone s.doc).d 64 [] rootId])
  | ["F"] => (s, [s!"updating={s.doc.updating}"])
  | ["L"] => (s, [s!"locals={s.doc.locals.length} seq={s.doc.seq}"])
  | _ => (s, ["bad-op"])

def engine : Engine := { State := St, init := {}, step := step }

end Yorkie.Driver.DocUpdEngine
