/-
engine `text`: op-fed replay of Text `Edit`/`Style` operations on model replicas (C01, C07).

Every replica has two model texts, mirroring `document.Document`: `root` (`d.doc.root`) and `clone`
(`d.cloneRoot`). A local json-layer call applies to the clone with NO version vector and then
`Change.Execute(root, OpSourceLocal)` applies the same operation to the root WITH the change's
version vector; a remote change applies to both with its version vector. The harness prints one
`OP <replica> <side> …` line per application, so the model replays exactly what each side saw.

REBUILT texts. Besides being built by operations, a Text is rebuilt from another one on three paths
of the Go code; the model's side of each of them is a COPY OF THE STATE, i.e. the identity on
`Side` (`tc`, `st`): that identity is the specification the Go function has to meet, and it is what
the dumps `D`/`DC` (ids, lengths, `removedAt`, `insPrev`, attribute registers with their tickets and
removed flags) and every later operation replayed on the copy compare against:
  * `RC r`        after a failed `Update` (callback returned an error / panicked) the Document drops
                  `cloneRoot`; the next access re-creates it with `Root.DeepCopy` → `Text.DeepCopy`
                  (+ `RGATreeSplitNode.DeepCopy`, `TextValue.DeepCopy`, `RHT.DeepCopy`):
                  `clone := root`;
  * `SNAP src dst` a new replica is created from `SnapshotToBytes(src root)` → `ApplyChangePack`
                  (`toTextNodes`/`fromJSONText`/`fromTextNode`) and its clone by `Text.DeepCopy` of
                  the decoded text: `dst.root := src.root`, `dst.clone := src.root`.
No theorem is needed for "copy = identity": `marshal`, `visible`, `posOfIndex`, `edit`, `styleOp` are
functions of `(tc, st)` only, so equal states are indistinguishable by definition; all C07Text
theorems (`wf_reachable`, `text_edit_spec`, …) are stated over any state satisfying `WF`, and a copy
of a reachable state is that reachable state.

Lines (written by harness/eng_text.go):
  R <rep> <actor>                          new replica                                  → ok
  U <rep> <call>… | S <rep> | Z <rep> | Q  API-level lines (update / sync / undo-style / quiescence
                                           check) executed by the harness only          → (nothing)
  F <rep> <err|panic|misuse> <call>…       API-level: failing update                    → (nothing)
  SN <src> <dst> <actor>                   API-level: sync src, feed new replica dst from a snapshot
                                           of src                                       → (nothing)
  RC <rep>                                 the clone of rep was dropped and re-created   → ok
  SNAP <src> <dst>                         dst was created from a snapshot of src's root → ok
  OP <rep> <side> new t=<ticket>           `Set "t" := NewText` executed on that side   → ok
  OP <rep> <side> edit p=<ticket> from=<l:d:a:off:rel> to=… content=<pct> attrs=<k:v,…> t=<ticket>
       vv=<{a:l,…}|-> spans=<n>                                                         → ok|err|unsupported
  OP <rep> <side> style p=… from=… to=… attrs=<k:v,…> rem=<k,…> t=… vv=…              → ok|err
  M <rep> / MC <rep>                       `Marshal()` of root / clone: {"t":[…]}
  D <rep> / DC <rep>                       node dump of root / clone
  L <rep>                                  live UTF-16 length and `String()` of the clone's text
  P <rep> <from> <to>                      `CreateRange(from,to)` on the clone → the two positions
  GC <rep> <vv>                            (C03, harness arg gc=1) `Document.GarbageCollect(vv)` ran on
                                           rep (inside ApplyChangePack with the server's min vector, or
                                           directly with a too-large vector in the malformed share):
                                           clone and root purge (`Text.purge` + `Text.purgeAttrs` with
                                           the side's registration table)                → ok
  G <rep> / GX <rep> <vv>                  API-level (harness only)                      → (nothing)
Each side keeps the attribute part of `gcNodePairMap` (`Text.AttrReg`): `Style.Execute` toggles it
(`regStyle`), a rebuilt side (RC / SNAP) re-registers from its graph (`regRebuild`).
-/
import YorkieModel.Driver.Proto
import YorkieModel.Model.Text
import YorkieModel.Model.TextGc
namespace Yorkie.Driver.TextEngine
open Yorkie Yorkie.Driver Yorkie.Text

structure Side where
  tc : Option Ticket := none      -- createdAt of the Text element; none = not created yet
  st : TextSt := Text.init
  reg : AttrReg := []             -- registered attribute tombstones (`gcNodePairMap`, attribute part)
deriving Inhabited

/-- a side rebuilt by `NewRoot` (DeepCopy / snapshot decode) registers from its graph -/
def rebuilt (x : Side) : Side := { x with reg := regRebuild x.st }

def gcSide (vv : VV) (x : Side) : Side :=
  let st1 := purge vv x.st
  let r := purgeAttrs vv x.reg st1
  { x with st := r.1, reg := r.2 }

structure Rep where
  root : Side := {}
  clone : Side := {}
deriving Inhabited

structure St where
  reps : List (String × Rep) := []

def getRep (s : St) (r : String) : Rep := regGet s.reps r
def setRep (s : St) (r : String) (x : Rep) : St := { reps := regSet s.reps r x }

def getSide (x : Rep) (side : String) : Side := if side == "clone" then x.clone else x.root
def setSide (x : Rep) (side : String) (y : Side) : Rep :=
  if side == "clone" then { x with clone := y } else { x with root := y }

/-- `l:d:a:off:rel` -/
def parsePos (s : String) : Option Pos :=
  match s.splitOn ":" with
  | [l, d, a, off, rel] =>
    some ⟨(⟨parseIntD l, parseNatD d, parseNatD a⟩, parseNatD off), parseNatD rel⟩
  | _ => none

def showId (i : Id) : String := s!"{showTicket i.1}:{i.2}"
def showPos (p : Pos) : String := s!"{showId p.id}:{p.rel}"

/-- `k:v,k:v` with pct-encoded keys and values -/
def parseKVs (s : String) : List (String × String) :=
  if s.isEmpty then [] else
  (s.splitOn ",").filterMap (fun kv =>
    match kv.splitOn ":" with
    | [k, v] => some (pctDecode k, pctDecode v)
    | _ => none)

def parseKeys (s : String) : List String :=
  if s.isEmpty then [] else (s.splitOn ",").map pctDecode

def parseOptVV (s : String) : Option VV := if s == "-" then none else some (parseVV s)

def showOptTicket : Option Ticket → String
  | none => "-"
  | some t => showTicket t

def showOptId : Option Id → String
  | none => "-"
  | some i => showId i

/-- percent-encoding of the bytes Go's `url.QueryEscape` escapes (space as %20) -/
def pctEncode (s : String) : String :=
  let hex (n : Nat) : Char := "0123456789ABCDEF".toList.getD n '0'
  s.toUTF8.foldl (fun acc b =>
    let c := Char.ofNat b.toNat
    if c.isAlphanum || c == '-' || c == '_' || c == '.' || c == '~' then acc.push c
    else (acc.push '%').push (hex (b.toNat / 16)) |>.push (hex (b.toNat % 16))) ""

def showAttr (a : AttrNode) : String :=
  s!"{pctEncode a.key}={pctEncode a.val}@{showTicket a.updatedAt}{if a.removed then "!" else ""}"

/-- `id,len,removedAt,insPrev,attrs` per node after the head -/
def dumpNode (n : TNode) : String :=
  let attrs := (sortAttrs n.attrs).map showAttr
  s!"{showId n.id},{n.len},{showOptTicket n.removedAt},{showOptId n.insPrev},[{";".intercalate attrs}]"

def dump (s : TextSt) : String := " ".intercalate ((s.drop 1).map dumpNode)

def marshalDoc (x : Side) : String :=
  match x.tc with
  | none => "{}"
  | some tc => "{\"t\":" ++ marshal tc x.st ++ "}"

def applyOp (x : Side) (toks : List String) : Option (Except Err Side) :=
  let t := parseTicket (arg toks "t")
  match toks with
  | "new" :: _ => some (.ok { tc := some t, st := Text.init, reg := [] })
  | "edit" :: _ =>
    if arg toks "spans" != "0" then some (.error .unsupported) else
    if some (parseTicket (arg toks "p")) != x.tc then some (.error .notFound) else
    match parsePos (arg toks "from"), parsePos (arg toks "to") with
    | some fr, some to =>
      let content := unitsOfString (pctDecode (arg toks "content"))
      match edit fr to content (parseKVs (arg toks "attrs")) t (parseOptVV (arg toks "vv")) x.st with
      | .ok st' => some (.ok { x with st := st' })
      | .error e => some (.error e)
    | _, _ => none
  | "style" :: _ =>
    if some (parseTicket (arg toks "p")) != x.tc then some (.error .notFound) else
    match parsePos (arg toks "from"), parsePos (arg toks "to") with
    | some fr, some to =>
      match styleOp fr to (parseKVs (arg toks "attrs")) (parseKeys (arg toks "rem")) t
          (parseOptVV (arg toks "vv")) x.st with
      | .ok st' =>
        let reg' := regStyle fr to (parseKVs (arg toks "attrs")) (parseKeys (arg toks "rem")) t
          (parseOptVV (arg toks "vv")) x.st x.reg
        some (.ok { x with st := st', reg := reg' })
      | .error e => some (.error e)
    | _, _ => none
  | _ => none

def step (s : St) (toks : List String) : St × List String :=
  match toks with
  | "R" :: r :: _ => (setRep s r {}, ["ok"])
  -- API-level lines (they drive the implementation only; their effects arrive as OP lines)
  | "U" :: _ => (s, [])
  | "S" :: _ => (s, [])
  | "Z" :: _ => (s, [])
  | "SS" :: _ => (s, [])
  | "SA" :: _ => (s, [])
  | "Q" :: _ => (s, [])
  | "F" :: _ => (s, [])
  | "SN" :: _ => (s, [])
  | "G" :: _ => (s, [])
  | "GX" :: _ => (s, [])
  | ["GC", r, vv] =>
    let x := getRep s r
    (setRep s r { root := gcSide (parseVV vv) x.root, clone := gcSide (parseVV vv) x.clone }, ["ok"])
  -- rebuilt texts: a copy is the identity on the model state (see the header)
  | ["RC", r] =>
    let x := getRep s r
    (setRep s r { x with clone := rebuilt x.root }, ["ok"])
  | ["SNAP", src, dst] =>
    let x := getRep s src
    (setRep s dst { root := rebuilt x.root, clone := rebuilt x.root }, ["ok"])
  | "OP" :: r :: side :: rest =>
    let x := getRep s r
    match applyOp (getSide x side) rest with
    | none => (s, ["bad-op"])
    | some (.ok y) => (setRep s r (setSide x side y), ["ok"])
    | some (.error .unsupported) => (s, ["unsupported"])
    | some (.error _) => (s, ["err"])
  | ["M", r] => (s, [marshalDoc (getRep s r).root])
  | ["MC", r] => (s, [marshalDoc (getRep s r).clone])
  | ["D", r] => (s, [dump (getRep s r).root.st])
  | ["DC", r] => (s, [dump (getRep s r).clone.st])
  | ["L", r] =>
    let x := (getRep s r).clone
    (s, [s!"len={length x.st} str={pctEncode (Text.toString (x.tc.getD default) x.st)}"])
  | ["P", r, f, t] =>
    let x := (getRep s r).clone
    let sh (o : Option Pos) : String := match o with | some p => showPos p | none => "err"
    let fp := posOfIndex x.st (parseNatD f)
    let tp := if f == t then fp else posOfIndex x.st (parseNatD t)
    (s, [s!"from={sh fp} to={sh tp}"])
  | _ => (s, ["bad-op"])

def engine : Engine := { State := St, init := {}, step := step }

end Yorkie.Driver.TextEngine
