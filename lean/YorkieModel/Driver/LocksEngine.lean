/- engine `locks` (C16): ties the lock facts extracted from the source
   (`Generated/Locks.lean`) to acquisition sequences recorded on the running server.

   `SEQ <handler> <+Class:Mode | -Class> …`  one observed per-request sequence.  Answer:
     `ok` if it is an instance of the extracted script of `<handler>` (or, when the
     recorder could not name the handler, of any extracted function), i.e. a
     subsequence of it – conditional acquisitions, failed try-locks and early returns
     only ever drop operations –, else `not-instance`; then `ordered` or the first
     violation of the lock order (`violations` of Model/Locks.lean on the observed
     sequence itself).
   `REPRO cluster-detach`  predicts, by exhaustive search of the lock-table model over
     the extracted scripts of SDK PushPullChanges, cluster DetachDocument and cluster
     CompactDocument (same client and document), whether a stuck state is reachable.
   `LOAD …`  the load itself has no model counterpart. -/
import YorkieModel.Driver.Proto
import YorkieModel.Model.Locks
import YorkieModel.Generated.Locks
namespace Yorkie.Driver.LocksEngine
open Yorkie Yorkie.Driver Yorkie.Locks Yorkie.Generated.Locks

def parseMode (s : String) : Option Mode :=
  match s with
  | "W" => some .W
  | "R" => some .R
  | "T" => some .T
  | _ => none

def parseOp (tok : String) : Option (Op String) :=
  if tok.startsWith "+" then
    match ((tok.drop 1).toString).splitOn ":" with
    | [c, m] => (parseMode m).map (fun m => Op.acq c m 0)
    | _ => none
  else if tok.startsWith "-" then some (Op.rel (tok.drop 1).toString 0)
  else none

def sameOp : Op String → Op String → Bool
  | .acq c m _, .acq c' m' _ => c == c' && m == m'
  | .rel c _, .rel c' _ => c == c'
  | _, _ => false

/-- `obs` is a subsequence of `script` -/
def isSubseq : List (Op String) → List (Op String) → Bool
  | [], _ => true
  | _ :: _, [] => false
  | o :: os, s :: ss => if sameOp o s then isSubseq os ss else isSubseq (o :: os) ss

def flatLocal (i : Nat) : List (Op String) := flatten fns false flattenFuel i

def isInstance (handler : String) (obs : List (Op String)) : Bool :=
  match fns.findIdx? (fun f => f.name == handler) with
  | some i => isSubseq obs (flatLocal i)
  | none => (List.range fns.length).any (fun i => isSubseq obs (flatLocal i))

def showViol (v : Viol String) : String :=
  match v.kind with
  | .order => s!"inverted:{v.held.getD "?"}>{v.lock}"
  | .unranked => s!"unranked:{v.lock}"
  | .unheld => s!"unheld:{v.lock}"
  | .leak => s!"leak:{v.lock}"

def verdict (obs : List (Op String)) : String :=
  match violations classRank none [] obs with
  | [] => "ordered"
  | v :: _ => showViol v

def reproScripts : List (List (Op String)) :=
  ["server/rpc.yorkieServer.PushPullChanges", "server/rpc.clusterServer.DetachDocument",
   "server/rpc.clusterServer.CompactDocument"].map (fun n =>
    match fns.findIdx? (fun f => f.name == n) with
    | some i => flatLocal i
    | none => [])

def step (s : Unit) (toks : List String) : Unit × List String :=
  match toks with
  | "LOAD" :: _ => (s, ["LOAD-DONE"])
  | "SEQ" :: handler :: ops =>
    match ops.mapM parseOp with
    | none => (s, ["bad-seq"])
    | some [] => (s, ["bad-seq"])
    | some obs =>
      (s, [(if isInstance handler obs then "ok " else "not-instance ") ++ verdict obs])
  | ["REPRO", "cluster-detach"] =>
    (s, [match findStuck 200 [initState reproScripts] [] with
         | some _ => "deadlock=true"
         | none => "deadlock=false"])
  | _ => (s, ["bad-op"])

def engine : Engine := { State := Unit, init := (), step := step }

end Yorkie.Driver.LocksEngine
