/- engine `locks` (C16): ties the lock facts extracted from the source
   (`Generated/Locks.lean`) to acquisition sequences recorded on the running server.

   `SEQ <handler> <+Class:Mode | -Class> …`  one observed per-request sequence.  Answer:
     `ok` if it is an instance of the extracted script of `<handler>` (or, when the
     recorder could not name the handler, of any extracted function), i.e. a
     subsequence of it – conditional acquisitions, failed try-locks and early returns
     only ever drop operations –, else `not-instance`; then `ordered` or the first
     violation of the lock order (`violations` of Model/Locks.lean on the observed
     sequence itself).
   `REPRO cluster-detach`  predicts, by exhaustive search of the lock-table model over
     the extracted scripts of SDK PushPullChanges, cluster DetachDocument and cluster
     CompactDocument (same client and document), whether a stuck state is reachable.
   `REPRO last-detachers a=<detach|deactivate> b=<detach|deactivate>`  the last two holders of a
     document of a RemoveOnDetach project without attachment limit leave it concurrently, the
     first request held between its decision "is anyone else attached?" and its PushPull.
     Predicted from the extracted facts: when both handlers take `doc.attachment` under a
     condition that mentions `project.RemoveOnDetach`, the second request waits at that lock
     and the document ends up removed; otherwise both requests get past their decision, each
     sees the other attached, and the document survives.
   `LOAD …`  the load itself has no model counterpart. -/
import YorkieModel.Driver.Proto
import YorkieModel.Model.Locks
import YorkieModel.Generated.Locks
namespace Yorkie.Driver.LocksEngine
open Yorkie Yorkie.Driver Yorkie.Locks Yorkie.Generated.Locks

def parseMode (s : String) : Option Mode :=
  match s with
  | "W" => some .W
  | "R" => some .R
  | "T" => some .T
  | _ => none

def parseOp (tok : String) : Option (Op String) :=
  if tok.startsWith "+" then
    match ((tok.drop 1).toString).splitOn ":" with
    | [c, m] => (parseMode m).map (fun m => Op.acq c m 0)
    | _ => none
  else if tok.startsWith "-" then some (Op.rel (tok.drop 1).toString 0)
  else none

def sameOp : Op String → Op String → Bool
  | .acq c m _, .acq c' m' _ => c == c' && m == m'
  | .rel c _, .rel c' _ => c == c'
  | _, _ => false

/-- `obs` is a subsequence of `script` -/
def isSubseq : List (Op String) → List (Op String) → Bool
  | [], _ => true
  | _ :: _, [] => false
  | o :: os, s :: ss => if sameOp o s then isSubseq os ss else isSubseq (o :: os) ss

def flatLocal (i : Nat) : List (Op String) := flatten fns false flattenFuel i

def isInstance (handler : String) (obs : List (Op String)) : Bool :=
  match fns.findIdx? (fun f => f.name == handler) with
  | some i => isSubseq obs (flatLocal i)
  | none => (List.range fns.length).any (fun i => isSubseq obs (flatLocal i))

def showViol (v : Viol String) : String :=
  match v.kind with
  | .order => s!"inverted:{v.held.getD "?"}>{v.lock}"
  | .unranked => s!"unranked:{v.lock}"
  | .unheld => s!"unheld:{v.lock}"
  | .leak => s!"leak:{v.lock}"

def verdict (obs : List (Op String)) : String :=
  match violations classRank none [] obs with
  | [] => "ordered"
  | v :: _ => showViol v

def reproScripts : List (List (Op String)) :=
  ["server/rpc.yorkieServer.PushPullChanges", "server/rpc.clusterServer.DetachDocument",
   "server/rpc.clusterServer.CompactDocument"].map (fun n =>
    match fns.findIdx? (fun f => f.name == n) with
    | some i => flatLocal i
    | none => [])

/-- handler behind the way a client leaves a document -/
def leaveHandler : String → Option String
  | "a=detach" | "b=detach" => some "server/rpc.yorkieServer.DetachDocument"
  | "a=deactivate" | "b=deactivate" => some "server/rpc.clusterServer.DetachDocument"
  | _ => none

/-- the handler takes `doc.attachment` in a RemoveOnDetach project without attachment limit:
    the site is unconditional or its condition mentions `project.RemoveOnDetach` -/
def locksOnRemoveOnDetach (handler : String) : Bool :=
  sites.any (fun s => s.fn == handler && s.cls == "DocAttachmentKey" &&
    (s.cond == "" || (s.cond.splitOn "project.RemoveOnDetach").length > 1))

def lastDetachers (a b : String) : String :=
  match leaveHandler a, leaveHandler b with
  | some ha, some hb =>
    if locksOnRemoveOnDetach ha && locksOnRemoveOnDetach hb then "second=attachment-lock attached=false removed=true"
    else "second=push attached=false removed=false"
  | _, _ => "bad-op"

def step (s : Unit) (toks : List String) : Unit × List String :=
  match toks with
  | "LOAD" :: _ => (s, ["LOAD-DONE"])
  | "SEQ" :: handler :: ops =>
    match ops.mapM parseOp with
    | none => (s, ["bad-seq"])
    | some [] => (s, ["bad-seq"])
    | some obs =>
      (s, [(if isInstance handler obs then "ok " else "not-instance ") ++ verdict obs])
  | ["REPRO", "last-detachers", a, b] => (s, [lastDetachers a b])
  | ["REPRO", "cluster-detach"] =>
    (s, [match findStuck 200 [initState reproScripts] [] with
         | some _ => "deadlock=true"
         | none => "deadlock=false"])
  | _ => (s, ["bad-op"])

def engine : Engine := { State := Unit, init := (), step := step }

end Yorkie.Driver.LocksEngine
