/- engine `fdoc`: op-fed replay of document operations, garbage collection, snapshots and
   deep copies on faithful model replicas (C03, C02).  A replica mirrors `document.Document`:
   `root` plus the lazily created `clone` (`ensureClone` = `Root.DeepCopy`); server-side
   `InternalDocument`s are replicas whose clone is never created. -/
import YorkieModel.Driver.Proto
import YorkieModel.Driver.CrdtEngine
import YorkieModel.Model.FDoc
import YorkieModel.Lemmas.FDocSnap
namespace Yorkie.Driver.FDocEngine
open Yorkie Yorkie.Driver Yorkie.FDoc
open Yorkie.Crdt (Op Err rootId)

structure Rep where
  root : Root := Root.init
  clone : Option Root := none
  /-- operations of the change being applied (already executed on the clone) -/
  pending : List Op := []
  /-- first error of the change being applied -/
  err : Option Err := none
  failed : Bool := false

instance : Inhabited Rep := ⟨{}⟩

structure St where
  reps : List (String × Rep) := []

def getRep (s : St) (r : String) : Rep := regGet s.reps r
def setRep (s : St) (r : String) (x : Rep) : St := { reps := regSet s.reps r x }

def showErr : Err → String
  | .notApplicable => "err:notApplicable"
  | .childNotFound => "err:childNotFound"
  | .unsupported => "err:unsupported"

def showOT : Option Ticket → String
  | some t => showTicket t
  | none => "nil"

def strLt (a b : String) : Bool := a < b

def kindOf (r : Root) (t : Ticket) : String :=
  match r.get t with
  | some e => match e.body with
    | .prim _ => "p" | .obj _ _ => "o" | .arr _ _ => "a" | .counter _ _ => "c" | .opaque _ => "x"
  | none => "?"

def hdr (r : Root) (t : Ticket) : String :=
  match r.get t with
  | some e => s!"{kindOf r t}/m={showOT e.movedAt}/r={showOT e.removedAt}"
  | none => "missing"

/-- structural dump of one container (see harness/eng_fdoc.go `dumpRoot`) -/
def dumpElem (r : Root) (t : Ticket) (e : Elem) : Option String :=
  match e.body with
  | .obj nodes byKey =>
    let ns := sortBy strLt (nodes.map (fun p => s!"{showTicket p.1}/k={p.2}/{hdr r p.1}"))
    let ms := (liveMembers r byKey).map (fun p => s!"{p.1}={showTicket p.2}")
    some s!"o{showTicket t}\{{",".intercalate ns}}mem[{",".intercalate ms}]"
  | .arr nodes moved =>
    let ns := nodes.map (fun n => match n.elem with
      | some c => s!"{showTicket n.pos}/e={showTicket c}/pm={showOT (alGet moved c)}/{hdr r c}"
      | none => s!"{showTicket n.pos}/dead/r={showOT n.removedAt}")
    some s!"a{showTicket t}[{",".intercalate ns}]"
  | _ => none

def dump (r : Root) : String :=
  ";".intercalate (sortBy strLt (r.elems.filterMap (fun p => dumpElem r p.1 p.2)))

def showGcNodes (r : Root) : String :=
  ",".intercalate (sortBy strLt (r.gcNodes.map (fun g => showTicket g.pos)))

def parsePerm (s : String) : List Ticket :=
  if s.isEmpty then [] else (s.splitOn ",").map parseTicket

/-- one operation of the change being applied: executed on the clone now, on the root at `E` -/
def stepOp (s : St) (r : String) (op : Op) : St × List String :=
  let x := getRep s r
  if x.err.isSome then (s, []) else
  match x.clone with
  | none => (setRep s r { x with pending := x.pending ++ [op] }, [])
  | some c =>
    match fexecute c op with
    | .ok c' => (setRep s r { x with clone := some c', pending := x.pending ++ [op] }, [])
    | .error e => (setRep s r { x with err := some e }, [])

/-- the defect exclusion of `SnapSafe`: some live node of an object is not the occupant of its key -/
def hasLiveLoser (r : Root) : Bool :=
  r.elems.any (fun p => match p.2.body with
    | .obj nodes byKey => nodes.any (fun n => liveChild r n.1 && !(alGet byKey n.2 == some n.1))
    | _ => false)

/-- every root a snapshot / deep copy is taken of must satisfy the SANITY part of `SnapSafe` (the part the
    theorems of Props/C02 assume of every reachable state); a violation is printed and shows up as a broken
    correspondence -/
def sanityLines (r : Root) : List String :=
  if decide (SnapSafe true r) || hasLiveLoser r then [] else ["SNAPSAFE-SANITY-VIOLATION"]

def step (s : St) (toks : List String) : St × List String :=
  match toks with
  | ["R", r] => (setRep s r {}, ["ok"])
  | ["EC", r] =>
    let x := getRep s r
    match x.clone with
    | some _ => (s, [])
    | none => (setRep s r { x with clone := some (deepCopy x.root) }, [])
  | "OP" :: r :: "set" :: rest =>
    -- `set` may carry a value identity different from the execution ticket (restore-like Set)
    let x := getRep s r
    match CrdtEngine.parseVal (arg rest "v") with
    | none => (setRep s r { x with err := x.err.orElse (fun _ => some .unsupported) }, [])
    | some v =>
      let f := fun (rt : Root) => applySetAt rt (parseTicket (arg rest "p")) (pctDecode (arg rest "k")) v
        (parseTicket (arg rest "vt")) (parseTicket (arg rest "t"))
      if arg rest "vt" == arg rest "t" then stepOp s r (.set (parseTicket (arg rest "p")) (pctDecode (arg rest "k")) v (parseTicket (arg rest "t")))
      else if x.err.isSome then (s, []) else
      -- restore-like sets are only fed to server-side documents (no clone, applied at once)
      let flushed := x.pending.foldl (fun acc op => match acc with
        | .ok rt => fexecute rt op
        | .error e => .error e) (Except.ok x.root : Except Err Root)
      match flushed with
      | .error e => (setRep s r { x with err := some e, pending := [] }, [])
      | .ok rt0 =>
        match f rt0 with
        | .ok rt => (setRep s r { x with root := rt, pending := [] }, [])
        | .error e => (setRep s r { x with err := some e, pending := [] }, [])
  | "OP" :: r :: rest =>
    let x := getRep s r
    match CrdtEngine.parseOp rest with
    | none => (setRep s r { x with err := x.err.orElse (fun _ => some .unsupported) }, [])
    | some op => stepOp s r op
  | ["E", r] =>
    let x := getRep s r
    match x.err with
    | some e => (setRep s r { x with failed := true, pending := [], err := none }, [showErr e])
    | none =>
      let res := x.pending.foldl (fun acc op => match acc with
        | .ok rt => fexecute rt op
        | .error e => .error e) (Except.ok x.root : Except Err Root)
      match res with
      | .ok rt => (setRep s r { x with root := rt, pending := [] }, ["ok"])
      | .error e => (setRep s r { x with failed := true, pending := [] }, [showErr e])
  | ["GC", r, vv] =>
    let x := getRep s r
    let v := parseVV vv
    let clone' := match x.clone with
      | some c => match garbageCollect v c with
        | .ok (c', _) => some c'
        | .error _ => some c
      | none => none
    match garbageCollect v x.root with
    | .ok (rt, _) => (setRep s r { x with root := rt, clone := clone' }, [s!"gc left={garbageLen rt}"])
    | .error e => (setRep s r { x with failed := true }, [s!"gc {showErr e}"])
  | "MV" :: vs =>
    -- `time.MinVersionVector(request vector, stored rows…)` as server/packs + memory DB compute it
    (s, [showVV (minVV (vs.map parseVV))])
  | ["M", r] => (s, [marshal (getRep s r).root])
  | ["MC", r] =>
    match (getRep s r).clone with
    | some c => (s, [marshal c])
    | none => (s, ["none"])
  | ["G", r] =>
    let rt := (getRep s r).root
    (s, [s!"g={garbageLen rt} n={rt.elems.length}"])
  | ["D", r] => (s, [dump (getRep s r).root])
  | ["DC", r] =>
    match (getRep s r).clone with
    | some c => (s, [dump c])
    | none => (s, ["none"])
  | "SNAP" :: src :: dst :: rest =>
    let x := getRep s src
    let from_ := if arg rest "from" == "clone" then x.clone.getD x.root else x.root
    let rt := norm (parsePerm (arg rest "perm")) from_
    (setRep s dst { root := rt }, ["ok"] ++ sanityLines from_)
  | ["COPY", src, dst] =>
    (setRep s dst { root := deepCopy (getRep s src).root }, ["ok"] ++ sanityLines (getRep s src).root)
  | ["CP", src, dst] =>
    (setRep s dst { root := (getRep s src).root }, ["ok"])
  | ["TW", a, b] =>
    (s, [if marshal (getRep s a).root == marshal (getRep s b).root then "eq" else "ne"])
  | c :: _ =>
    -- driver commands of the harness (program level) are not interpreted by the model
    if ["W", "U", "A", "S", "SV", "ST", "SN", "Q", "PX"].contains c then (s, []) else (s, ["bad-op"])
  | [] => (s, [])

def engine : Engine := { State := St, init := {}, step := step }

end Yorkie.Driver.FDocEngine
