/-
engine `textundo`: undo/redo of Text edits and styles on a single writing replica (C14, text part),
plus an optional second replica that only RECEIVES the writer's changes (op-fed).

The writer is a model history machine `TextUndo.THist` (root text, undo/redo stacks, clock) plus the
clone text. NOTHING about the reverse operations is fed to it: a `U` line carries the json-layer
calls (indices, content, attributes), `UNDO`/`REDO` carry nothing; the model resolves indices on the
clone (`posOfIndex`), issues the tickets itself, builds the reverse operations itself
(`execEdit`/`execStyle`), keeps its own stacks and executes its own stack entries on clone and root.

Lines (written by harness/eng_textundo.go):
  R <rep> <actor>             new replica                                                  → ok
  N <rep>                     `Update(SetNewText("t"))` + `ClearHistory()` on the writer   → ok
  U <rep> <call>…             `Update` with json-layer calls `edit:<from>:<to>:<pct content>:<k=v;…>`
                              / `style:<from>:<to>::<k=v;…>` (calls outside the text are skipped
                              by both sides)                                               → ok|err
  UNDO <rep> / REDO <rep>     `Document.Undo()` / `Redo()`                                 → ok|err
  S <src> <dst>               API-level: deliver src's new changes to dst (wire round trip) → (nothing)
  OP <rep> <side> new t=…     (receiver) `Set "t" := NewText`                              → ok
  OP <rep> <side> edit p=… from=… to=… content=… attrs=… t=… vv=…                          → ok|err
  OP <rep> <side> redit p=… from=… to=… mode=<restore|retomb> R=<spans> K=<spans> t=… vv=… → ok|err|unsupported
  OP <rep> <side> style p=… from=… to=… attrs=… rem=… t=… vv=…                             → ok|err
  M / MC <rep>                `Marshal()` of root / clone
  D / DC <rep>                node dump of root / clone (ids, lengths, removedAt, insPrev, attribute registers)
  L <rep>                     live length and `String()` of the clone's text
  H <rep>                     stack depths and the top entries of both stacks (canonical print of the
                              reverse operations: spans sorted)
-/
import YorkieModel.Driver.Proto
import YorkieModel.Driver.TextEngine
import YorkieModel.Model.TextUndo
namespace Yorkie.Driver.TextUndoEngine
open Yorkie Yorkie.Driver Yorkie.Text Yorkie.TextUndo
open Yorkie.Driver.TextEngine (parsePos showPos showId parseKVs parseKeys parseOptVV pctEncode dump)

structure Rep where
  hist : THist := {}
  clone : TextSt := Text.init
  tc : Option Ticket := none
deriving Inhabited

structure St where
  reps : List (String × Rep) := []

def getRep (s : St) (r : String) : Rep := regGet s.reps r
def setRep (s : St) (r : String) (x : Rep) : St := { reps := regSet s.reps r x }

/-- `k=v;k=v` (call syntax) -/
def parseCallAttrs (s : String) : List (String × String) :=
  if s.isEmpty then [] else
  (s.splitOn ";").filterMap (fun kv =>
    match kv.splitOn "=" with
    | [k, v] => some (pctDecode k, pctDecode v)
    | _ => none)

inductive Call
  | edit (f t : Nat) (content : List Nat) (attrs : List (String × String))
  | style (f t : Nat) (attrs : List (String × String))

def parseCall (s : String) : Option Call :=
  match s.splitOn ":" with
  | ["edit", f, t, c, a] => some (.edit (parseNatD f) (parseNatD t) (unitsOfString (pctDecode c)) (parseCallAttrs a))
  | ["style", f, t, _, a] => some (.style (parseNatD f) (parseNatD t) (parseCallAttrs a))
  | _ => none

def callRange : Call → Nat × Nat
  | .edit f t _ _ => (f, t)
  | .style f t _ => (f, t)

/-- the json layer: resolve the indices on the clone, apply there without a vector, emit the operation -/
def runCalls (lamport : Int) (actor : Actor) : List Call → Nat → TextSt → List TOp → Option (TextSt × List TOp)
  | [], _, clone, ops => some (clone, ops.reverse)
  | cl :: rest, i, clone, ops =>
    let (f, t) := callRange cl
    if f > t || t > length clone then runCalls lamport actor rest i clone ops else
    let fp := posOfIndex clone f
    let tp := if f == t then fp else posOfIndex clone t
    match fp, tp with
    | some fp, some tp =>
      let ts : Ticket := ⟨lamport, i, actor⟩
      match cl with
      | .edit _ _ content attrs =>
        match edit fp tp content attrs ts none clone with
        | .ok c' => runCalls lamport actor rest (i + 1) c' (.edit fp tp content attrs :: ops)
        | .error _ => none
      | .style _ _ attrs =>
        match style fp tp attrs ts none clone with
        | .ok c' => runCalls lamport actor rest (i + 1) c' (.style fp tp attrs :: ops)
        | .error _ => none
    | _, _ => none

/-! ### printing -/

def showAttrs (as : List (String × String)) : String :=
  "&".intercalate (as.map (fun p => pctEncode p.1 ++ "=" ++ pctEncode p.2))

def showSpan (sp : Span) : String :=
  s!"{showTicket sp.ca}/{sp.start}/{sp.stop}/{pctEncode (stringOfUnits sp.content)}/{showAttrs sp.attrs}"

def showSpans (l : List Span) : String :=
  "|".intercalate (sortBy (fun a b => a < b) (l.map showSpan))

def showMode : RMode → String
  | .restore => "restore"
  | .retombstone => "retomb"

def showRev : TRev → String
  | .spans fr r m k => s!"E({showPos fr};{showMode m};{showSpans r};{showSpans k})"
  | .noop fr to => s!"N({showPos fr};{showPos to})"
  | .style fr to attrs keys => s!"Y({showPos fr};{showPos to};{showAttrs attrs};{",".intercalate (keys.map pctEncode)})"

def showEntry : Option (List TRev) → String
  | none => "-"
  | some e => "+".intercalate (e.map showRev)

def marshalOf (tc : Option Ticket) (st : TextSt) : String :=
  match tc with
  | none => "{}"
  | some tc => "{\"t\":" ++ marshal tc st ++ "}"

/-! ### op-fed side of the receiver -/

def parseSpan (s : String) : Option Span :=
  match s.splitOn "/" with
  | [t, a, b, c, _] => some { ca := parseTicket t, start := parseNatD a, stop := parseNatD b,
                              content := unitsOfString (pctDecode c) }
  | _ => none

def parseSpans (s : String) : List Span :=
  if s.isEmpty then [] else (s.splitOn "|").filterMap parseSpan

def applyOp (tc : Option Ticket) (st : TextSt) (toks : List String) : Option (Except Err (Option Ticket × TextSt)) :=
  let t := parseTicket (arg toks "t")
  match toks with
  | "new" :: _ => some (.ok (some t, Text.init))
  | "edit" :: _ =>
    if some (parseTicket (arg toks "p")) != tc then some (.error .notFound) else
    match parsePos (arg toks "from"), parsePos (arg toks "to") with
    | some fr, some to =>
      let content := unitsOfString (pctDecode (arg toks "content"))
      match edit fr to content (parseKVs (arg toks "attrs")) t (parseOptVV (arg toks "vv")) st with
      | .ok st' => some (.ok (tc, st'))
      | .error e => some (.error e)
    | _, _ => none
  | "redit" :: _ =>
    if some (parseTicket (arg toks "p")) != tc then some (.error .notFound) else
    match parsePos (arg toks "from") with
    | some fr =>
      let mode := if arg toks "mode" == "restore" then RMode.restore else RMode.retombstone
      match execSpans fr (parseSpans (arg toks "R")) mode (parseSpans (arg toks "K")) t
          (parseOptVV (arg toks "vv")) st with
      | .ok res => some (.ok (tc, res.st))
      | .error e => some (.error e)
    | none => none
  | "style" :: _ =>
    if some (parseTicket (arg toks "p")) != tc then some (.error .notFound) else
    match parsePos (arg toks "from"), parsePos (arg toks "to") with
    | some fr, some to =>
      match styleOp fr to (parseKVs (arg toks "attrs")) (parseKeys (arg toks "rem")) t
          (parseOptVV (arg toks "vv")) st with
      | .ok st' => some (.ok (tc, st'))
      | .error e => some (.error e)
    | _, _ => none
  | _ => none

def step (s : St) (toks : List String) : St × List String :=
  match toks with
  | ["R", r, a] => (setRep s r { hist := { actor := parseNatD a } }, ["ok"])
  | ["N", r] =>
    let x := getRep s r
    let h := x.hist
    (setRep s r { hist := { h with st := Text.init, undo := [], redo := [], lamport := h.lamport + 1 },
                  clone := Text.init, tc := some ⟨h.lamport + 1, 1, h.actor⟩ }, ["ok"])
  | "U" :: r :: calls =>
    let x := getRep s r
    if x.tc.isNone then (s, ["ok"]) else
    match runCalls (x.hist.lamport + 1) x.hist.actor (calls.filterMap parseCall) 1 x.clone [] with
    | none => (s, ["err"])
    | some (clone', ops) =>
      if ops.isEmpty then (s, ["ok"]) else
      let (h', ok) := doChange x.hist ops
      (setRep s r { x with hist := h', clone := clone' }, [if ok then "ok" else "err"])
  | [cmd, r] =>
    let x := getRep s r
    match cmd with
    | "UNDO" | "REDO" =>
      let isUndo := cmd == "UNDO"
      let h := x.hist
      let (h', out) := undoRedo h isUndo
      match out with
      | .nothing => (setRep s r { x with hist := h' }, ["ok"])
      | .failed ops =>
        let rc := runWith execRev (h.lamport + 1) h.actor h.nextVV 1 ops { st := x.clone }
        (setRep s r { x with hist := h', clone := rc.st }, ["err"])
      | .noop ops | .change ops =>
        let rc := runWith execRev (h.lamport + 1) h.actor h.nextVV 1 ops { st := x.clone }
        (setRep s r { x with hist := h', clone := rc.st }, [if rc.failed then "err" else "ok"])
    | "M" => (s, [marshalOf x.tc x.hist.st])
    | "MC" => (s, [marshalOf x.tc x.clone])
    | "D" => (s, [dump x.hist.st])
    | "DC" => (s, [dump x.clone])
    | "L" => (s, [s!"len={length x.clone} str={pctEncode (Text.toString (x.tc.getD default) x.clone)}"])
    | "H" =>
      (s, [s!"u={x.hist.undo.length} r={x.hist.redo.length} utop={showEntry x.hist.undo.head?} rtop={showEntry x.hist.redo.head?}"])
    | _ => (s, ["bad-op"])
  | "S" :: _ => (s, [])
  | "OP" :: r :: side :: rest =>
    let x := getRep s r
    let cur := if side == "clone" then x.clone else x.hist.st
    match applyOp x.tc cur rest with
    | none => (s, ["bad-op"])
    | some (.ok (tc', st')) =>
      let x' : Rep := if side == "clone" then { x with clone := st', tc := tc' }
                      else { x with hist := { x.hist with st := st' }, tc := tc' }
      (setRep s r x', ["ok"])
    | some (.error .unsupported) => (s, ["unsupported"])
    | some (.error _) => (s, ["err"])
  | _ => (s, ["bad-op"])

def engine : Engine := { State := St, init := {}, step := step }

end Yorkie.Driver.TextUndoEngine
