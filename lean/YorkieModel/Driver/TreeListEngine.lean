/- engine `treelist`: correspondence of pkg/treelist with Model/TreeList.lean (C07, tree half).
Every command prints `<result> | <ToTestString> | <shape> | len=<Len>`. -/
import YorkieModel.Driver.Proto
import YorkieModel.Model.TreeList
namespace Yorkie.Driver.TreeListEngine
open Yorkie Yorkie.Driver Yorkie.TreeList Yorkie.RB

/-- `Tree.ToTestString()` with `String()` of the test value = its id -/
def showList : T → String
  | .nil => ""
  | .node l a _ r => showList l ++ s!"[{a.w},{sz a.rm}]{a.id}" ++ showList r

def showShape : T → String
  | .nil => "-"
  | .node l a c r =>
    "(" ++ showShape l ++ s!" {a.id}:{a.w}:{a.c}:{if c then "R" else "B"} " ++ showShape r ++ ")"

def obs (res : String) (t : T) : String := s!"{res} | {showList t} | {showShape t} | len={len t}"

def parseB (s : String) : Bool := s == "1"

/-- pointer preconditions of the Go calls; outside them both sides print `precond` -/
def precondOk (t : T) : List String → Bool
  | ["new", _, _] => t.isNil
  | ["ins", prev, id, _] => (ids t).contains (parseNatD prev) && !((ids t).contains (parseNatD id))
  | ["del", x] => (ids t).contains (parseNatD x)
  | _ => true

def step (t : T) (toks : List String) : T × List String :=
  let n := parseNatD
  if !precondOk t toks then (t, ["precond"]) else
  match toks with
  | ["new", id, rm] => let t' := newTree (n id) (parseB rm); (t', [obs "ok" t'])
  | ["ins", prev, id, rm] => let t' := insertAfter (n prev) (n id) (parseB rm) t; (t', [obs "ok" t'])
  | ["del", x] => let t' := delete (n x) t; (t', [obs "ok" t'])
  | ["find", i] =>
    (t, [obs (match find t (n i) with
      | .outOfIndex => "err" | .found id => toString id | .panic => "panic") t])
  | ["mark", x, b] => let t' := mark (n x) (parseB b) t; (t', [obs "ok" t'])
  | ["updw", x] => let t' := updateWeight (n x) t; (t', [obs "ok" t'])
  | _ => (t, ["bad-op"])

def engine : Engine := { State := T, init := .nil, step := step }

end Yorkie.Driver.TreeListEngine
