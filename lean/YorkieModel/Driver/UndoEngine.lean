/- engine `undo`: forward edits op-fed, Undo/Redo computed by the model from its own stacks
   (operations, tickets, ReconcileCreatedAt), peers op-fed (C14, C15) -/
import YorkieModel.Driver.Proto
import YorkieModel.Driver.CrdtEngine
import YorkieModel.Model.Undo
import Std.Data.HashMap
import Std.Data.HashSet
namespace Yorkie.Driver.UndoEngine
open Yorkie Yorkie.Driver Yorkie.Crdt Yorkie.Undo

/-! ### canonical printing (must equal harness/eng_undo.go `encUOp`) -/

def hexDigit (n : Nat) : Char := if n < 10 then Char.ofNat (48 + n) else Char.ofNat (55 + n)

def unreservedByte (b : UInt8) : Bool :=
  let n := b.toNat
  (48 ≤ n && n ≤ 57) || (65 ≤ n && n ≤ 90) || (97 ≤ n && n ≤ 122) || n == 45 || n == 95 || n == 46 || n == 126

/-- Go: `strings.ReplaceAll(url.QueryEscape(s), "+", "%20")` -/
def pct (s : String) : String :=
  s.toUTF8.foldl (fun acc b =>
    if unreservedByte b then acc.push (Char.ofNat b.toNat)
    else ((acc.push '%').push (hexDigit (b.toNat / 16))).push (hexDigit (b.toNat % 16))) ""

def valDoc (v : UVal) : Doc :=
  fun t => if t = v.id then some ⟨none, false, v.body⟩ else lookupSub v.sub t

def showVal (v : UVal) : String :=
  match v.body with
  | .prim r => "prim:" ++ pct r
  | .opaque r => "opq:" ++ pct r
  | .counter long x => (if long then "cnt:l:" else "cnt:i:") ++ toString x
  | .obj keys _ => if keys.isEmpty then "obj" else "opq:" ++ pct (marshal (valDoc v) 64 v.id)
  | .arr nodes _ => if nodes.isEmpty then "arr" else "opq:" ++ pct (marshal (valDoc v) 64 v.id)

def showOptTicket : Option Ticket → String
  | some t => showTicket t
  | none => "-"

def showMember (member : String → Option Member) (k : String) : String :=
  match member k with
  | some m => pct k ++ ">" ++ showTicket m.child ++ ">" ++ showTicket m.positionedAt
  | none => pct k ++ ">->-"

def showNode (n : PosNode) : String := showTicket n.pos ++ ">" ++ showOptTicket n.elem

def showMoved (moved : Ticket → Option Ticket) (n : PosNode) : Option String :=
  match n.elem with
  | some c => (moved c).map (fun m => showTicket c ++ ">" ++ showTicket m)
  | none => none

def showBody : Body → String
  | .prim r => "p/" ++ pct r
  | .opaque r => "q/" ++ pct r
  | .counter long x => "c/" ++ (if long then "l:" else "i:") ++ toString x
  | .obj keys member => "o/" ++ "+".intercalate (keys.map (showMember member))
  | .arr nodes moved => "a/" ++ "+".intercalate (nodes.map showNode) ++ "^" ++ "+".intercalate (nodes.filterMap (showMoved moved))

def showEntry (id : Ticket) (parent : Option Ticket) (removed : Bool) (b : Body) : String :=
  showTicket id ++ "/" ++ showOptTicket parent ++ "/" ++ (if removed then "r" else "l") ++ "/" ++ showBody b

def isNonEmptyContainer : Body → Bool
  | .obj keys _ => !keys.isEmpty
  | .arr nodes _ => !nodes.isEmpty
  | _ => false

def liveIn (d : Doc) (c : Ticket) : Bool :=
  match d c with
  | some e => !e.removed
  | none => false

def isObjIn (d : Doc) (p : Option Ticket) : Bool :=
  match p with
  | some p => match d p with
    | some e => match e.body with | .obj _ _ => true | _ => false
    | none => false
  | none => false

/-- GC-on traces: removed members of objects are not printed (the implementation may or may not
    have purged them already) -/
def pruneBody (d : Doc) : Body → Body
  | .obj keys member => .obj (keys.filter (fun k => match member k with | some m => liveIn d m.child | none => false)) member
  | b => b

def showSnap (om : Bool) (v : UVal) : String :=
  if isNonEmptyContainer (if om then pruneBody (valDoc v) v.body else v.body) then
    let d := valDoc v
    let pb := fun b => if om then pruneBody d b else b
    let sub := if om then v.sub.filter (fun p => !(p.2.removed && isObjIn d p.2.parent)) else v.sub
    " snap=" ++ ",".intercalate (showEntry v.id none v.removed (pb v.body) :: sub.map (fun p => showEntry p.1 p.2.parent p.2.removed (pb p.2.body)))
  else ""

def showUOp (om : Bool) : UOp → String
  | .set p k v t => s!"set p={showTicket p} k={pct k} v={showVal (if om then { v with body := pruneBody (valDoc v) v.body } else v)} t={showTicket t} vt={showTicket v.id}" ++ showSnap om v
  | .add p prev v t => s!"add p={showTicket p} prev={showTicket prev} v={showVal v} t={showTicket t} vt={showTicket v.id}" ++ showSnap om v
  | .move p prev target t => s!"move p={showTicket p} prev={showTicket prev} target={showTicket target} t={showTicket t}"
  | .remove p target t => s!"remove p={showTicket p} target={showTicket target} t={showTicket t}"
  | .arraySet p target v t => s!"aset p={showTicket p} target={showTicket target} v={showVal v} t={showTicket t} vt={showTicket v.id}" ++ showSnap om v
  | .increase p d t => s!"inc p={showTicket p} d={d} t={showTicket t}"

/-! ### parsing -/

def parseOptTicket (s : String) : Option Ticket := if s == "-" then none else some (parseTicket s)

def assocFn {β} (l : List (String × β)) : String → Option β :=
  fun k => (l.find? (·.1 == k)).map (·.2)

def assocT {β} (l : List (Ticket × β)) : Ticket → Option β :=
  fun k => (l.find? (·.1 == k)).map (·.2)

def splitNE (s : String) (sep : String) : List String := if s.isEmpty then [] else s.splitOn sep

def parseMember (s : String) : Option (String × Member) :=
  match s.splitOn ">" with
  | [k, c, p] => if c == "-" then none else some (pctDecode k, ⟨parseTicket c, parseTicket p⟩)
  | _ => none

def parseNode (s : String) : Option PosNode :=
  match s.splitOn ">" with
  | [p, e] => some ⟨parseTicket p, parseOptTicket e⟩
  | _ => none

def parsePair (s : String) : Option (Ticket × Ticket) :=
  match s.splitOn ">" with
  | [a, b] => some (parseTicket a, parseTicket b)
  | _ => none

def parseBody (kind payload : String) : Option Body :=
  if kind == "p" then some (.prim (pctDecode payload))
  else if kind == "q" then some (.opaque (pctDecode payload))
  else if kind == "c" then
    if payload.startsWith "l:" then some (.counter true (parseIntD (payload.drop 2).toString))
    else some (.counter false (parseIntD (payload.drop 2).toString))
  else if kind == "o" then
    let ms := (splitNE payload "+").filterMap parseMember
    some (.obj (ms.map (·.1)) (assocFn ms))
  else if kind == "a" then
    match payload.splitOn "^" with
    | [ns, mv] =>
      some (.arr ((splitNE ns "+").filterMap parseNode) (assocT ((splitNE mv "+").filterMap parsePair)))
    | _ => none
  else none

structure Entry where
  id : Ticket
  parent : Option Ticket
  removed : Bool
  body : Body

def parseEntry (s : String) : Option Entry :=
  match s.splitOn "/" with
  | [id, par, fl, kind, payload] =>
    (parseBody kind payload).map (fun b => ⟨parseTicket id, parseOptTicket par, fl == "r", b⟩)
  | _ => none

def parseSnap (s : String) (id : Ticket) : Option UVal :=
  match (s.splitOn ",").mapM parseEntry with
  | some (top :: rest) =>
    some { id := id, removed := top.removed, body := top.body,
           sub := rest.map (fun e => (e.id, ⟨e.parent, e.removed, e.body⟩)) }
  | _ => none

def parseUVal (toks : List String) : Option UVal :=
  let id := parseTicket (arg toks "vt")
  let snap := arg toks "snap"
  if snap.isEmpty then (CrdtEngine.parseVal (arg toks "v")).map (fun v => UVal.ofVal v id)
  else parseSnap snap id

def parseUOp (toks : List String) : Option UOp :=
  let t := parseTicket (arg toks "t")
  let p := parseTicket (arg toks "p")
  match toks with
  | "set" :: _ => (parseUVal toks).map (fun v => .set p (pctDecode (arg toks "k")) v t)
  | "add" :: _ => (parseUVal toks).map (fun v => .add p (parseTicket (arg toks "prev")) v t)
  | "move" :: _ => some (.move p (parseTicket (arg toks "prev")) (parseTicket (arg toks "target")) t)
  | "remove" :: _ => some (.remove p (parseTicket (arg toks "target")) t)
  | "aset" :: _ => (parseUVal toks).map (fun v => .arraySet p (parseTicket (arg toks "target")) v t)
  | "inc" :: _ => some (.increase p (parseIntD (arg toks "d")) t)
  | _ => none

/-! ### state machine -/

deriving instance Hashable for Ticket

/-- identities an operation can write heap entries for -/
def opIds : UOp → List Ticket
  | .set _ _ v _ => v.id :: v.sub.map (·.1)
  | .add _ _ v _ => v.id :: v.sub.map (·.1)
  | .arraySet _ _ v _ => v.id :: v.sub.map (·.1)
  | _ => []

/-- flat table of a heap over the identities ever written (driver only: the heap is a chain of
    closures that grows with every write; re-tabulating keeps lookups cheap). The tables are built
    strictly inside `commitRep`; the lookup closures below only capture them. -/
def buildDoc (ids : List Ticket) (d : Doc) : Std.HashMap Ticket Elem :=
  ids.foldl (fun m t => match d t with | some e => m.insert t e | none => m) {}

def buildTw (ids : List Ticket) (tw : Ticket → Bool) : Std.HashSet Ticket :=
  ids.foldl (fun m t => if tw t then m.insert t else m) {}

structure Rep where
  h : Hist := {}
  ids : Std.HashSet Ticket := (({} : Std.HashSet Ticket).insert rootId)
  pending : List UOp := []
  rlam : Int := 0
  bad : Bool := false

instance : Inhabited Rep := ⟨{}⟩

structure St where
  reps : List (String × Rep) := []
  /-- after `MUTE` the harness only records driving commands (known-finding region, see eng_undo.go) -/
  muted : Bool := false
  /-- `MODE gc=on`: removed members are not printed in snapshots (the implementation may have purged them) -/
  gc : Bool := false

def getRep (s : St) (r : String) : Rep := regGet s.reps r
def setRep (s : St) (r : String) (x : Rep) : St := { s with reps := regSet s.reps r x }

/-- store a replica after a mutating step: note the new identities and re-tabulate -/
def commitRep (s : St) (r : String) (x : Rep) (ops : List UOp) : St :=
  let ids := ops.foldl (fun acc op => (opIds op).foldl (fun a t => a.insert t) acc) x.ids
  let l := ids.toList
  let m := buildDoc l x.h.doc
  let w := buildTw l x.h.tw
  setRep s r { x with ids := ids, h := { x.h with doc := fun t => m[t]?, tw := fun t => w.contains t } }

def outcomeOps : Outcome → List UOp
  | .change ops => ops
  | .failed ops => ops
  | _ => []

def UOp.ts : UOp → Ticket
  | .set _ _ _ t => t
  | .add _ _ _ t => t
  | .move _ _ _ t => t
  | .remove _ _ t => t
  | .arraySet _ _ _ t => t
  | .increase _ _ t => t

/-- do the fed operations carry exactly the tickets `IssueTimeTicket` would issue? -/
def freshTickets (h : Hist) : Nat → List UOp → Bool
  | _, [] => true
  | i, op :: r => (UOp.ts op == (⟨h.lamport + 1, i, h.actor⟩ : Ticket)) && freshTickets h (i + 1) r

def showStacks (h : Hist) : String :=
  s!"undo={h.undo.length} canredo={showBool (!h.redo.isEmpty)} lam={h.lamport}"

def showOutcome (om : Bool) : Outcome → List String
  | .nothing => ["noop"]
  | .noop => ["noop"]
  | .change ops => ops.map (fun o => "op " ++ showUOp om o) ++ ["changed"]
  | .failed _ => ["failed"]

def step (s : St) (toks : List String) : St × List String :=
  if s.muted then (s, []) else
  match toks with
  | ["MUTE"] => ({ s with muted := true }, [])
  | ["MODE", m] => ({ s with gc := m == "gc=on" }, [])
  | ["R", r, a] => (setRep s r { h := { actor := parseNatD a } }, ["ok"])
  | "LOP" :: r :: rest =>
    let x := getRep s r
    match parseUOp rest with
    | none => (setRep s r { x with bad := true }, ["unsupported"])
    | some op => (setRep s r { x with pending := x.pending ++ [op] }, ["ok"])
  | ["COMMIT", r] =>
    let x := getRep s r
    let fresh := freshTickets x.h 1 x.pending
    let h' := doChange x.h x.pending
    (commitRep s r { x with h := h', pending := [] } x.pending, [s!"fresh={showBool fresh} " ++ showStacks h'])
  | ["RC", r, lam] =>
    let x := getRep s r
    (setRep s r { x with pending := [], rlam := parseIntD lam }, ["ok"])
  | "ROP" :: r :: rest =>
    let x := getRep s r
    match parseUOp rest with
    | none => (setRep s r { x with bad := true }, ["unsupported"])
    | some op => (setRep s r { x with pending := x.pending ++ [op] }, ["ok"])
  | ["RCOMMIT", r] =>
    let x := getRep s r
    let run := runOps .remote { doc := x.h.doc, tw := x.h.tw } x.pending
    let h' := applyRemote x.h x.rlam x.pending
    (commitRep s r { x with h := h', pending := [] } x.pending, [if run.failed then "err" else "ok"])
  | ["UNDO", r] =>
    let x := getRep s r
    let (h', o) := undoRedo x.h true
    (commitRep s r { x with h := h' } (outcomeOps o), showOutcome s.gc o)
  | ["REDO", r] =>
    let x := getRep s r
    let (h', o) := undoRedo x.h false
    (commitRep s r { x with h := h' } (outcomeOps o), showOutcome s.gc o)
  | ["S", r] => (s, [showStacks (getRep s r).h])
  | ["M", r] => (s, [visible (getRep s r).h])
  -- driving commands of the harness: nothing to do on the model side
  | "E" :: _ => (s, [])
  | "SYNC" :: _ => (s, [])
  | "MODE" :: _ => (s, [])
  | "FIN" :: _ => (s, [])
  | _ => (s, ["bad-op"])

def engine : Engine := { State := St, init := {}, step := step }

end Yorkie.Driver.UndoEngine
